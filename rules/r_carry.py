"""R12.5: functions that rebuild a structure from `self` (map, conversions, into_*) carry every
field over to the field of the same name; R02.6: roundings that must agree inside Select9::new."""
import re
from framework import rule
from guards import is_derived
from r_guards import short_fn
from sym import *  # noqa
from ir import *  # noqa


@rule("R12.5", props=["C02", "C01", "C05", "C06", "C12", "C03", "C13"], floor=20, title="structure-rebuilding functions copy each carried field to the field of the same name")
def r12_5(ctx, rr):
    F = ctx.F()
    from r_guards import simple_env
    for b in F.fns():
        if is_derived(b) or not b.params:
            continue
        structs = [n for n in walk(b.body) if n.get("k") == "Struct" and range_of(F, n) is None]
        if not structs:
            continue
        T = None
        pids = set(str(p.get("id")) for p in b.params if p.get("k") == "PBind")
        for n in structs:
            carried = []
            names = set(f["name"] for f in n["fields"])
            for f in n["fields"]:
                e = f["e"]
                # plain `src.field` where src is a parameter (self / value)
                if e.get("k") == "Field" and e["e"].get("k") == "Path" and e["e"].get("res") == "local" and any(p.get("id") == e["e"].get("id") for p in b.params):
                    carried.append((f["name"], e["name"], e["e"]["name"]))
                    continue
                # ... or a local that is such a field (taken apart first: `let (bits, w, len) = value.into_raw_parts()`)
                if e.get("k") == "Path" and e.get("res") == "local":
                    if T is None:
                        try:
                            T = Walker(F, b)
                            T.run()
                        except Exception:
                            T = False
                    if T:
                        t = T.expand(T.T.term(e))
                        if t[0] == "field" and t[1][0] == "var" and str(t[1][2]).split("#")[0] in pids and isinstance(t[2], str):
                            carried.append((f["name"], t[2], t[1][1]))
            same = [c for c in carried if c[0] == c[1]]
            diff = [c for c in carried if c[0] != c[1]]
            # two fields of the rebuilt structure filled from each other's source (a tuple destructured in the wrong order)
            crossed = [c for c in diff if c[1] in names and not c[1].isdigit()]
            if len(same) < 2 and not (len(crossed) >= 2):
                continue
            rr.instances += 1
            key = "%s:carries-fields" % short_fn(b.key)
            rr.ob(not diff, key=key, nontrivial=bool(diff), sample={"fn": b.key, "carried": len(same)})
            for d in diff:
                # legitimate renames: target field absent in the source type (e.g. tuple newtype `.0`)
                if d[1].isdigit():
                    continue
                rr.violate(key, "%s rebuilds a structure from `%s` and initialises field `%s` from `%s.%s` while %d other fields are carried over under their own names: the wrong field is copied" % (b.key, d[2], d[0], d[2], d[1], len(same)), F.loc(n),
                           exclude=None if "Atomic" in b.key else ["C13"])   # a conversion to or from an atomic vector is what concurrent writers go through


@rule("R02.6", props=["C02"], floor=2, title="Select9::new pads every 16-bit table up to the next multiple of 8 strictly above the number of blocks")
def r02_6(ctx, rr):
    F = ctx.F()
    b = F.one(r"^rank_sel::select9::Select9::<rank_sel::rank9::Rank9<B, C>>::new$")
    rounds = []

    def on_node(W, n, K):
        if n.get("k") == "Binary" and n["op"] == "&":
            t = W.T.term(n)
            # (x + a) & !7
            for a, m in ((t[2], t[3]), (t[3], t[2])):
                if m == ("un", "!", ("int", 7)) or m == ("int", (1 << 64) - 8):
                    base, off = lin(a)
                    rounds.append((n, base, off, W.debug_depth > 0))
    Walker(F, b, on_node=on_node).run()
    live = [r for r in rounds if not r[3]]
    if len(live) < 2:
        raise AnchorMissing("Select9::new: expected at least 2 round-ups to a multiple of 8, found %d" % len(live))
    for n, base, off, dbg in live:
        rr.instances += 1
        # the inventory sentinel rounds the number of words up with +3 & !3 -- only `& !7` sites are considered here
        key = "Select9::new:pad-to-next-multiple-of-8"
        ok = off == 8 or off == 7 and False
        rr.ob(ok, key=key + str(off), sample={"expr": show(F, n), "base": tshow(base), "addend": off})
        if not ok:
            rr.violate(key, "Select9::new rounds `%s` with `(x + %d) & !7`: the 0xFFFF sentinels must reach the next multiple of 8 strictly above the number of blocks (`(x + 8) & !7`), otherwise a span with a multiple of 8 blocks has no sentinel group and select lands 8 blocks too far" % (tshow(base), off), F.loc(n))


@rule("R12.6", props=["C02", "C01"], floor=6, title="map(): a structure rebuilt around a new backend keeps every const parameter of the original")
def r12_6(ctx, rr):
    """`fn map(self, f) -> S<C, I>` with the const parameters left to their defaults returns a structure that reads
    the tables built for the receiver's parameters with other ones."""
    F = ctx.F()
    maps = [b for b in F.fns() if b.name == "map" and b.file.startswith("src/rank_sel/") and b.impl_self]
    if len(maps) < 6:
        raise AnchorMissing("expected at least 6 map() methods on rank/select structures, found %d" % len(maps))
    from r_serde import top_args
    for b in maps:
        self_args = top_args(b.impl_self)
        ret = b.ret or ""
        ret_args = top_args(ret)
        # const parameters: identifiers in upper case or integer literals
        def consts(args):
            return [a for a in args if re.fullmatch(r"[A-Z][A-Z0-9_]{3,}|\d+", a)]
        rr.instances += 1
        ok = consts(self_args) == consts(ret_args) and strip_generics(ret).split("<")[0] == strip_generics(b.impl_self).split("<")[0]
        key = "%s:keeps-const-parameters" % short_fn(b.key)
        rr.ob(ok, key=key, sample={"fn": b.key, "self": b.impl_self, "returns": ret})
        if not ok:
            rr.violate(key, "%s returns `%s` for a receiver `%s`: the const parameters %s are not carried over (they fall back to their defaults), so the rebuilt structure reads the inventories built for the original parameters with different ones" % (b.key, ret, b.impl_self, consts(self_args)), b.span)
