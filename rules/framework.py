"""Rule registry, result types, known-findings handling, evidence writer."""
import json
import os
import time

VERIF = os.path.dirname(os.path.dirname(os.path.abspath(__file__)))

RULES = {}     # rule id -> RuleDef
PROP_RULES = {}  # property -> [rule ids]


class RuleDef:
    def __init__(self, rid, fn, props, floor, title, configs):
        self.rid = rid
        self.fn = fn
        self.props = props
        self.floor = floor
        self.title = title
        self.configs = configs


def rule(rid, props, floor=1, title="", configs=("default",), scope_all=False):
    def deco(fn):
        if rid in RULES and RULES[rid].fn.__code__.co_filename != fn.__code__.co_filename or (rid in RULES and RULES[rid].fn.__name__ != fn.__name__):
            raise RuntimeError("rule id %s is defined twice (%s and %s)" % (rid, RULES[rid].fn.__name__, fn.__name__))
        RULES[rid] = RuleDef(rid, fn, props, floor, title or (fn.__doc__ or "").strip().split("\n")[0], configs)
        # scope_all: the rule is a necessary condition of every listed property wherever the construct lives
        # (no attribution by anchor files)
        RULES[rid].scope_all = scope_all
        for p in props:
            PROP_RULES.setdefault(p, []).append(rid)
        return fn
    return deco


class Violation:
    def __init__(self, rid, key, msg, loc="", details=None, props=None, exclude=None):
        self.props = props
        self.exclude = exclude
        self.rid = rid
        self.key = "%s:%s" % (rid, key)
        self.msg = msg
        self.loc = loc
        self.details = details or {}

    def as_dict(self):
        return {"rule": self.rid, "key": self.key, "message": self.msg, "at": self.loc, "details": self.details}


class RuleResult:
    def __init__(self, rid):
        self.rid = rid
        self.instances = 0          # rule instances matched (for the floor)
        self.obligations = 0
        self.discharged = 0
        self.assumed = 0
        self.violations = []
        self.samples = []
        self.assumptions = []
        self.notes = []
        self.nontrivial_keys = set()

    def ob(self, ok, key=None, sample=None, nontrivial=True):
        """Record one obligation."""
        self.obligations += 1
        if ok:
            self.discharged += 1
        if key is not None and nontrivial:
            self.nontrivial_keys.add(key)
        if sample is not None and len(self.samples) < 4:
            self.samples.append(sample)

    def violate(self, key, msg, loc="", details=None, props=None, exclude=None):
        """props: the properties (a subset of the rule's) this particular obligation is a clause of; exclude: properties
        of the rule that this obligation is *not* a clause of (the others are attributed by anchor files as usual)."""
        self.violations.append(Violation(self.rid, key, msg, loc, details, props, exclude))

    def check(self, ok, key, msg, loc="", details=None, sample=None, props=None):
        """One obligation that is either discharged or a violation."""
        self.ob(ok, key=key, sample=sample if sample is not None else {"obligation": key, "holds": bool(ok), "at": loc})
        if not ok:
            self.violate(key, msg, loc, details, props)
        return ok


class Ctx:
    """Per-run context: loaded facts per configuration, tables."""

    def __init__(self, facts_by_cfg, tier):
        self.facts = facts_by_cfg
        self.tier = tier
        self._cache = {}

    def F(self, cfg="default"):
        return self.facts[cfg]

    def memo(self, key, fn):
        if key not in self._cache:
            self._cache[key] = fn()
        return self._cache[key]


def load_table(name):
    with open(os.path.join(VERIF, "tables", name)) as f:
        return json.load(f)


def load_known():
    p = os.path.join(VERIF, "known_findings.json")
    if not os.path.exists(p):
        return {"findings": [], "fixed": []}
    with open(p) as f:
        return json.load(f)
