"""Static filters: build/query hash agreement (R08.1), membership entry points (R08.2)."""
import re
from framework import rule
from r_guards import short_fn
from r_ef import struct_literal_fields
from sym import *  # noqa
from ir import *  # noqa


def hash_core(t):
    """t == mix64(edge_hash(se, X)) possibly & M  -> (X, M or None)"""
    M = None
    if t[0] == "op" and t[1] == "&":
        for a, m in ((t[2], t[3]), (t[3], t[2])):
            if a[0] == "call" and a[1].endswith("mix64"):
                t, M = a, m
                break
    if t[0] == "call" and t[1].endswith("mix64") and len(t[2]) == 1:
        eh = t[2][0]
        if eh[0] == "call" and eh[1] == "ShardEdge::edge_hash" and len(eh[2]) == 2:
            return eh[2][1], M, eh[2][0]
    return None


@rule("R08.1", props=["C08", "C11"], floor=4, title="filters store and compare the same masked mix of the local signature's edge hash; mask, bit width and hash_bits denote one b")
def r08_1(ctx, rr):
    F = ctx.F()
    builders = F.find(r"^func::vbuilder::VBuilder::<W, .*, S, E>::try_build_filter$")
    if len(builders) != 2:
        raise AnchorMissing("expected two try_build_filter (slice and bit-field backends), found %d" % len(builders))
    for b in builders:
        nm = "try_build_filter[%s]" % ("BitFieldVec" if "BitFieldVec" in b.key else "Box")
        # closure get_val
        clos = []
        lits = []
        bl_args = []
        bl_known = []
        bl_arg_ids = []

        def on_node(W, n, K):
            if n.get("k") == "Struct" and (F.defpath(n) or "").endswith("VFilter"):
                lits.append({f["name"]: W.T.term(f["e"]) for f in n["fields"]})
            if cname(F, n) == "VBuilder::build_loop":
                bl_args.append([W.T.term(a) for a in call_args(n)])
                bl_known.append(K.copy())
                # get_val is the fifth argument (self, keys, values, bit_width, get_val, new_data, pl)
                ca = call_args(n)
                if len(ca) > 4:
                    bl_arg_ids.extend(x["id"] for x in walk(ca[4]) if x.get("k") == "Path" and x.get("res") == "local")
        W = Walker(F, b, on_node=on_node)
        W.run()
        # the closure computing the stored value: the let-bound closure handed to build_loop (by role, not by name)
        for n in walk(b.body):
            if n.get("k") == "LetStmt" and n["pat"].get("k") == "PBind" and n.get("init", {}).get("k") == "Closure" and n["pat"]["id"] in bl_arg_ids and len(n["init"].get("params", [])) == 2:
                clos.append(n["init"])
        if len(clos) != 1 or len(lits) != 1 or len(bl_args) != 1:
            raise AnchorMissing("%s: expected one get_val closure, one VFilter literal and one build_loop call" % b.key)
        c = clos[0]
        # term of the closure body with the environment of the function (filter_mask local)
        W2 = Walker(F, b)
        W2.run()
        body_t = W2.T.term(c["body"])
        se_p, sv_p = c["params"][0], c["params"][1]
        hc = hash_core(body_t)
        rr.instances += 1
        ok = hc is not None and hc[0] == ("field", ("var", sv_p["name"], sv_p["id"]), "sig") and hc[2] == ("var", se_p["name"], se_p["id"])
        rr.check(ok, "%s:stored-value" % nm, "%s: the stored value must be mask(mix64(shard_edge.edge_hash(sig_val.sig))); found %s" % (b.key, tshow(body_t)[:200]), b.span)
        L = lits[0]
        fm = L.get("filter_mask", ("unk", "?"))
        hb = L.get("hash_bits", ("unk", "?"))
        bw = bl_args[0][3] if len(bl_args[0]) > 3 else ("unk", "?")
        # b: Some(b) passed as the bit width
        bterm = bw[2][0] if bw[0] in ("call", "callv") and len(bw[2]) == 1 else None
        if bterm is None and bw[0] == "callv":
            bterm = bw[2][0]
        rr.instances += 1
        ok = bterm is not None and hb == bterm
        rr.check(ok, "%s:hash_bits=bit_width" % nm, "%s: hash_bits (%s) and the bit width handed to build_loop (%s) must denote the same b" % (b.key, tshow(hb), tshow(bw)), b.span)
        # mask: MAX >> (BITS - b), or MAX with b == BITS
        rr.instances += 1
        is_max = fm[0] == "def" and fm[1].endswith("MAX")
        okm = False
        if is_max:
            okm = bterm is not None and bterm[0] == "def" and bterm[1].endswith("BITS")
        elif fm[0] == "op" and fm[1] == ">>" and fm[2][0] == "def" and fm[2][1].endswith("MAX"):
            sh = fm[3]
            okm = sh[0] == "op" and sh[1] == "-" and sh[2][0] == "def" and sh[2][1].endswith("BITS") and sh[3] == bterm
        rr.check(okm, "%s:filter_mask=2^b-1" % nm, "%s: filter_mask must be W::MAX >> (W::BITS - b) for the same b (or W::MAX with b = W::BITS); found %s with b = %s" % (b.key, tshow(fm), tshow(bterm) if bterm else None), b.span)
        # the mask applied when storing is the filter_mask returned (or none when it is MAX)
        rr.instances += 1
        oks = hc is not None and ((hc[1] is None and is_max) or hc[1] == fm)
        rr.check(oks, "%s:stored-mask=filter_mask" % nm, "%s: the value stored must be masked with the very filter_mask kept in the filter; stored mask %s vs filter_mask %s" % (b.key, tshow(hc[1]) if hc and hc[1] else None, tshow(fm)), b.span)
        if not is_max:
            # asserts 0 < b <= BITS dominate
            rr.instances += 1
            K0 = bl_known[0]
            raw_b = bterm
            while raw_b is not None and raw_b[0] == "cast":
                raw_b = raw_b[2]
            lo_ok = raw_b is not None and (K0.entails(atom_le(("int", 1), raw_b)) or K0.entails(atom_le(("int", 0), raw_b, True)))
            hi_ok = raw_b is not None and any(a[0] == "le" and a[3] <= 0 and a[1] == raw_b and a[2][0] == "def" and a[2][1].endswith("BITS") for a in K0.atoms)
            rr.check(lo_ok and hi_ok, "%s:asserts-b-range" % nm, "%s must assert 0 < filter_bits <= W::BITS before computing the mask (a shift by W::BITS would overflow)" % b.key, b.span)
    # queries
    for path in (r"^dict::vfilter::VFilter::<W, func::vfunc::VFunc<T, W, D, S, E>>::contains_by_sig$", r"^dict::vfilter::VFilter::<W, func::vfunc::VFunc<T, W, bits::bit_field_vec::BitFieldVec<W>, S, E>>::contains_by_sig_unaligned$"):
        q = F.one(path)
        W = Walker(F, q)
        W.run()
        t = W.T.term(q.body.get("expr"))
        slf = ("var", "self", q.params[0]["id"])
        sig = ("var", q.params[1]["name"], q.params[1]["id"])
        ok = False
        found = tshow(t)[:300]
        if t[0] == "op" and t[1] == "==":
            for g, h in ((t[2], t[3]), (t[3], t[2])):
                if g[0] == "call" and g[1].startswith("VFunc::get_by_sig") and g[2] == (("field", slf, "func"), sig):
                    hc = hash_core(h)
                    se = ("field", ("field", slf, "func"), "shard_edge")
                    if hc is not None and hc[1] == ("field", slf, "filter_mask") and hc[2] == se and hc[0] == ("call", "ShardEdge::local_sig", (se, sig)):
                        ok = True
        rr.instances += 1
        rr.check(ok, "%s:query" % short_fn(q.key), "%s must compare func.get_by_sig(sig) with mix64(edge_hash(local_sig(sig))) & self.filter_mask; found %s" % (q.key, found), q.span)


@rule("R08.2", props=["C08"], floor=3, title="every membership entry point reaches contains_by_sig with to_sig(key, func.seed); len is the function's len")
def r08_2(ctx, rr):
    F = ctx.F()
    for path, target in ((r"^dict::vfilter::VFilter::<W, func::vfunc::VFunc<T, W, D, S, E>>::contains$", "VFilter::contains_by_sig"),
                         (r"^dict::vfilter::VFilter::<W, func::vfunc::VFunc<T, W, bits::bit_field_vec::BitFieldVec<W>, S, E>>::contains_unaligned$", "VFilter::contains_by_sig_unaligned")):
        b = F.one(path)
        t = Termizer(F, b).term(b.body)
        slf = ("var", "self", b.params[0]["id"])
        key = ("var", b.params[1]["name"], b.params[1]["id"])
        want = ("call", target, (slf, ("call", "ToSig::to_sig", (key, ("field", ("field", slf, "func"), "seed")))))
        rr.instances += 1
        rr.check(t == want, "%s:entry" % short_fn(b.key), "%s must be %s(to_sig(key, self.func.seed)); found %s" % (b.key, target.split("::")[-1], tshow(t)[:200]), b.span)
    ib = F.one(r"^<dict::vfilter::VFilter<W, func::vfunc::VFunc<T, W, D, S, E>> as std::ops::Index<B>>::index$")
    t = Termizer(F, ib).term(ib.body)
    rr.instances += 1
    ok = t[0] == "ite" and t[1][0] == "call" and t[1][1] == "VFilter::contains" and t[2] == ("bool", True) and t[3] == ("bool", False)
    rr.check(ok, "VFilter::index:entry", "Index for VFilter must be `if self.contains(key) { &true } else { &false }`; found %s" % tshow(t)[:200], ib.span)
    lb = F.one(r"^dict::vfilter::VFilter::<W, func::vfunc::VFunc<T, W, D, S, E>>::len$")
    t = Termizer(F, lb).term(lb.body)
    rr.instances += 1
    slf_l = ("var", "self", lb.params[0]["id"])
    rr.check((t[0] == "call" and t[1] == "VFunc::len") or t == ("field", ("field", slf_l, "func"), "num_keys"), "VFilter::len", "VFilter::len must be the number of keys of the underlying function", lb.span)


def result_term(F, b):
    """Symbolic value of a function body's tail expression (locals expanded)."""
    tail = b.body
    while tail.get("k") == "Block" and "expr" in tail:
        tail = tail["expr"]
    got = []

    def on_node(W, n, K):
        if n is tail:
            got.append(W.expand(W.T.term(n)))
    Walker(F, b, on_node=on_node).run()
    if not got:
        return Termizer(F, b).term(b.body)
    return got[-1]


def edge_form(t):
    """shard(sig) * num_vertices() + local_edge(local_sig(sig))[i]  ->  edge(sig)[i]  (the identity R16.1
    establishes for every ShardEdge implementation), so that either spelling of a cell address is accepted."""
    if not isinstance(t, tuple) or not t:
        return t
    t = tuple(edge_form(x) if isinstance(x, tuple) else x for x in t)
    if t[0] == "op" and t[1] == "+":
        for base, loc in ((t[2], t[3]), (t[3], t[2])):
            if loc[0] == "index" and loc[1][0] == "call" and loc[1][1] == "local_edge" and base[0] == "op" and base[1] == "*":
                se = loc[1][2][0]
                ls = loc[1][2][1]
                if ls[0] == "call" and ls[1] == "local_sig" and ls[2][0] == se:
                    sig = ls[2][1]
                    fs = {base[2], base[3]}
                    if fs == {("call", "shard", (se, sig)), ("call", "num_vertices", (se,))}:
                        return ("index", ("call", "edge", (se, sig)), loc[2])
    return t


UNALIGNED_TWINS = {
    "get_unchecked": "get_unaligned_unchecked", "get_by_sig": "get_by_sig_unaligned", "get": "get_unaligned",
    "contains_by_sig": "contains_by_sig_unaligned", "contains": "contains_unaligned",
}


@rule("R07.7", props=["C07", "C08", "C16"], scope_all=True, floor=6, title="the *_unaligned query methods of functions and filters compute exactly what their aligned twins compute, with the unaligned read in place of the aligned one")
def r07_7(ctx, rr):
    """get_by_sig_unaligned / get_unaligned / contains_by_sig_unaligned / contains_unaligned must address the
    same cells (shard_edge.edge(sig)), combine them the same way and compare with the same mask as
    get_by_sig / get / contains_by_sig / contains."""
    F = ctx.F()
    fns = [b for b in F.fns() if b.file.endswith(("func/vfunc.rs", "dict/vfilter.rs"))]
    by_name = {}
    for b in fns:
        owner = "VFilter" if b.file.endswith("vfilter.rs") else "VFunc"
        by_name.setdefault((owner, b.name), []).append(b)
    n = 0
    for (owner, name), bs in sorted(by_name.items()):
        twin = UNALIGNED_TWINS.get(name)
        if twin is None or (owner, twin) not in by_name:
            continue
        a, u = bs[0], by_name[(owner, twin)][0]
        ta = rename_vars(result_term(F, a), param_roles(a))
        tu = rename_vars(result_term(F, u), param_roles(u))

        def twinify(t):
            if not isinstance(t, tuple) or not t:
                return t
            if t[0] == "call" and isinstance(t[1], str):
                parts = t[1].split("::")
                if parts[-1] in UNALIGNED_TWINS:
                    # the aligned read is a trait method of the backend, the unaligned one an inherent method of BitFieldVec
                    t = ("call", UNALIGNED_TWINS[parts[-1]]) + t[2:]
            return tuple(twinify(x) if isinstance(x, tuple) else x for x in t)

        def bare(t):
            if not isinstance(t, tuple) or not t:
                return t
            if t[0] == "call" and isinstance(t[1], str):
                t = ("call", t[1].split("::")[-1]) + t[2:]
            return tuple(bare(x) if isinstance(x, tuple) else x for x in t)
        want = edge_form(bare(twinify(ta)))
        got = edge_form(bare(tu))
        n += 1
        rr.instances += 1
        key = "%s::%s~%s" % (owner, name, twin)
        rr.ob(want == got, key=key, sample={"pair": key, "aligned": tshow(ta)[:160], "unaligned": tshow(tu)[:160]})
        if want != got:
            rr.violate(key, "%s::%s must compute what %s::%s computes with the unaligned read in place of the aligned one; aligned: %s; unaligned: %s" % (owner, twin, owner, name, tshow(ta)[:260], tshow(tu)[:260]), u.span)
    if n < 6:
        raise AnchorMissing("expected the 4 + 4 aligned/unaligned query pairs of VFunc and VFilter, found %d" % n)


@rule("R08.5", props=["C08", "C07"], scope_all=True, floor=10, title="ToSig of the integer key types hashes the whole key: no narrowing conversion between the key and the bytes handed to the hash (two keys that differ must be able to get different signatures)")
def r08_5(ctx, rr):
    """A function or filter is keyed by signatures. If `to_sig` narrows the key first (`*key as u64` for a u128 key),
    keys that agree on the kept bits are one key to the structure: a non-member sharing them with a member is always
    reported as contained (false-positive rate 1 instead of 2^-b), and two members with different values cannot both be
    stored."""
    F = ctx.F()
    W_ = {"u8": 8, "i8": 8, "u16": 16, "i16": 16, "u32": 32, "i32": 32, "u64": 64, "i64": 64, "usize": 64, "isize": 64, "u128": 128, "i128": 128}
    bs = [b for b in F.fns() if b.name == "to_sig" and (b.impl_trait or "").endswith("ToSig") and (b.impl_self or "") in W_]
    if len(bs) < 10:
        raise AnchorMissing("expected the ToSig impls of the primitive integer types, found %d" % len(bs))
    for b in bs:
        rr.instances += 1
        kw = W_[b.impl_self]
        kid = b.params[0]["id"] if b.params and b.params[0].get("k") == "PBind" else None
        bad = None
        for n in walk(b.body):
            if n.get("k") == "Cast":
                src, dst = F.ty(n["e"]).lstrip("&"), F.ty(n)
                from_key = any(x.get("k") == "Path" and x.get("res") == "local" and x.get("id") == kid for x in walk(n["e"]))
                if from_key and src == b.impl_self and dst in W_ and W_[dst] < kw:
                    bad = (n, dst)
            if n.get("k") == "MethodCall" and n["name"] in ("try_into", "truncate") or (n.get("k") == "Call" and (cname(F, n) or "").endswith("TryFrom::try_from")):
                pass
        key = "ToSig<%s>:whole-key-hashed" % b.impl_self
        rr.ob(bad is None, key=key, sample={"impl": b.key})
        if bad is not None:
            rr.violate(key, "%s converts the %d-bit key to %s (`%s`) before hashing it: keys that differ only in the dropped bits get the same signature, so a filter answers `contained` for every such non-member and a function cannot tell them apart" % (b.key, kw, bad[1], show(F, bad[0])[:50]), F.loc(bad[0]))
