"""E3 flow rules: sharding typestate in try_seed (R07.1), error discipline and retry protocol in
build_loop/try_seed (R17.1-R17.3), par_solve result discipline and filter prefill (R07.4, R08.3, R08.4),
rewindable lenders (R20.1-R20.4)."""
import re
from framework import rule
from guards import is_derived
from r_guards import short_fn
from sym import *  # noqa
from ir import *  # noqa


def events(F, b, want):
    """Evaluation-ordered list of (node, name, conditional-ancestors, args terms, K) for calls whose
    canonical name satisfies want(name)."""
    pm = {id(n): ps for n, ps in walk_with_parents(b.body)}
    out = []

    def on_node(W, n, K):
        if n.get("k") in ("Call", "MethodCall"):
            cn = cname(F, n) or n.get("name") or ""
            if want(cn, n):
                conds = []
                child = n
                for p in reversed(pm.get(id(n), ())):
                    k = p.get("k")
                    if k == "If" and p["c"] is not child:
                        conds.append(p)
                    elif k == "Match" and p["e"] is not child and p.get("src") not in ("TryDesugar", "ForLoopDesugar"):
                        conds.append(p)
                    elif k == "Match" and p.get("src") == "TryDesugar" and p["e"] is not child:
                        # inside the Continue/Break arms of `?`: not a user condition
                        pass
                    elif k == "Loop":
                        conds.append(p)
                    elif k == "Closure":
                        conds.append(p)
                    child = p
                out.append({"node": n, "name": cn, "conds": conds, "args": [W.T.term(a) for a in call_args(n)], "K": K.copy(), "debug": W.debug_depth > 0})
    Walker(F, b, on_node=on_node).run()
    return out


def is_tried(F, pm, n):
    """The Result produced by call n is propagated with `?` (possibly after map_err/context adapters)."""
    child = n
    for p in reversed(pm.get(id(n), ())):
        k = p.get("k")
        if k == "MethodCall" and p["recv"] is child and p["name"] in ("map_err", "context", "with_context", "map", "inspect", "expect", "unwrap"):
            if p["name"] in ("expect", "unwrap"):
                return "unwrap"
            child = p
            continue
        if k == "Call" and (F.callee(p) or "").endswith("Try::branch") and p["args"] and p["args"][0] is child:
            return "?"
        if k == "Ret" or (k == "Block" and p.get("expr") is child):
            child = p
            continue
        return None
    return "tail"


@rule("R07.1", props=["C07", "C17", "C16", "C08"], floor=6, title="try_seed: shards set up from the actual key count before the store is split; geometry consumers see one consistent state")
def r07_1(ctx, rr):
    F = ctx.F()
    b = F.one(r"^func::vbuilder::VBuilder::<W, D, S, E>::try_seed$")
    slf = ("var", "self", b.params[0]["id"])
    names = ("ShardEdge::set_up_shards", "ShardEdge::set_up_graphs", "SigStore::into_shard_store", "ShardEdge::shard_high_bits",
             "ShardEdge::num_vertices", "ShardEdge::num_shards", "SigStore::len", "VBuilder::try_build_from_shard_iter")
    ev = [e for e in events(F, b, lambda cn, n: cn in names or (n.get("k") == "Call" and n["f"].get("k") == "Path" and n["f"].get("name") == "new_data")) if not e["debug"]]
    for e in ev:
        if e["node"].get("k") == "Call" and e["node"]["f"].get("k") == "Path" and e["node"]["f"].get("name") == "new_data":
            e["name"] = "new_data"
    order = [e["name"] for e in ev]

    def idx(nm):
        return [i for i, e in enumerate(ev) if e["name"] == nm]
    sus = idx("ShardEdge::set_up_shards")
    iss = idx("SigStore::into_shard_store")
    sug = idx("ShardEdge::set_up_graphs")
    nd = idx("new_data")
    tb = idx("VBuilder::try_build_from_shard_iter")
    for nm, lst in (("set_up_shards", sus), ("into_shard_store", iss), ("set_up_graphs", sug), ("new_data", nd), ("try_build_from_shard_iter", tb)):
        if len(lst) != 1:
            raise AnchorMissing("try_seed: expected exactly one call of %s, found %d" % (nm, len(lst)))
    e_sus, e_iss, e_sug, e_nd = ev[sus[0]], ev[iss[0]], ev[sug[0]], ev[nd[0]]
    # actual key count
    num_keys_assigned = None
    for n in walk(b.body):
        if n.get("k") == "Assign" and n["l"].get("k") == "Field" and n["l"]["name"] == "num_keys":
            num_keys_assigned = n
    rr.instances += 1
    rr.check(num_keys_assigned is not None and cname(F, num_keys_assigned["r"]) == "SigStore::len", "try_seed:num_keys=store.len", "try_seed must set self.num_keys from the number of signatures actually stored (sig_store.len())", b.span)
    rr.instances += 1
    a0 = e_sus["args"][1] if len(e_sus["args"]) > 1 else None
    rr.check(a0 == ("field", slf, "num_keys"), "try_seed:set_up_shards(actual)", "try_seed must call set_up_shards with the actual key count self.num_keys (found %s): the expected_num_keys hint is only advisory" % (tshow(a0) if a0 else None), F.loc(e_sus["node"]))
    rr.instances += 1
    rr.check(not e_sus["conds"], "try_seed:set_up_shards-unconditional", "try_seed must set up the shards for the actual key count on every path; the call is conditional on `%s`" % (show(F, e_sus["conds"][0].get("c", e_sus["conds"][0].get("e", {})))[:120] if e_sus["conds"] else ""), F.loc(e_sus["node"]))
    rr.instances += 1
    rr.check(sus[0] < iss[0], "try_seed:set_up_shards<into_shard_store", "the signature store must be split into shards (into_shard_store(shard_high_bits())) only after set_up_shards(actual key count): otherwise the shards solved and the geometry used by queries disagree", F.loc(e_iss["node"]))
    # argument of into_shard_store is shard_high_bits() of the same shard_edge
    a = e_iss["args"][1] if len(e_iss["args"]) > 1 else ("unk", "?")
    rr.instances += 1
    rr.check(a[0] == "call" and a[1] == "ShardEdge::shard_high_bits", "try_seed:into_shard_store(shard_high_bits)", "into_shard_store must be given shard_edge.shard_high_bits(); found %s" % tshow(a), F.loc(e_iss["node"]))
    rr.instances += 1
    rr.check(iss[0] < sug[0] < nd[0] and not e_sug["conds"], "try_seed:set_up_graphs-order", "set_up_graphs(num_keys, max_shard) must run unconditionally after the store was split (it needs the maximum shard size) and before the backend is allocated", F.loc(e_sug["node"]))
    g = e_sug["args"]
    rr.instances += 1
    rr.check(len(g) >= 3 and g[1] == ("field", slf, "num_keys"), "try_seed:set_up_graphs(actual)", "set_up_graphs must receive the actual key count", F.loc(e_sug["node"]))
    # no mutator after the first consumer of the final geometry
    rr.instances += 1
    late = [e for i, e in enumerate(ev) if e["name"] in ("ShardEdge::set_up_shards", "ShardEdge::set_up_graphs") and i > nd[0]]
    rr.check(not late, "try_seed:no-late-setup", "no set_up_shards/set_up_graphs may follow the allocation of the backend", b.span)
    # new_data(bit_width, num_vertices * num_shards)
    na = e_nd["args"]
    se = ("field", slf, "shard_edge")
    ok = len(na) == 2 and na[0] == ("field", slf, "bit_width") and na[1][0] == "op" and na[1][1] == "*" and \
        {na[1][2][1] if na[1][2][0] == "call" else None, na[1][3][1] if na[1][3][0] == "call" else None} == {"ShardEdge::num_vertices", "ShardEdge::num_shards"}
    rr.instances += 1
    rr.check(ok, "try_seed:new_data-size", "the backend must be allocated as new_data(self.bit_width, num_vertices() * num_shards()); found %s" % [tshow(x)[:80] for x in na], F.loc(e_nd["node"]))
    # bit width from the maximum value: len() of the upcast maximum (number of significant bits)
    bw = None
    for n in walk(b.body):
        if n.get("k") == "Assign" and n["l"].get("k") == "Field" and n["l"]["name"] == "bit_width":
            bw = n
    rr.instances += 1
    uses_len = uses_log = False
    if bw is not None:
        for x in walk(bw["r"]):
            if x.get("k") == "MethodCall":
                if x["name"] == "len" and any(y.get("k") == "Path" and y.get("res") == "local" for y in walk(x["recv"])) and not x["args"]:
                    uses_len = True
                if "ilog" in x["name"] or x["name"] in ("leading_zeros", "log2", "next_power_of_two", "trailing_zeros"):
                    uses_log = True
    rr.check(bw is not None and uses_len and not uses_log, "try_seed:bit_width=len(max)", "the bit width of a function must be the number of significant bits of the maximum value (`max.upcast().len()`)", F.loc(bw) if bw is not None else b.span)
    # R07.5: the hint flows only into pre-sizing and logging
    bl = F.one(r"^func::vbuilder::VBuilder::<W, D, S, E>::build_loop$")
    uses = []
    for fn in (b, bl):
        for n in walk(fn.body):
            if n.get("k") == "Field" and n["name"] == "expected_num_keys":
                uses.append((fn, n))
    rr.instances += 1
    rr.check(1 <= len(uses) <= 6, "vbuilder:hint-uses", "expected_num_keys is read at %d places in build_loop/try_seed (confirmed: pre-sizing of the shards, store capacity, progress logging)" % len(uses), bl.span)


@rule("R07.2", props=["C07", "C16", "C12"], floor=4, title="builder uses local_edge(local_sig) inside a chunk of num_vertices cells; queries use edge(sig); assignment XORs the other two cells")
def r07_2(ctx, rr):
    F = ctx.F()
    g = F.one(r"^func::vfunc::VFunc::<T, W, D, S, E>::get_by_sig$")
    slf = ("var", "self", g.params[0]["id"])
    sig = ("var", g.params[1]["name"], g.params[1]["id"])
    W = Walker(F, g)
    W.run()
    t = W.T.term(g.body.get("expr"))
    edge = ("call", "ShardEdge::edge", (("field", slf, "shard_edge"), sig))
    cells = [("call", "BitFieldSlice::get_unchecked", (("field", slf, "data"), ("index", edge, ("int", i)))) for i in range(3)]
    want = mk_op("^", mk_op("^", cells[0], cells[1]), cells[2])

    def xor_set(t):
        if t[0] == "op" and t[1] == "^":
            return xor_set(t[2]) + xor_set(t[3])
        return [t]
    rr.instances += 1
    rr.check(sorted(map(repr, xor_set(t))) == sorted(map(repr, cells)), "VFunc::get_by_sig:xor-of-edge-cells", "get_by_sig must return data[e0] ^ data[e1] ^ data[e2] for e = shard_edge.edge(sig); found %s" % tshow(t)[:300], g.span)
    # assign: for each side, the cell written is edge[side] and the value val ^ (the other two cells)
    a = F.one(r"^func::vbuilder::VBuilder::<W, D, S, E>::assign$")
    sets = []
    gets = []

    def on_node(Wk, n, K):
        cn = cname(F, n)
        if cn == "BitFieldSliceMut::set_unchecked":
            sets.append([Wk.T.term(x) for x in call_args(n)])
        if cn == "ShardEdge::local_edge":
            gets.append(n)
        if cn == "ShardEdge::edge":
            gets.append(("GLOBAL", n))
    Wa = Walker(F, a, on_node=on_node)
    Wa.run()
    rr.instances += 1
    rr.check(len(sets) == 1 and any(not isinstance(x, tuple) or x[0] != "GLOBAL" for x in gets) and not any(isinstance(x, tuple) and x[0] == "GLOBAL" for x in gets), "VBuilder::assign:local_edge", "assign must address the shard's chunk through local_edge(), never through the global edge()", a.span)
    if sets:
        idx_t, val_t = Wa.expand(sets[0][1]), Wa.expand(sets[0][2])
        # the side: the variable on which index and value depend besides the edge and the value; for each side
        # k in 0..3 the specialised index must be local_edge(..)[k] and the value `val ^ data[e_i] ^ data[e_j]`
        # with {i, j} the other two (whatever the syntax: match, if-chain, a pair of indices picked first)
        def is_edge_cell(x):
            return x[0] == "index" and x[1][0] == "call" and x[1][1] == "ShardEdge::local_edge" and x[2][0] == "int"
        side_vars = set()
        for x in subterms(idx_t):
            if x and x[0] == "index" and x[1][0] == "call" and x[1][1] == "ShardEdge::local_edge" and x[2][0] != "int":
                side_vars.add(x[2])
        for x in subterms(val_t):
            if x and x[0] == "op" and len(x) == 4 and x[1] == "==" and (x[2][0] == "int" or x[3][0] == "int"):
                side_vars.add(x[3] if x[2][0] == "int" else x[2])
        rr.instances += 1
        ok_idx = True
        per_side = []
        if len(side_vars) != 1:
            ok_idx = False
        else:
            sv = list(side_vars)[0]
            for k_ in range(3):
                it = specialise(idx_t, sv, ("int", k_))
                vt = specialise(val_t, sv, ("int", k_))
                ok_idx = ok_idx and is_edge_cell(it) and it[2] == ("int", k_)
                cells_ = sorted(x[2][1][2][1] for x in xor_operands(vt) if x[0] == "call" and x[1].endswith("get_unchecked") and len(x[2]) == 2 and is_edge_cell(x[2][1]))
                others = [x for x in xor_operands(vt) if not (x[0] == "call" and x[1].endswith("get_unchecked"))]
                per_side.append((k_, cells_, len(others)))
        rr.check(ok_idx, "VBuilder::assign:writes-edge[side]", "assign must store into cell local_edge(sig)[side]; found index %s" % tshow(idx_t)[:160], a.span)
        rr.instances += 1
        rr.check(per_side == [(0, [1, 2], 1), (1, [0, 2], 1), (2, [0, 1], 1)], "VBuilder::assign:xor-other-two", "assign must XOR the value with the two *other* cells of the edge for each side; found (side, cells, other operands) %s" % per_side, a.span)
    # par_solve chunks the data by num_vertices and zips with the shards
    p = F.one(r"^func::vbuilder::VBuilder::<W, D, S, E>::par_solve$")
    tc = [n for n in walk(p.body) if n.get("k") == "MethodCall" and n["name"] == "try_chunks_mut"]
    rr.instances += 1
    ok = len(tc) == 1 and cname(F, tc[0]["args"][0]) == "ShardEdge::num_vertices"
    rr.check(ok, "par_solve:chunks-of-num_vertices", "par_solve must split the backend into chunks of shard_edge.num_vertices() cells (one per shard)", p.span)
    zips = [n for n in walk(p.body) if n.get("k") == "MethodCall" and n["name"] == "zip"]
    rr.instances += 1
    rr.check(len(zips) == 1 and zips[0]["args"] and any(x is tc[0] for x in walk(zips[0]["args"][0])) if tc else False, "par_solve:zip-shards-chunks", "par_solve must pair the i-th shard with the i-th chunk (shard_iter.zip(chunks))", p.span)


@rule("R17.1", props=["C17", "C07", "C08"], floor=8, title="build_loop/try_seed: every Result from lenders, store and rewinds is propagated")
def r17_1(ctx, rr):
    F = ctx.F()
    targets = ("Lender::next", "RewindableIoLender::rewind", "SigStore::try_push", "SigStore::into_shard_store", "sig_store::new_offline", "sig_store::new_online")
    for path in (r"^func::vbuilder::VBuilder::<W, D, S, E>::build_loop$", r"^func::vbuilder::VBuilder::<W, D, S, E>::try_seed$"):
        b = F.one(path)
        pm = {id(n): ps for n, ps in walk_with_parents(b.body)}
        for n in walk(b.body):
            if n.get("k") not in ("Call", "MethodCall"):
                continue
            cn = cname(F, n)
            if cn not in targets:
                continue
            rr.instances += 1
            key = "%s:%s:propagated" % (short_fn(b.key), cn.split("::")[-1])
            how = is_tried(F, pm, n)
            ok = how == "?"
            detail = ""
            if cn == "Lender::next":
                # `while let Some(result) = keys.next() { match result { Ok(..) => .., Err(e) => return Err(..) } }`
                # or `values.next().expect(..)?`
                if how == "unwrap":
                    # the unwrapped Option's inner Result must then be tried
                    child = n
                    ok = False
                    for p in reversed(pm.get(id(n), ())):
                        if p.get("k") == "MethodCall" and p["recv"] is child and p["name"] in ("expect", "unwrap"):
                            ok = is_tried(F, pm, p) == "?"
                            break
                        child = p
                elif how is None:
                    ps = pm.get(id(n), ())
                    par = ps[-1] if ps else None
                    ok = False
                    if par is not None and par.get("k") == "Let":
                        # find `match <binding> { Err(e) => return Err }` in the enclosing If's then-branch
                        binds = [bid for _, bid in pat_bindings(par["pat"])]
                        enclosing_if = ps[-2] if len(ps) >= 2 else None
                        if enclosing_if is not None and enclosing_if.get("k") == "If":
                            # `let key = result?;` (the binding itself is tried)
                            for m in walk(enclosing_if["th"]):
                                if m.get("k") == "Match" and m.get("src") == "TryDesugar" and any(x.get("k") == "Path" and x.get("res") == "local" and x.get("id") in binds for x in walk(m["e"])):
                                    ok = True
                            for m in walk(enclosing_if["th"]):
                                if m.get("k") == "Match" and m["e"].get("k") == "Path" and m["e"].get("id") in binds:
                                    for arm in m["arms"]:
                                        if arm["pat"].get("name") == "Err":
                                            body = arm["body"]
                                            rets = [x for x in walk(body) if x.get("k") == "Ret" and "e" in x and "Err(" in show(F, x["e"])]
                                            if rets and diverges(F, body):
                                                ok = True
                                            else:
                                                detail = "the Err arm `%s` does not return the error" % show(F, body)[:80]
            rr.ob(ok, key=key, sample={"fn": b.key, "call": show(F, n)[:100], "propagation": how})
            if not ok:
                rr.violate(key, "%s: the Result of `%s` is not propagated to the caller (%s)" % (b.key, show(F, n)[:120], detail or "no `?` / `return Err`"), F.loc(n))


SOLVE_VARIANTS = ("DuplicateSignature", "DuplicateLocalSignature", "MaxShardTooBig", "UnsolvableShard")


def solve_error_match(F, bl):
    """The match over the SolveError variants in build_loop (wherever it sits), as {variant: arm}; and whether an
    error that is not a SolveError is handed back to the caller (an `Err(e) => return Err(e)` arm of the match on
    `error.downcast::<SolveError>()`, or that downcast result propagated with `?`)."""
    variants = None
    for n in walk(bl.body):
        if n.get("k") == "Match" and n.get("src") == "Normal":
            names = [a["pat"].get("name", "") for a in n["arms"]]
            if sum(1 for x in names if x in SOLVE_VARIANTS) >= 2:
                variants = ({a["pat"].get("name", "?"): a for a in n["arms"]}, n)
    fatal = False
    for n in walk(bl.body):
        if n.get("k") == "Match" and any(x.get("k") == "MethodCall" and x["name"] == "downcast" for x in walk(n["e"])):
            if n.get("src") == "TryDesugar":
                fatal = True
            else:
                for a in n["arms"]:
                    if a["pat"].get("name") == "Err" and diverges(F, a["body"]) and any(x.get("k") == "Ret" and "e" in x and show(F, x["e"]).startswith("v1::Err(") for x in walk(a["body"])):
                        fatal = True
    return variants, fatal


def bounded_retry(F, arm_body):
    """counter ids with a bound: `if cnt >= k { .. return Err }` or `if cnt < k { .. } else { .. return Err }`, and the
    same counter incremented by one in the arm. Returns {counter id: bound}."""
    cnts = {}
    def returns_err(br):
        return br is not None and diverges(F, br) and any(y.get("k") == "Ret" and "Err(" in show(F, y.get("e", {"k": "?"})) for y in walk(br))
    for x in walk(arm_body):
        if x.get("k") == "If" and x["c"].get("k") == "Binary" and x["c"]["op"] in (">=", ">", "<", "<=") and x["c"]["l"].get("k") == "Path" and x["c"]["r"].get("k") == "Lit":
            op = x["c"]["op"]
            k_ = int(x["c"]["r"]["v"])
            if op in (">=", ">") and returns_err(x["th"]):
                cnts.setdefault(x["c"]["l"]["id"], {})["test"] = k_ + (1 if op == ">" else 0)
            if op in ("<", "<=") and returns_err(x.get("el")):
                cnts.setdefault(x["c"]["l"]["id"], {})["test"] = k_ + (1 if op == "<=" else 0)
        if x.get("k") == "AssignOp" and x["op"] == "+=" and x["l"].get("k") == "Path" and x["r"].get("v") == "1":
            cnts.setdefault(x["l"]["id"], {})["inc"] = True
    return cnts



@rule("R17.2", props=["C17"], floor=5, title="build_loop: fatal errors returned unchanged, duplicate retries bounded by counters")
def r17_2(ctx, rr):
    F = ctx.F()
    b = F.one(r"^func::vbuilder::VBuilder::<W, D, S, E>::build_loop$")
    found, fatal = solve_error_match(F, b)
    rr.instances += 1
    rr.check(fatal, "build_loop:fatal-errors-returned", "errors that are not a SolveError (I/O errors of the lenders, store errors, BuildError) must be returned to the caller unchanged", b.span)
    if found is None:
        raise AnchorMissing("build_loop: no match on the SolveError variants")
    variants, sm = found
    for v in ("DuplicateSignature", "DuplicateLocalSignature"):
        rr.instances += 1
        a = variants.get(v)
        if a is None:
            rr.violate("build_loop:%s:arm" % v, "build_loop has no arm for SolveError::%s" % v, F.loc(sm))
            continue
        cnts = bounded_retry(F, a["body"])
        ok = any("test" in c and "inc" in c and c["test"] <= 16 for c in cnts.values())
        rr.check(ok, "build_loop:%s:bounded" % v, "the %s arm must count its retries and give up with a BuildError after a bounded number of attempts (found %s)" % (v, cnts), F.loc(a["body"]))
    # no SolveError arm returns Ok
    rr.instances += 1
    bad = [nm for nm, a in variants.items() if any(x.get("k") == "Ret" and "Ok(" in show(F, x.get("e", {"k": "?"})) for x in walk(a["body"]))]
    rr.check(not bad, "build_loop:no-ok-from-error", "no SolveError arm may return Ok", F.loc(sm))
    # Ok(func) only from try_seed's Ok
    rr.instances += 1
    oks = [x for x in walk(b.body) if x.get("k") == "Ret" and "e" in x and show(F, x["e"]).startswith("v1::Ok(")]
    # the value returned is the binding of the `Ok(x)` arm of the match on try_seed's result
    ok_bind = set()
    # locals holding the result of an attempt (`let attempt = if .. { self.try_seed(..) } else { self.try_seed(..) }`)
    attempt_ids = set(x["pat"]["id"] for x in walk(b.body) if x.get("k") == "LetStmt" and x["pat"].get("k") == "PBind" and "init" in x and any(y.get("k") == "MethodCall" and y["name"] == "try_seed" for y in walk(x["init"])))
    for mm in walk(b.body):
        if mm.get("k") == "Match" and (any(x.get("k") == "MethodCall" and x["name"] == "try_seed" for x in walk(mm["e"])) or (mm["e"].get("k") == "Path" and mm["e"].get("id") in attempt_ids)):
            for a in mm["arms"]:
                if a["pat"].get("name") == "Ok":
                    ok_bind |= set(bid for _, bid in pat_bindings(a["pat"]))
    good = False
    if len(oks) == 1 and oks[0]["e"].get("k") == "Call" and len(oks[0]["e"].get("args", [])) == 1:
        arg = oks[0]["e"]["args"][0]
        good = arg.get("k") == "Path" and arg.get("res") == "local" and arg.get("id") in ok_bind
    rr.check(good, "build_loop:ok-only-from-try_seed", "build_loop must return Ok only with the function returned by try_seed", b.span)


@rule("R17.3", props=["C17", "C20", "C07", "C08"], floor=2, title="both lenders are rewound on every path from a failed attempt to the next one")
def r17_3(ctx, rr):
    F = ctx.F()
    b = F.one(r"^func::vbuilder::VBuilder::<W, D, S, E>::build_loop$")
    loops = [n for n in walk(b.body) if n.get("k") == "Loop" and n.get("src") == "Loop"]
    if len(loops) != 1:
        raise AnchorMissing("build_loop: expected exactly one retry `loop`")
    body = loops[0]["body"]
    top = list(body["stmts"]) + ([body["expr"]] if "expr" in body else [])
    rew = {}
    for i, st in enumerate(top):
        for x in walk(st):
            if x.get("k") == "MethodCall" and cname(F, x) == "RewindableIoLender::rewind" and x["recv"].get("k") == "Path":
                if st.get("k") == "Assign" and st["l"].get("k") == "Path" and st["l"].get("id") == x["recv"].get("id"):
                    rew[x["recv"]["id"]] = i
    conts = [x for x in walk(body) if x.get("k") == "Continue"]
    # the lenders: the parameters of build_loop handed to try_seed by `&mut` (by position: keys first, then values)
    pids = [p["id"] for p in b.params if p.get("k") == "PBind"]
    lend = []
    for x in walk(body):
        if cname(F, x) == "VBuilder::try_seed":
            for a in call_args(x):
                if a.get("k") in ("AddrOf", "Ref", "Borrow") or a.get("mut") is not None:
                    for y in walk(a):
                        if y.get("k") == "Path" and y.get("res") == "local" and y.get("id") in pids and y["id"] not in lend:
                            lend.append(y["id"])
    lend.sort(key=pids.index)
    if len(lend) != 2:
        raise AnchorMissing("build_loop: expected two lender parameters passed to try_seed, found %d" % len(lend))
    pname = {p["id"]: p["name"] for p in b.params if p.get("k") == "PBind"}
    for role, lid in zip(("keys", "values"), lend):
        rr.instances += 1
        nm = pname[lid]
        rr.check(lid in rew, "build_loop:rewind-%s" % role, "build_loop must rewind `%s` (`%s = %s.rewind()?`) as an unconditional statement of the retry loop, after the attempt" % (nm, nm, nm), F.loc(loops[0]))
    rr.instances += 1
    rr.check(not conts, "build_loop:no-continue", "a `continue` in the retry loop skips the rewinds: the next attempt would see exhausted lenders and build a function over fewer keys", F.loc(conts[0]) if conts else b.span)
    # the attempt (try_seed) precedes the rewinds in the loop body
    ts = [i for i, st in enumerate(top) if any(cname(F, x) == "VBuilder::try_seed" for x in walk(st))]
    rr.instances += 1
    rr.check(bool(ts) and all(ts[0] < i for i in rew.values()), "build_loop:rewind-after-attempt", "the rewinds must follow the attempt inside the retry loop", F.loc(loops[0]))


@rule("R07.4", props=["C07", "C17", "C08"], floor=6, title="par_solve: Ok only if no worker reported an error; worker exits are justified; filter prefill; duplicate handling")
def r07_4(ctx, rr):
    F = ctx.F()
    p = F.one(r"^func::vbuilder::VBuilder::<W, D, S, E>::par_solve$")
    pm = {id(n): ps for n, ps in walk_with_parents(p.body)}
    def is_chan_send(n):
        return n.get("k") == "MethodCall" and n["name"] == "send" and "crossbeam_channel" in (F.callee(n) or "") and "SolveError" in show(F, n)

    def is_failed_load(n):
        return n.get("k") == "MethodCall" and n["name"] == "load" and (F.callee(n) or "").startswith(("std::sync::atomic", "core::sync::atomic"))

    def is_failed_store(n, val):
        return n.get("k") == "MethodCall" and n["name"] == "store" and (F.callee(n) or "").startswith(("std::sync::atomic", "core::sync::atomic")) and n["args"] and n["args"][0].get("v") is val
    # (1) result: an error received from the workers is returned, after raising the failed flag; Ok(()) otherwise
    err_rets = [n for n in walk(p.body) if n.get("k") == "Ret" and "e" in n and n["e"].get("k") == "Call" and n["e"].get("ctor") and "Err" in show(F, n["e"]["f"])]
    rr.instances += 1
    ok = False
    for r in err_rets:
        ps = pm.get(id(r), ())
        for q in reversed(ps):
            if q.get("k") == "If" and q["c"].get("k") == "Let" and "Some" in show_pat(F, q["c"]["pat"]) + q["c"]["pat"].get("name", ""):
                init = q["c"]["init"]
                if any(x.get("k") == "MethodCall" and x["name"] in ("next", "recv", "try_recv") for x in walk(init)):
                    ok = True
    rr.check(ok, "par_solve:err-propagated", "par_solve must return Err when any worker sent an error through the error channel", p.span)
    rr.instances += 1
    stores_true = [n for n in walk(p.body) if is_failed_store(n, True)]
    stores_false = [n for n in walk(p.body) if is_failed_store(n, False)]
    rr.check(bool(stores_true) and bool(stores_false), "par_solve:failed-flag", "par_solve must reset the `failed` flag at the start and raise it when a worker reports an error", p.span)
    # (2) worker exits: every bare `return` inside a worker closure follows a send on the error channel in its
    #     block, or is the channel-closed arm, the failed-flag test, or the empty-shard exit (table-exempt)
    rets = [n for n in walk(p.body) if n.get("k") == "Ret" and "e" not in n]
    for r in rets:
        ps = pm.get(id(r), ())
        blk = None
        for q in reversed(ps):
            if q.get("k") == "Block":
                blk = q
                break
        reason = None
        if blk is not None:
            before = [st for st in blk["stmts"] if st is not r]
            if any(is_chan_send(x) for st in before for x in walk(st)):
                reason = "after a send on the error channel"
        conds = [q for q in ps if q.get("k") in ("If", "Match")]
        last = conds[-1] if conds else None
        if reason is None and last is not None and last.get("k") == "If" and any(is_failed_load(x) for x in walk(last["c"])):
            reason = "failed flag observed"
        if reason is None and last is not None and last.get("k") == "If" and last["c"].get("k") == "MethodCall" and last["c"]["name"] == "is_empty":
            reason = "empty shard (table-exempt: unreachable with consistent sharding, R07.1)"
        if reason is None and last is not None and last.get("k") == "Match" and any(x.get("k") == "MethodCall" and x["name"] == "recv" for x in walk(last["e"])):
            reason = "channel closed"
        rr.instances += 1
        rr.ob(reason is not None, key="par_solve:worker-exit:%s" % (reason or "unjustified"), sample={"exit_at": F.loc(r), "reason": reason})
        if reason is None:
            rr.violate("par_solve:worker-exit-unjustified", "a worker of par_solve returns at %s without sending an error, although the shard was not solved: par_solve would report Ok over an unsolved shard" % F.loc(r), F.loc(r))
    # (3) solve_shard error -> UnsolvableShard sent
    ok = False
    for n in walk(p.body):
        if n.get("k") == "If" and any(x.get("k") == "Call" and x["f"].get("k") == "Path" and x["f"].get("name") == "solve_shard" for x in walk(n["c"])) and "is_err" in show(F, n["c"]):
            ok = any(is_chan_send(x) and "UnsolvableShard" in show(F, x) for x in walk(n["th"])) and diverges(F, n["th"])
    rr.instances += 1
    rr.check(ok, "par_solve:unsolvable-sent", "a failed solve_shard must be reported as SolveError::UnsolvableShard and the worker must stop", p.span)
    # (4) check_dups: sort then adjacent-equal test sends DuplicateSignature
    ok = False
    for n in walk(p.body):
        if n.get("k") == "If" and n["c"].get("k") == "Field" and n["c"]["name"] == "check_dups":
            th = n["th"]
            sorts = [x for x in walk(th) if x.get("k") == "MethodCall" and x["name"] == "sort"]
            wins = [x for x in walk(th) if x.get("k") == "If" and any(y.get("k") == "MethodCall" and y["name"] in ("par_windows", "windows") for y in walk(x["c"]))]
            if sorts and wins:
                w = wins[0]
                cmp_ok = any(y.get("k") == "Binary" and y["op"] == "==" and y["l"].get("k") == "Field" and y["l"]["name"] == "sig" and y["r"].get("k") == "Field" and y["r"]["name"] == "sig" for y in walk(w["c"]))
                # the full sort is an unconditional statement of the same block, before the scan, and no
                # other reordering of the shard (count_sort ..) sits between the two
                blk = th if th.get("k") == "Block" else None
                stmts = (blk["stmts"] + ([blk["expr"]] if "expr" in blk else [])) if blk else []
                def top_index(node):
                    for i_, st in enumerate(stmts):
                        if st is node or any(x is node for x in walk(st)):
                            return i_, st
                    return None, None
                si, sst = top_index(sorts[0])
                wi, _wst = top_index(w)
                uncond = sst is not None and not any(x.get("k") in ("If", "Match", "Loop") and any(y is sorts[0] for y in walk(x)) for x in walk(sst))
                between = stmts[si + 1:wi] if si is not None and wi is not None else []
                reorders = any(x.get("k") in ("MethodCall", "Call") and (x.get("name") or "").startswith(("count_sort", "sort", "shuffle", "swap", "reverse")) for st in between for x in walk(st))
                ok = cmp_ok and any(is_chan_send(x) and "DuplicateSignature" in show(F, x) for x in walk(w["th"])) and diverges(F, w["th"]) and si is not None and wi is not None and si < wi and uncond and not reorders
    rr.instances += 1
    rr.check(ok, "par_solve:dup-detection", "with check_dups the shard must be fully sorted by signature (unconditionally, immediately before the scan) and adjacent equal signatures reported as DuplicateSignature before solving", p.span)


@rule("R08.3", props=["C08"], floor=2, title="filters: random prefill precedes solving on the EmptyVal path; silent dedup only for EmptyVal")
def r08_3(ctx, rr):
    F = ctx.F()
    p = F.one(r"^func::vbuilder::VBuilder::<W, D, S, E>::par_solve$")
    ev = events(F, p, lambda cn, n: cn in ("RngCore::fill_bytes", "Rng::fill_bytes") or n.get("name") == "fill_bytes" or (n.get("k") == "Call" and n["f"].get("k") == "Path" and n["f"].get("name") == "solve_shard"))
    fb = [i for i, e in enumerate(ev) if "fill_bytes" in (e["name"] or "") or e["node"].get("name") == "fill_bytes"]
    ss = [i for i, e in enumerate(ev) if e["node"].get("k") == "Call" and e["node"]["f"].get("name") == "solve_shard"]
    rr.instances += 1
    ok = len(fb) == 1 and len(ss) == 1 and fb[0] < ss[0]
    rr.check(ok, "par_solve:prefill-before-solve", "on the filter (EmptyVal) path the shard's cells must be filled with random bytes before solve_shard runs (absent keys must see uniform values)", p.span)
    if ok:
        conds = ev[fb[0]]["conds"]
        cs = [show(F, c.get("c", {"k": "?"})) for c in conds if c.get("k") == "If"]
        rr.instances += 1
        rr.check(any("TypeId::of() == TypeId::of()" in c for c in cs), "par_solve:prefill-only-filters", "the random prefill must be guarded by the EmptyVal type test", F.loc(ev[fb[0]]["node"]))
        # the prefilled slice is the shard's own data chunk
        rr.instances += 1
        rr.check(any(x.get("k") == "MethodCall" and x["name"] == "as_mut_slice" for x in walk(ev[fb[0]]["node"])), "par_solve:prefill-own-chunk", "the prefill must cover the shard's own chunk of the backend", F.loc(ev[fb[0]]["node"]))
    # dedup: the statement following `shard.dedup()` distinguishes filters (log only) from functions (error)
    ok = False
    for blk in walk(p.body):
        if blk.get("k") != "Block":
            continue
        st = blk["stmts"] + ([blk["expr"]] if "expr" in blk else [])
        for i, x in enumerate(st):
            if x.get("k") == "MethodCall" and x["name"] == "dedup":
                for y in st[i + 1:]:
                    if y.get("k") == "If" and "TypeId::of() == TypeId::of()" in show(F, y["c"]) and "el" in y:
                        th_sends = any(x.get("k") == "MethodCall" and x["name"] == "send" for x in walk(y["th"]))
                        el = y["el"]
                        el_ifs = [z for z in walk(el) if z.get("k") == "If" and z["c"].get("k") == "Binary" and z["c"]["op"] == "!="]
                        el_ok = any("DuplicateLocalSignature" in show(F, z["th"]) and diverges(F, z["th"]) for z in el_ifs)
                        ok = (not th_sends) and el_ok
    rr.instances += 1
    rr.check(ok, "par_solve:dedup-only-filters", "duplicate local signatures may be dropped silently only for filters (EmptyVal); for functions DuplicateLocalSignature must be sent and the worker must stop", p.span)


# ------------------------------------------------------------------------------------------------
@rule("R20.1", props=["C20", "C17"], floor=3, title="rewind() of a lender over a Seek source seeks to the start on every Ok path and rebuilds the decoder after it")
def r20_1(ctx, rr):
    F = ctx.F()
    rew = [b for b in F.fns() if b.name == "rewind" and (b.impl_trait or "").endswith("RewindableIoLender") and "Seek" in (b.impl_preds or "")]
    if len(rew) < 3:
        raise AnchorMissing("expected rewind() for LineLender, ZstdLineLender and GzipLineLender over Seek sources, found %d" % len(rew))
    for b in rew:
        pm = {id(n): ps for n, ps in walk_with_parents(b.body)}
        ev = events(F, b, lambda cn, n: True)
        seeks = []
        rebuilds = []
        for i, e in enumerate(ev):
            cn = e["name"]
            n = e["node"]
            if cn in ("Seek::seek",):
                # argument must be SeekFrom::Start(0)
                a = show(F, n["args"][0]) if n.get("args") else ""
                if re.search(r"SeekFrom::Start\(0\)", a):
                    seeks.append((i, e))
            elif cn in ("Seek::rewind",):
                seeks.append((i, e))
            elif cn and (cn.endswith("Decoder::new") or cn.endswith("Decoder::with_buffer") or cn.endswith("GzDecoder::new")):
                rebuilds.append((i, e))
        rr.instances += 1
        key = "%s:seeks-to-start" % short_fn(b.key)
        # decided on the paths of the function: every path that returns Ok(..) has first passed a successful seek to
        # the start (its Result tried with `?`, or matched and the Ok arm taken)
        import paths as _paths
        seek_nodes = set(id(e_["node"]) for _i, e_ in seeks)
        ok = bool(seeks)
        if ok:
            try:
                all_paths = _paths.enum_paths(b.body)
            except _paths.Unsupported:
                all_paths = None
            if all_paths is None:
                ok = False
            else:
                n_ok_paths = 0
                for pth in all_paths:
                    ret = [e_ for e_ in pth if e_[0] == "ret"][-1][1]
                    rs = show(F, ret) if ret is not None else ""
                    if not (rs.startswith("v1::Ok(") or (ret is not None and ret.get("k") == "MethodCall" and ret.get("name") in ("map", "and_then") and any(id(x) in seek_nodes for x in walk(ret)))):
                        continue
                    n_ok_paths += 1
                    sought = False
                    if ret is not None and any(id(x) in seek_nodes for x in walk(ret)):
                        sought = True     # `seek(..).map(|_| self)`-like tail: Ok only through the seek's Ok
                    for e_ in pth:
                        if e_[0] == "arm" and any(id(x) in seek_nodes for x in walk(e_[1]["e"])):
                            nm_ = e_[2]["pat"].get("name", "")
                            if nm_ in ("Ok", "Continue"):
                                sought = True
                    if not sought:
                        ok = False
                ok = ok and n_ok_paths >= 1
        rr.ob(ok, key=key, sample={"fn": b.key, "seek": show(F, seeks[0][1]["node"]) if seeks else None})
        if not ok:
            rr.violate(key, "%s must unconditionally seek its source to the start (`seek(SeekFrom::Start(0))?` or `rewind()?`) before returning Ok: otherwise the second pass continues from the current offset" % b.key, b.span)
        for i, e in rebuilds:
            rr.instances += 1
            rr.check(bool(seeks) and seeks[0][0] < i, "%s:decoder-after-seek" % short_fn(b.key), "%s must re-create the decoder after the seek" % b.key, F.loc(e["node"]))
            # the reader that is sought is the very reader handed to the new decoder (not an inner layer
            # reached through get_mut()/get_ref(), which would leave a buffering layer's stale bytes in place)
            if seeks:
                def root_local(x):
                    while x.get("k") == "AddrOf" or (x.get("k") == "Unary" and x.get("op") == "*"):
                        x = x["e"]
                    return x.get("id") if x.get("k") == "Path" and x.get("res") == "local" else None
                sn = seeks[0][1]["node"]
                sought = root_local(call_args(sn)[0]) if call_args(sn) else None
                fed = root_local(call_args(e["node"])[0]) if call_args(e["node"]) else None
                rr.instances += 1
                rr.check(sought is not None and sought == fed, "%s:seeks-the-reader-it-decodes" % short_fn(b.key), "%s seeks `%s` but builds the new decoder over `%s`: a buffering layer in between keeps stale bytes of the previous pass" % (b.key, show(F, call_args(sn)[0])[:80] if call_args(sn) else None, show(F, call_args(e["node"])[0])[:80] if call_args(e["node"]) else None), F.loc(sn))
        # a decoder-based lender must rebuild its decoder
        if "Zstd" in b.key or "Gzip" in b.key:
            rr.instances += 1
            rr.check(len(rebuilds) == 1, "%s:rebuilds-decoder" % short_fn(b.key), "%s must re-create its decoder on rewind" % b.key, b.span)


@rule("R20.2", props=["C20", "C17"], floor=3, title="FromIntoIterator::rewind restarts from the pristine clone; Take::rewind; shared line reader")
def r20_2(ctx, rr):
    F = ctx.F()
    b = F.one(r"^<utils::lenders::FromIntoIterator<I> as utils::lenders::RewindableIoLender<T>>::rewind$")
    slf = ("var", "self", b.params[0]["id"])
    asg = [n for n in walk(b.body) if n.get("k") == "Assign" and n["l"].get("k") == "Field" and n["l"]["name"] == "iter"]
    rr.instances += 1
    def _pristine(e):
        # (a clone of) the field `into_iter` of self, turned into an iterator: only transparent calls around it
        calls = [x for x in walk(e) if x.get("k") in ("MethodCall", "Call")]
        names = sorted((x.get("name") or (cname(F, x) or "").split("::")[-1]) for x in calls)
        flds = [x for x in walk(e) if x.get("k") == "Field"]
        return names == ["clone", "into_iter"] and len(flds) == 1 and flds[0]["name"] == "into_iter" and flds[0]["e"].get("k") == "Path" and flds[0]["e"].get("name") == "self"
    ok = len(asg) == 1 and _pristine(asg[0]["r"])
    if not ok and len(asg) == 1:
        # the clone bound to a local first: `let fresh = self.into_iter.clone(); self.iter = fresh.into_iter();`
        from r_guards import simple_env
        t = simple_env(F, b).term(asg[0]["r"])

        def unwrap(t, names):
            while t[0] == "call" and t[1].split("::")[-1] in names and len(t[2]) == 1:
                t = t[2][0]
            return t
        inner = unwrap(t, ("into_iter",))
        # (the termizer sees through `clone`; consuming the field itself would not compile, since self is returned)
        inner = unwrap(inner, ("clone",))
        ok = inner is not t and inner == ("field", slf, "into_iter") and any(x.get("k") == "MethodCall" and x["name"] == "clone" for x in walk(b.body))
    rr.check(ok, "FromIntoIterator::rewind:from-pristine-clone", "FromIntoIterator::rewind must re-create `iter` from a clone of the untouched `into_iter`", b.span)
    fb = F.one(r"^<utils::lenders::FromIntoIterator<I> as std::convert::From<I>>::from$")
    from r_ef import struct_literal_fields
    sl = struct_literal_fields(F, fb)
    rr.instances += 1
    # the field `into_iter` holds (a transparent clone of) the parameter itself; `iter` is something else
    par = fb.params[0] if fb.params and fb.params[0].get("k") == "PBind" else None
    kept = sl[0].get("into_iter", ("unk", "?")) if len(sl) == 1 else ("unk", "?")
    rr.check(par is not None and kept[0] == "var" and kept[-1] == par["id"] and sl[0].get("into_iter") != sl[0].get("iter"), "FromIntoIterator::from:keeps-pristine", "From<I> must keep an unconsumed clone in `into_iter`", fb.span)
    # shared `next`: Ok(0) -> None, Err -> Some(Err), strips one \n then one \r, clears the buffer first
    nb = F.one(r"^utils::lenders::next$")
    s = show(F, nb.body)
    rr.instances += 1
    rr.check(s.strip().startswith("{\n  line.clear();") or "line.clear();" in s.split("match")[0], "lenders::next:clears-buffer", "the shared line reader must clear the buffer before reading", nb.span, props=["C20"])
    m = [n for n in walk(nb.body) if n.get("k") == "Match" and any(x.get("k") == "MethodCall" and x["name"] == "read_line" for x in walk(n["e"]))]
    if len(m) != 1:
        raise AnchorMissing("lenders::next: expected one match on `buf.read_line(line)`")
    rl = [x for x in walk(m[0]["e"]) if x.get("k") == "MethodCall" and x["name"] == "read_line"][0]
    # the line is read from the reader itself (an adapter such as take() would cut long lines) into the
    # caller's buffer
    rr.instances += 1
    pids = [p_.get("id") for p_ in nb.params]
    recv = rl["recv"]
    while recv.get("k") in ("AddrOf",) or (recv.get("k") == "Unary" and recv.get("op") == "*"):
        recv = recv["e"]
    arg0 = rl["args"][0] if rl.get("args") else {}
    while arg0.get("k") in ("AddrOf",) or (arg0.get("k") == "Unary" and arg0.get("op") == "*"):
        arg0 = arg0["e"]
    rr.check(recv.get("k") == "Path" and recv.get("id") == pids[0] and arg0.get("k") == "Path" and arg0.get("id") == pids[1], "lenders::next:reads-whole-line-from-reader", "the shared line reader must call read_line directly on its reader argument with the caller's buffer (found `%s`): an adapter in between changes what one item is" % show(F, rl)[:100], nb.span, props=["C20"])
    # decided on the paths of the function (whatever its control-flow syntax): under Err(e) the exit returns
    # Some(Err(e)); under Ok(0), None; otherwise Some(Ok(line)) after popping one LF iff the line ends with LF and then
    # one CR iff what is left ends with CR
    import paths as _paths
    try:
        all_paths = _paths.enum_paths(nb.body)
    except _paths.Unsupported as e:
        raise AnchorMissing("lenders::next: %s" % e)

    def arm_kind(a):
        pat = a["pat"]
        nm = pat.get("name")
        if nm == "Err" and "guard" not in a:
            return "err"
        if nm == "Err":
            return "err-guarded"
        if nm == "Ok":
            sub = pat["ps"][0] if pat.get("ps") else None
            if sub is not None and sub.get("k") == "PLit" and str(sub.get("v")) == "0":
                return "eof"
            return "line"
        return "catch-all"
    problems = {"err": [], "eof": [], "strip": []}
    kinds_seen = set()
    for pth in all_paths:
        arm = [e for e in pth if e[0] == "arm" and e[1] is m[0]]
        if not arm:
            continue
        kind = arm_kind(arm[0][2])
        kinds_seen.add(kind)
        ret = [e for e in pth if e[0] == "ret"][-1][1]
        rs = show(F, ret) if ret is not None else "()"
        if kind in ("err", "err-guarded", "catch-all"):
            if kind != "err" or not rs.startswith("v1::Some(v1::Err("):
                problems["err"].append("a read error can leave through `%s` (%s arm)" % (rs[:60], kind))
        elif kind == "eof":
            if rs != "v1::None":
                problems["eof"].append("Ok(0) leaves through `%s`" % rs[:60])
        else:
            if not rs.startswith("v1::Some(v1::Ok("):
                problems["strip"].append("a line read leaves through `%s`" % rs[:60])
                continue
            # replay the terminator tests and the pops after the match on this path
            after = pth[pth.index(arm[0]) + 1:]
            seq = []
            for e in after:
                if e[0] == "cond":
                    lits = [x.get("v") for x in walk(e[1]) if x.get("k") == "Lit" and x.get("v") in ("\n", "\r")]
                    neg = sum(1 for x in walk(e[1]) if x.get("k") == "Unary" and x.get("op") == "!") % 2 == 1
                    if lits and any(x.get("k") == "MethodCall" and x["name"] == "ends_with" for x in walk(e[1])):
                        seq.append(("test", lits[0], e[2] != neg))
                if e[0] in ("expr", "let"):
                    nd = e[1] if e[0] == "expr" else e[1].get("init", {})
                    for x in walk(nd):
                        if x.get("k") == "MethodCall" and x["name"] == "pop":
                            seq.append(("pop",))
            admissible = ([("test", "\n", False)], [("test", "\n", True), ("pop",), ("test", "\r", False)], [("test", "\n", True), ("pop",), ("test", "\r", True), ("pop",)])
            if seq not in [list(x) for x in admissible]:
                problems["strip"].append("the path %s is none of: no LF -> untouched; LF -> one pop, then CR -> a second pop" % seq)
    rr.instances += 1
    rr.check("err" in kinds_seen and not problems["err"] and "catch-all" not in kinds_seen, "lenders::next:every-error-propagated", "the shared line reader must hand every read error to the caller (`Err(e) => Some(Err(e))`, no guarded or catch-all arm): an error mapped to None is an input silently cut short; %s" % "; ".join(problems["err"][:2]), nb.span)
    rr.instances += 1
    rr.check("eof" in kinds_seen and not problems["eof"] and "err" in kinds_seen and not problems["err"], "lenders::next:eof-and-errors", "the line reader must map Ok(0) to None and Err(e) to Some(Err(e)); %s" % "; ".join((problems["eof"] + problems["err"])[:2]), nb.span)
    rr.instances += 1
    rr.check("line" in kinds_seen and not problems["strip"], "lenders::next:strips-terminator", "the line reader must strip exactly one trailing LF and then, only if an LF was stripped, one CR; %s" % "; ".join(problems["strip"][:2]), nb.span, props=["C20"])
    # all line lenders use the shared reader
    nexts = [x for x in F.fns() if x.name == "next" and (x.impl_adt or "").endswith(("LineLender",)) and x.impl_trait and x.impl_trait.endswith("Lender")]
    for x in nexts:
        rr.instances += 1
        # the body is one call of the shared reader (whatever it is called now) on the lender's reader and buffer
        tail = x.body.get("expr") if x.body.get("k") == "Block" and not x.body.get("stmts") else None
        deleg = False
        if tail is not None and tail.get("k") == "Call" and F.callee(tail) in (nb.path,) and len(tail.get("args", [])) == 2:
            def fld(a_):
                while a_.get("k") in ("AddrOf",) or (a_.get("k") == "Unary" and a_.get("op") == "*"):
                    a_ = a_["e"]
                return a_.get("name") if a_.get("k") == "Field" and a_["e"].get("k") == "Path" and a_["e"].get("name") == "self" else None
            deleg = (fld(tail["args"][0]), fld(tail["args"][1])) == ("buf", "line")
        rr.check(deleg, "%s:shared-reader" % short_fn(x.key), "%s must delegate to the shared line reader on (buf, line)" % x.key, x.span)
    if len(nexts) < 3:
        raise AnchorMissing("expected 3 line lenders using the shared reader, found %d" % len(nexts))


@rule("R20.3", props=["C20"], floor=1, title="a rewound adapter is not rebuilt from consumed iteration state (Take::rewind)")
def r20_3(ctx, rr):
    """Table fact (lender 0.3): `Take::into_parts().1` is the *remaining* count, decremented by next()."""
    F = ctx.F()
    bs = [b for b in F.fns() if b.name == "rewind" and (b.impl_trait or "").endswith("RewindableIoLender") and "lender::Take" in (b.impl_self or "")]
    if len(bs) != 1:
        raise AnchorMissing("expected one RewindableIoLender impl for lender::Take")
    b = bs[0]
    parts = [n for n in walk(b.body) if cname(F, n) == "Take::into_parts"]
    takes = [n for n in walk(b.body) if n.get("k") == "MethodCall" and n["name"] == "take"]
    rr.instances += 1
    rr.assumptions.append("lender::Take::into_parts().1 is the remaining count (decremented by Take::next)")
    uses_remaining = False
    if parts and takes:
        # the count given to take() is the second component bound from into_parts()
        for n in walk(b.body):
            if n.get("k") == "LetStmt" and n.get("init") is parts[0] and n["pat"].get("k") == "PTuple" and len(n["pat"]["ps"]) == 2:
                cnt = n["pat"]["ps"][1]
                for t in takes:
                    a = t["args"][0]
                    if a.get("k") == "Path" and a.get("id") == cnt.get("id"):
                        uses_remaining = True
    rr.ob(not uses_remaining, key="Take::rewind:original-count", sample={"fn": b.key, "body": show(F, b.body)[:200]})
    if uses_remaining:
        rr.violate("Take::rewind:uses-remaining-count", "%s rebuilds the Take adapter with the count returned by into_parts(), which is the number of items *remaining*: after consuming k of n items the rewound lender yields only n - k items" % b.key, b.span)


@rule("R07.6", props=["C07", "C08", "C17"], floor=7, title="peelers: the stacks count what was pushed, and an incomplete peel never reaches assignment")
def r07_6(ctx, rr):
    F = ctx.F()
    # --- stack discipline: cursor fields are the only notion of length
    # fields by role, not by name: the buffer is the one non-integer field, the cursors are the usize fields; which
    # cursor is the lower / upper one is read off the two push methods themselves
    def cursors(adt):
        a_ = F.adts.get(adt)
        if not a_:
            raise AnchorMissing("no struct %s" % adt)
        fl = a_["variants"][0]["fields"]
        ints = [f_["name"] for f_ in fl if F.types[f_["t"]] == "usize"]
        bufs = [f_["name"] for f_ in fl if F.types[f_["t"]] != "usize"]
        return ints, bufs
    fs_ints, fs_bufs = cursors("func::vbuilder::FastStack")
    if len(fs_ints) != 1 or len(fs_bufs) != 1:
        raise AnchorMissing("FastStack: expected one buffer and one cursor field")
    TOP = fs_ints[0]
    fs_len = F.one(r"^func::vbuilder::FastStack::<X>::len$")
    fs_push = F.one(r"^func::vbuilder::FastStack::<X>::push$")
    s = ("var", "self", fs_len.params[0]["id"])
    t = Termizer(F, fs_len).term(fs_len.body)
    rr.instances += 1
    rr.check(t == ("field", s, TOP), "FastStack::len", "FastStack::len must be the number of elements pushed (the cursor `self.%s`), not the capacity of the preallocated buffer; found %s" % (TOP, tshow(t)), fs_len.span)
    ps = ("var", "self", fs_push.params[0]["id"])
    px = ("var", fs_push.params[1]["name"], fs_push.params[1]["id"])
    ev = []

    def on_node(W, n, K):
        if W.debug_depth:
            return
        if n.get("k") == "Assign" and n["l"].get("k") == "Index":
            ev.append(("store", W.T.term(n["l"]["i"]), W.T.term(n["r"])))
        if n.get("k") == "AssignOp":
            ev.append((n["op"], W.T.term(n["l"]), W.T.term(n["r"])))
    Walker(F, fs_push, on_node=on_node).run()
    rr.instances += 1
    rr.check(ev == [("store", ("field", ps, TOP), px), ("+=", ("field", ps, TOP), ("int", 1))], "FastStack::push", "FastStack::push must store at index `%s` and then increment it by one; found %s" % (TOP, [(e[0], tshow(e[1]), tshow(e[2])) for e in ev]), fs_push.span)
    it = F.one(r"^func::vbuilder::FastStack::<X>::iter$")
    its = ("var", "self", it.params[0]["id"])
    tt = Termizer(F, it).term(it.body)
    rr.instances += 1
    rr.check(mentions(tt, lambda x: x[0] == "struct" and dict(x[2]).get("end") == ("field", its, TOP)), "FastStack::iter", "FastStack::iter must cover exactly the first `%s` slots" % TOP, it.span)
    ds_ints, ds_bufs = cursors("func::vbuilder::DoubleStack")
    if len(ds_ints) != 2 or len(ds_bufs) != 1:
        raise AnchorMissing("DoubleStack: expected one buffer and two cursor fields")
    evs = {}
    for nm in ("push_lower", "push_upper"):
        b = F.one(r"^func::vbuilder::DoubleStack::<V>::%s$" % nm)
        ev = []

        def on_node2(W, n, K, ev=ev):
            if W.debug_depth:
                return
            if n.get("k") == "Assign" and n["l"].get("k") == "Index":
                i = W.T.term(n["l"]["i"])
                ev.append(("store", i[2] if i[0] == "field" else "?"))
            if n.get("k") == "AssignOp":
                l = W.T.term(n["l"])
                ev.append((n["op"], l[2] if l[0] == "field" else "?"))
        Walker(F, b, on_node=on_node2).run()
        evs[nm] = (ev, b)
    # push_lower: store at a cursor, then increment the same cursor; push_upper: decrement the other cursor, then store at it
    lo_ev, lo_b = evs["push_lower"]
    up_ev, up_b = evs["push_upper"]
    rr.instances += 1
    ok_lo = len(lo_ev) == 2 and lo_ev[0][0] == "store" and lo_ev[1][0] == "+=" and lo_ev[0][1] == lo_ev[1][1] and lo_ev[0][1] in ds_ints
    rr.check(ok_lo, "DoubleStack::push_lower", "DoubleStack::push_lower must store at its cursor and then increment it; found %s" % lo_ev, lo_b.span)
    rr.instances += 1
    ok_up = len(up_ev) == 2 and up_ev[0][0] == "-=" and up_ev[1][0] == "store" and up_ev[0][1] == up_ev[1][1] and up_ev[0][1] in ds_ints and (not ok_lo or up_ev[0][1] != lo_ev[0][1])
    rr.check(ok_up, "DoubleStack::push_upper", "DoubleStack::push_upper must decrement its (other) cursor and then store at it; found %s" % up_ev, up_b.span)
    UPPER = up_ev[0][1] if ok_up else None
    ul = F.one(r"^func::vbuilder::DoubleStack::<V>::upper_len$")
    us = ("var", "self", ul.params[0]["id"])
    ut = Termizer(F, ul).term(ul.body)
    rr.instances += 1
    rr.check(UPPER is not None and ut == mk_op("-", ("call", "len", (("field", us, ds_bufs[0]),)), ("field", us, UPPER)), "DoubleStack::upper_len", "DoubleStack::upper_len must be `buffer.len() - <upper cursor>`; found %s" % tshow(ut), ul.span)
    # --- peel completeness: shard length compared with the number of peeled edges; mismatch leaves before assign
    for path, lenfn in ((r"^func::vbuilder::VBuilder::<W, D, S, E>::peel_by_index$", "DoubleStack::upper_len"),
                        (r"^func::vbuilder::VBuilder::<W, D, S, E>::peel_by_sig_vals_high_mem$", "FastStack::len"),
                        (r"^func::vbuilder::VBuilder::<W, D, S, E>::peel_by_sig_vals_low_mem$", "DoubleStack::upper_len")):
        b = F.one(path)
        ok = False
        for n in walk(b.body):
            if n.get("k") == "If" and n["c"].get("k") == "Binary" and n["c"]["op"] == "!=" and diverges(F, n["th"]):
                sides = [n["c"]["l"], n["c"]["r"]]
                if any(cname(F, x) == lenfn for x in sides):
                    other = [x for x in sides if cname(F, x) != lenfn][0]
                    so = show(F, other)
                    if "shard" in so and "len" in so:
                        # nothing after this test may be skipped: the assignment comes later in the same body
                        ok = True
        rr.instances += 1
        rr.check(ok, "%s:incomplete-peel-detected" % short_fn(b.key), "%s must compare the number of keys of the shard with the number of peeled edges (%s) and leave (fallback/Err) when they differ, before assigning values" % (b.key, lenfn), b.span)


@rule("R17.4", props=["C17", "C07"], floor=2, title="par_solve: every channel endpoint the coordinating thread keeps is dropped before it blocks on the error channel (no worker or feeder can wait on it forever)")
def r17_4(ctx, rr):
    """The feeder blocks in `data_send.send` while any receiver of the data channel is alive, and the
    coordinator's `err_recv` iteration ends only when every sender of the error channel is gone. The
    coordinator keeps the originals it cloned for the workers: both must be dropped before it waits, or a
    failed attempt (workers gone, shards still queued) never returns."""
    F = ctx.F()
    b = F.one(r"^func::vbuilder::VBuilder::<W, D, S, E>::par_solve$")
    chans = []
    for n in walk(b.body):
        if n.get("k") == "LetStmt" and n["pat"].get("k") == "PTuple" and len(n["pat"]["ps"]) == 2 and "init" in n:
            c = n["init"]
            if c.get("k") == "Call" and (cname(F, c) or "").split("::")[-1] in ("bounded", "unbounded", "channel", "sync_channel"):
                tx, rx = n["pat"]["ps"]
                if tx.get("k") == "PBind" and rx.get("k") == "PBind":
                    chans.append((tx, rx))
    if len(chans) < 2:
        raise AnchorMissing("par_solve: expected the error and the data channel, found %d channels" % len(chans))
    # the coordinating closure: the one passed to thread::scope
    scope_calls = [n for n in walk(b.body) if n.get("k") == "Call" and (cname(F, n) or "").endswith("thread::scope")]
    if not scope_calls:
        raise AnchorMissing("par_solve: no std::thread::scope call")
    main = [a for a in scope_calls[0]["args"] if a.get("k") == "Closure"][0]
    order = []
    depth_of = {}

    def visit(n, depth):
        order.append(n)
        depth_of[id(n)] = depth
        for c in kids(n):
            visit(c, depth + (1 if c.get("k") == "Closure" else 0))
    visit(main["body"], 0)
    pos = {id(n): i for i, n in enumerate(order)}
    ends = {}
    for tx, rx in chans:
        ends[tx["id"]] = tx["name"]
        ends[rx["id"]] = rx["name"]
    uses = {i: [] for i in ends}
    for n in order:
        if n.get("k") == "Path" and n.get("res") == "local" and n.get("id") in uses:
            uses[n["id"]].append(n)
    # where the coordinator blocks: first receive on an endpoint outside nested closures
    block = None
    for n in order:
        if depth_of[id(n)] == 0 and n.get("k") == "MethodCall" and n["name"] in ("recv", "into_iter", "iter", "try_iter", "recv_timeout") and n["recv"].get("k") == "Path" and n["recv"].get("id") in ends:
            block = n
            break
    if block is None:
        raise AnchorMissing("par_solve: the coordinating thread never receives from a channel")
    waited = block["recv"]["id"]
    drops = {}
    for n in order:
        if depth_of[id(n)] == 0 and n.get("k") == "Call" and (cname(F, n) or "").endswith("mem::drop") and n["args"] and n["args"][0].get("k") == "Path":
            drops.setdefault(n["args"][0].get("id"), []).append(n)
    for eid, name in sorted(ends.items(), key=lambda kv: kv[1]):
        if eid == waited:
            continue
        us = uses[eid]
        moved = any(depth_of[id(u)] > 0 for u in us)
        if moved and not any(depth_of[id(u)] == 0 for u in us):
            continue    # lives in a spawned thread only
        rr.instances += 1
        ok = any(pos[id(d)] < pos[id(block)] for d in drops.get(eid, [])) or (moved and not [u for u in us if depth_of[id(u)] == 0 and pos[id(u)] < pos[id(block)]])
        key = "par_solve:%s-dropped-before-wait" % name
        rr.ob(ok, key=key, sample={"endpoint": name, "waits_on": ends[waited], "dropped_before_wait": ok})
        if not ok:
            rr.violate(key, "par_solve keeps the channel endpoint `%s` alive while it blocks on `%s` (%s): with the endpoint alive the other side never sees the channel closed -- a failed attempt whose workers have exited leaves the feeder blocked in send (or the error iteration open) and the build never returns" % (name, ends[waited], show(F, block)[:60]), F.loc(block))


@rule("R17.5", props=["C17"], floor=2, title="a failure that try_seed reports before duplicate detection has run is retried a bounded number of times")
def r17_5(ctx, rr):
    """Duplicates are detected per shard inside par_solve. A SolveError that try_seed itself returns before
    it reaches try_build_from_shard_iter is decided on the raw shard sizes, which duplicates inflate: if its
    arm in build_loop retries without a counter, a key set with many copies of one key is retried forever
    (every seed puts all copies in one shard) and the duplicates are never reported."""
    F = ctx.F()
    ts = F.one(r"^func::vbuilder::VBuilder::<W, D, S, E>::try_seed$")
    bl = F.one(r"^func::vbuilder::VBuilder::<W, D, S, E>::build_loop$")
    order = list(walk(ts.body))
    pos = {id(n): i for i, n in enumerate(order)}
    solve_calls = [n for n in order if n.get("k") == "MethodCall" and n["name"] in ("try_build_from_shard_iter", "par_solve")]
    if not solve_calls:
        raise AnchorMissing("try_seed does not call try_build_from_shard_iter")
    first_solve = min(pos[id(n)] for n in solve_calls)
    pm = {id(n): ps for n, ps in walk_with_parents(ts.body)}
    early = set()
    for n in order:
        if n.get("k") == "Path" and (F.defpath(n) or "").startswith("func::vbuilder::SolveError::"):
            # not in a branch that also contains the solve call's block *after* it: i.e. produced without solving
            ps = pm[id(n)]
            in_solve_arg = any(any(x is s for x in walk(p)) for p in ps[-3:] for s in solve_calls if p.get("k") in ("MethodCall", "Call"))
            if not in_solve_arg:
                early.add(F.defpath(n).split("::")[-1])
    found, _fatal = solve_error_match(F, bl)
    if found is None:
        raise AnchorMissing("build_loop: no match on the SolveError variants")
    variants = found[0]
    rr.instances += 1
    rr.ob(True, key="try_seed:early-errors", sample={"errors returned by try_seed before any shard is analysed": sorted(early)})
    for v in sorted(early):
        a = variants.get(v)
        rr.instances += 1
        bounded = False
        if a is not None:
            bounded = any("test" in c for c in bounded_retry(F, a["body"]).values())
        key = "build_loop:%s:unbounded-retry-before-duplicate-detection" % v
        rr.ob(bounded, key=key)
        if not bounded:
            rr.violate(key, "try_seed returns SolveError::%s before duplicate detection (which happens per shard in par_solve), and build_loop retries it without a bound: with check_dups(true) and many copies of one key every seed fails the same way, DuplicateKey is never reported and the call does not terminate" % v, F.loc(a["body"]) if a is not None else bl.span)


@rule("R07.11", props=["C07", "C10", "C12"], floor=2, title="functions and filters over a BitFieldVec backend allocate it with new_unaligned (the padding word is the precondition of the unaligned queries)")
def r07_11(ctx, rr):
    """VFunc::get_unaligned / VFilter::contains_unaligned read with get_unaligned_unchecked, which may touch up to
    W::BYTES bytes after the last element: every BitFieldVec handed to a VFunc by the builder must come from
    new_unaligned."""
    F = ctx.F()
    bodies = [b for b in F.fns() if b.file.endswith("func/vbuilder.rs") and b.name in ("try_build_func", "try_build_filter") and "BitFieldVec" in (b.impl_self or "")]
    if len(bodies) < 2:
        raise AnchorMissing("expected try_build_func and try_build_filter for the BitFieldVec backend, found %d" % len(bodies))
    for b in bodies:
        CT = ("new", "new_unaligned", "with_capacity", "from_raw_parts")
        ctor_nodes = [n for n in walk(b.body) if n.get("k") == "Call" and (F.callee(n) or "").startswith("bits::bit_field_vec::BitFieldVec") and strip_generics(F.callee(n)).split("::")[-1] in CT]
        ctors = [F.callee(n) for n in ctor_nodes]
        # the constructor named as a function value (`BitFieldVec::<W>::new_unaligned` passed where a closure calling it was)
        called = set(id(n["f"]) for n in walk(b.body) if n.get("k") == "Call" and isinstance(n.get("f"), dict))
        ctors += [F.defpath(n) for n in walk(b.body) if n.get("k") == "Path" and n.get("res") == "def" and id(n) not in called
                  and (F.defpath(n) or "").startswith("bits::bit_field_vec::BitFieldVec") and strip_generics(F.defpath(n)).split("::")[-1] in CT]
        rr.instances += 1
        ok = bool(ctors) and all(strip_generics(c).split("::")[-1] == "new_unaligned" for c in ctors)
        key = "%s:backend-has-padding-word" % short_fn(b.key)
        rr.ob(ok, key=key, sample={"fn": b.key, "constructors": [strip_generics(c).split("::")[-1] for c in ctors]})
        if not ok:
            rr.violate(key, "%s allocates the BitFieldVec backend with %s: get_unaligned / contains_unaligned on the resulting structure read past the last word for keys whose cells are at the end of the backend (BitFieldVec::new_unaligned adds the padding word they need)" % (b.key, [strip_generics(c).split("::")[-1] for c in ctors] or "no BitFieldVec constructor"), F.loc(ctor_nodes[0]) if ctor_nodes else b.span)


@rule("R20.4", props=["C20"], floor=2, title="a decoding lender re-creates its decoder on rewind the way its constructor created it (same constructor, same configuration calls)")
def r20_4(ctx, rr):
    """The second pass must decode what the first pass decoded. A decoder configured in `new` (window limit,
    dictionary, multi-member mode, ...) and re-created bare in `rewind` accepts a stream on the first pass and
    fails or differs on the next."""
    F = ctx.F()
    adts = {}
    for b in F.fns():
        if b.file.endswith("utils/lenders.rs") and b.impl_adt and ("Zstd" in b.impl_adt or "Gzip" in b.impl_adt) and b.name in ("new", "rewind", "from_path", "from_file"):
            adts.setdefault(b.impl_adt, {}).setdefault(b.name, b)
    if len(adts) < 2:
        raise AnchorMissing("expected the zstd and gzip line lenders")

    def decoder_calls(b):
        """names of the calls that create or configure a decoder: constructor functions of a *Decoder type and
        every method invoked on a value whose type mentions Decoder"""
        ctor, conf = [], []
        for n in walk(b.body):
            if n.get("k") == "Call":
                c = strip_generics(F.callee(n) or "")
                if "Decoder" in c and c.split("::")[-1] in ("new", "with_buffer", "with_dictionary", "with_prepared_dictionary", "with_context", "multi"):
                    ctor.append(c.split("::")[-2] + "::" + c.split("::")[-1] if c.split("::")[-1] != "new" else c.split("::")[-2] + "::new")
            if n.get("k") == "MethodCall" and "Decoder" in (F.ty(n["recv"]) + F.tya(n["recv"])) and "BufReader" not in F.ty(n["recv"]).split("Decoder")[0][-12:]:
                if n["name"] not in ("finish", "into_inner", "get_mut", "get_ref", "read_line", "read", "buffer", "consume", "fill_buf"):
                    conf.append(n["name"])
        return sorted(ctor), sorted(conf)
    for adt, fns in sorted(adts.items()):
        if "rewind" not in fns or "new" not in fns:
            continue
        nc, nconf = decoder_calls(fns["new"])
        rc, rconf = decoder_calls(fns["rewind"])
        rr.instances += 1
        # Decoder::new(r) is Decoder::with_buffer(BufReader::new(r)): the two constructors are the same decoder
        norm = lambda cs: sorted("Decoder" for _ in cs)
        ok = norm(nc) == norm(rc) and nconf == rconf
        key = "%s:rewind-recreates-decoder-like-new" % adt.split("::")[-1]
        rr.ob(ok, key=key, sample={"lender": adt, "new": {"constructors": nc, "configuration": nconf}, "rewind": {"constructors": rc, "configuration": rconf}})
        if not ok:
            rr.violate(key, "%s: `new` creates its decoder with %s and configures it with %s, `rewind` re-creates it with %s and %s: after a rewind the lender decodes under a different configuration than on the first pass" % (adt, nc, nconf or "nothing", rc, rconf or "nothing"), fns["rewind"].span)


@rule("R07.12", props=["C07", "C08", "C17"], floor=1, title="par_solve: every worker keeps receiving shards until the channel is closed (or it reports an error / sees the failed flag)")
def r07_12(ctx, rr):
    """There are num_threads workers for num_shards shards. A worker that handles one shard and exits leaves the
    remaining shards unsolved when there are more shards than workers, and par_solve still returns Ok (the feeder
    just sees the channel close)."""
    F = ctx.F()
    b = F.one(r"^func::vbuilder::VBuilder::<W, D, S, E>::par_solve$")
    pm = {id(n): ps for n, ps in walk_with_parents(b.body)}
    recvs = [n for n in walk(b.body) if n.get("k") == "MethodCall" and n["name"] in ("recv", "recv_timeout", "try_recv", "iter", "into_iter") and "crossbeam_channel" in (F.callee(n) or "") and "Receiver" in (F.ty(n["recv"]) + F.tya(n["recv"]))]
    # those executed inside a spawned closure (the workers), not the coordinator's wait on the error channel
    workers = [n for n in recvs if sum(1 for p in pm[id(n)] if p.get("k") == "Closure") >= 2]
    if not workers:
        raise AnchorMissing("par_solve: no receive inside a worker closure")
    for n in workers:
        rr.instances += 1
        ps = pm[id(n)]
        # the innermost closure is the worker body; the receive must sit in a loop inside it
        ci = max(i for i, p in enumerate(ps) if p.get("k") == "Closure")
        in_loop = any(p.get("k") == "Loop" for p in ps[ci:]) or n["name"] in ("iter", "into_iter")
        key = "par_solve:worker-drains-channel"
        rr.ob(in_loop, key=key)
        if not in_loop:
            rr.violate(key, "par_solve: a worker thread receives with `%s` outside any loop: it solves one shard and exits, so with more shards than worker threads the rest are never solved and par_solve still returns Ok (their cells keep the random prefill: false negatives / wrong values)" % show(F, n)[:60], F.loc(n))


RESULT_SINKS_OK = {
    # (function short name, callee) whose Result is deliberately discarded, with the reason
    ("par_solve", "send"): "a worker reporting an error while the coordinator has already gone: nothing left to tell",
    ("par_solve", "set_current_thread_priority"): "thread priority is best effort",
    ("next", "set_len"): "truncating a consumed bucket file only releases disk space early; failure changes nothing that is read later",
}


@rule("R17.6", props=["C17", "C07", "C08", "C18"], floor=20, title="no Result produced in the builder, the signature store or the lenders is discarded (a dropped `?` turns a failed attempt into Ok)")
def r17_6(ctx, rr):
    """Every expression statement (or `let _ =`) of type Result in src/func/vbuilder.rs, src/utils/sig_store.rs
    and src/utils/lenders.rs must be consumed: `?`, match, if let, a combinator whose value is used, or returned.
    rustc only warns (unused_must_use), and the warning drowns among the build's other warnings."""
    F = ctx.F()
    bodies = [b for b in F.fns() if not is_derived(b) and b.file.endswith(("func/vbuilder.rs", "utils/sig_store.rs", "utils/lenders.rs")) and "::tests::" not in b.key]
    n_results = 0
    for b in bodies:
        for blk in walk(b.body):
            if blk.get("k") != "Block":
                continue
            for st in blk["stmts"]:
                dropped = None
                if st.get("k") == "LetStmt":
                    if st["pat"].get("k") == "PWild" and "init" in st and F.ty(st["init"]).startswith(("std::result::Result", "core::result::Result", "Result<")):
                        dropped = st["init"]
                elif F.ty(st).startswith(("std::result::Result", "core::result::Result", "Result<")) and st.get("k") in ("MethodCall", "Call"):
                    dropped = st
                if dropped is None:
                    continue
                n_results += 1
                callee = (dropped.get("name") or (F.callee(dropped) or "").split("::")[-1])
                fn_short = b.name
                if callee == "try_for_each" and fn_short == "par_solve":
                    # feeding the shards to the workers: `try_for_each(|x| tx.send(x))` stops at the first failed send,
                    # i.e. when the workers are gone (the loop form breaks there); the error is the closed channel
                    clos = [a_ for a_ in dropped.get("args", []) if a_.get("k") == "Closure"]
                    if len(clos) == 1 and any(x.get("k") == "MethodCall" and x["name"] == "send" and "crossbeam_channel" in (F.callee(x) or "") for x in walk(clos[0]["body"])):
                        rr.instances += 1
                        rr.ob(True, key="par_solve:feeder:discarded-by-design", nontrivial=False)
                        continue
                if (fn_short, callee) in RESULT_SINKS_OK:
                    rr.instances += 1
                    rr.ob(True, key="%s:%s:discarded-by-design" % (fn_short, callee), nontrivial=False)
                    continue
                rr.instances += 1
                key = "%s:%s:result-discarded" % (short_fn(b.key), callee)
                rr.ob(False, key=key)
                rr.violate(key, "%s discards the Result of `%s`: an error there (a failed shard, a duplicate, an I/O error) is lost and the caller proceeds as if the step had succeeded" % (b.key, show(F, dropped)[:80]), F.loc(dropped))
    # a Result replaced by a default is a discarded error too: `try_unwrap(shared).unwrap_or_default()` hands out an
    # empty shard, `read(..).unwrap_or(0)` a short one
    for b in bodies:
        for n in walk(b.body):
            if n.get("k") == "MethodCall" and n["name"] in ("unwrap_or_default", "unwrap_or", "unwrap_or_else", "ok", "map_or", "map_or_else") and F.ty(n["recv"]).startswith(("std::result::Result", "core::result::Result", "Result<")):
                rr.instances += 1
                key = "%s:%s:error-replaced-by-default" % (short_fn(b.key), n["name"])
                rr.ob(False, key=key)
                rr.violate(key, "%s turns the error of `%s` into a default value with `.%s(..)`: the failure (a shard that is still shared, a short read, a failed rewind) is silently replaced by an empty or partial result" % (b.key, show(F, n["recv"])[:80], n["name"]), F.loc(n))
    # every Result-typed call that IS consumed counts as an instance too (floor: the rule keeps seeing them)
    for b in bodies:
        for n in walk(b.body):
            if n.get("k") == "Match" and n.get("src") == "TryDesugar":
                rr.instances += 1
                rr.ob(True, key="try", nontrivial=False)


@rule("R17.7", props=["C17", "C07"], floor=3, title="par_solve never unwraps a channel operation: a closed channel is the normal way a failed attempt shuts down")
def r17_7(ctx, rr):
    F = ctx.F()
    b = F.one(r"^func::vbuilder::VBuilder::<W, D, S, E>::par_solve$")
    chan = [n for n in walk(b.body) if n.get("k") == "MethodCall" and n["name"] in ("send", "recv", "try_send", "try_recv", "send_timeout", "recv_timeout") and "crossbeam_channel" in (F.callee(n) or "")]
    if len(chan) < 3:
        raise AnchorMissing("par_solve: expected the channel sends/receives")
    pm = {id(n): ps for n, ps in walk_with_parents(b.body)}
    for n in chan:
        rr.instances += 1
        ps = pm[id(n)]
        par = ps[-1] if ps else {}
        bad = par.get("k") == "MethodCall" and par.get("recv") is n and par["name"] in ("unwrap", "expect", "unwrap_unchecked")
        key = "par_solve:%s:not-unwrapped" % n["name"]
        rr.ob(not bad, key=key)
        if bad:
            rr.violate(key, "par_solve calls `.%s()` on `%s`: when every worker has left after a failure (or the coordinator has), the channel is closed and the operation fails -- the thread then panics and thread::scope re-raises the panic, so try_build_* panics instead of returning the error or retrying" % (par["name"], show(F, n)[:60]), F.loc(n))


@rule("R07.13", props=["C07", "C08", "C17"], floor=1, title="the number of solver threads is at least one whenever there is a shard and the configured limit is at least one (it is the argument of ilog2 and the number of workers that consume the shards)")
def r07_13(ctx, rr):
    """par_solve spawns `num_threads` workers and sizes its channel with `num_threads.ilog2()`: with 0 threads the
    build panics (or no shard is ever solved). The value must be bounded below by 1 under the standing assumptions
    num_shards() >= 1 and max_num_threads >= 1 -- `min(num_shards, max_num_threads)` is, `.. - 1` is not."""
    F = ctx.F()
    asg = []
    for b in F.fns():
        if not b.file.endswith("func/vbuilder.rs") or not b.params or b.params[0].get("name") != "self":
            continue
        for n in walk(b.body):
            if n.get("k") in ("Assign", "AssignOp") and n["l"].get("k") == "Field" and n["l"]["name"] == "num_threads":
                asg.append((b, n))
    if not asg:
        raise AnchorMissing("no assignment of VBuilder::num_threads found")
    INF = float("inf")

    def bounds(t):
        """(lower, upper) bound of a usize term under num_shards() >= 1, max_num_threads >= 1"""
        if t[0] == "int":
            return (t[1], t[1])
        if t[0] == "call" and t[1].split("::")[-1] == "num_shards":
            return (1, INF)
        if t[0] == "field" and t[2] == "max_num_threads":
            return (1, INF)
        if t[0] == "op" and len(t) == 4:
            (la, ua), (lb, ub) = bounds(t[2]), bounds(t[3])
            if t[1] == "min":
                return (min(la, lb), min(ua, ub))
            if t[1] == "max":
                return (max(la, lb), max(ua, ub))
            if t[1] == "+":
                return (la + lb, ua + ub)
            if t[1] == "*":
                return (la * lb, ua * ub if INF not in (ua, ub) else INF)
            if t[1] == "-":
                return (max(0, la - ub) if ub != INF else 0, ua)
            if t[1] in ("/", ">>"):
                return (0, ua)
        if t[0] == "call" and t[1].split("::")[-1] in ("saturating_sub", "checked_sub", "wrapping_sub") and len(t[2]) == 2:
            (la, ua), (lb, ub) = bounds(t[2][0]), bounds(t[2][1])
            return (max(0, la - ub) if ub != INF else 0, ua)
        if t[0] == "cast":
            return bounds(t[2])
        return (0, INF)
    for b, n in asg:
        rr.instances += 1
        got = {}

        def on_node(W, x, K, n=n, got=got):
            if x is n:
                got["t"] = W.expand(W.T.term(n["r"])) if n["k"] == "Assign" else ("unk", "op-assign")
        Walker(F, b, on_node=on_node).run()
        t = got.get("t", ("unk", "not reached"))
        lo = bounds(t)[0]
        key = "%s:num_threads>=1" % short_fn(b.key)
        rr.ob(lo >= 1, key=key, sample={"fn": b.key, "value": tshow(t)[:120], "lower bound": lo})
        if lo < 1:
            rr.violate(key, "%s sets the number of solver threads to `%s`, which can be 0 with one shard or a limit of one thread (lower bound under num_shards() >= 1, max_num_threads >= 1: %s): par_solve takes ilog2 of it and spawns that many workers" % (b.key, tshow(t)[:100], lo), F.loc(n))
