"""C18 signature store (agreement clauses): online/offline try_push (R18.1), into_shard_store
(R18.2), ShardIterator::next aggregate/split branches (R18.3)."""
import re
from framework import rule
from r_guards import short_fn
from r_ef import struct_literal_fields
from r_bits import skeleton
from r_ef import make_inliner
from sym import *  # noqa
from ir import *  # noqa


def pair(F, regex, n=2):
    bs = F.find(regex)
    if len(bs) != n:
        raise AnchorMissing("expected %d bodies matching %s, found %d" % (n, regex, len(bs)))
    return sorted(bs, key=lambda b: b.line)


@rule("R18.1", props=["C18", "C07", "C08"], scope_all=True, floor=8, title="both try_push: bucket/shard from the high bits with the matching mask, each size counted once; constructors build masks (1 << bits) - 1")
def r18_1(ctx, rr):
    F = ctx.F()
    inl = ctx.memo("inliner", lambda: make_inliner(F))
    a, b = pair(F, r"SigStoreImpl<S, V, .*> as utils::sig_store::SigStore<S, V>>::try_push$")
    for x in (a, b):
        slf = ("var", "self", x.params[0]["id"])
        sv = ("var", x.params[1]["name"], x.params[1]["id"])
        sig = ("field", sv, "sig")
        ops = []

        def on_node(W, n, K, ops=ops):
            if n.get("k") == "AssignOp" and n["op"] == "+=":
                ops.append((W.expand(W.T.term(n["l"])), W.expand(W.T.term(n["r"]))))
        Walker(F, x, on_node=on_node).run()
        bucket = ("call", "Sig::high_bits", (sig, ("field", slf, "buckets_high_bits"), ("field", slf, "buckets_mask")))
        shard = ("call", "Sig::high_bits", (sig, ("field", slf, "max_shard_high_bits"), ("field", slf, "max_shard_mask")))
        want = sorted(map(repr, [(("field", slf, "len"), ("int", 1)), (("index", ("field", slf, "bucket_sizes"), bucket), ("int", 1)), (("index", ("field", slf, "shard_sizes"), shard), ("int", 1))]))
        got = sorted(map(repr, ops))
        nm = "try_push[%s]" % ("offline" if "BufWriter" in x.key else "online")
        rr.instances += 1
        rr.check(got == want, "%s:counts" % nm, "%s must count the pair once in len, once in bucket_sizes[high_bits(buckets_high_bits, buckets_mask)] and once in shard_sizes[high_bits(max_shard_high_bits, max_shard_mask)]; found %s" % (x.key, [tuple(tshow(y)[:70] for y in o) for o in ops]), x.span)
        # stored in buckets[bucket]
        stores = [n for n in walk(x.body) if n.get("k") == "Index" and show(F, n["e"]) == "self.buckets"]
        T = Walker(F, x)
        T.run()
        rr.instances += 1
        # (the same place may be spelled more than once when it is first bound to a reference)
        idx_terms = set(repr(T.expand(T.T.term(st_["i"]))) for st_ in stores)
        rr.check(len(idx_terms) == 1 and T.expand(T.T.term(stores[0]["i"])) == bucket, "%s:bucket" % nm, "%s must append the pair to buckets[bucket of its high bits]" % x.key, x.span)
    # constructors
    for path in (r"^utils::sig_store::new_offline$", r"^utils::sig_store::new_online$"):
        c = F.one(path)
        ren = param_roles(c, ["buckets_high_bits", "max_shard_high_bits", "expected_num_keys"])
        sl = struct_literal_fields(F, c)
        sl = [s for s in sl if "buckets_mask" in s]
        if len(sl) != 1:
            raise AnchorMissing("%s: SigStoreImpl literal not found" % c.key)
        L = {k: rename_vars(v, ren) for k, v in sl[0].items()}
        bh, mh = ("var", "buckets_high_bits"), ("var", "max_shard_high_bits")

        def m(x):
            return mk_op("-", mk_op("<<", ("int", 1), x), ("int", 1))
        rr.instances += 1
        ok = L.get("buckets_high_bits") == bh and L.get("max_shard_high_bits") == mh and L.get("buckets_mask") == m(bh) and L.get("max_shard_mask") == m(mh) and L.get("len") == ("int", 0)
        rr.check(ok, "%s:masks" % short_fn(c.key), "%s must store the two bit counts with masks (1 << bits) - 1 and start empty" % c.key, c.span)
        rr.instances += 1
        ok = mentions(L.get("bucket_sizes", ("unk",)), lambda x: x == mk_op("<<", ("int", 1), bh)) and mentions(L.get("shard_sizes", ("unk",)), lambda x: x == mk_op("<<", ("int", 1), mh))
        rr.check(ok, "%s:size-tables" % short_fn(c.key), "%s must allocate 2^buckets_high_bits bucket counters and 2^max_shard_high_bits shard counters" % c.key, c.span)


@rule("R18.2", props=["C18", "C07", "C08"], scope_all=True, floor=4, title="both into_shard_store: sizes aggregated over chunks of 2^(max - shard_bits) under the asserted bound; fields carried")
def r18_2(ctx, rr):
    F = ctx.F()
    a, b = pair(F, r"SigStoreImpl<S, V, .*> as utils::sig_store::SigStore<S, V>>::into_shard_store$")
    for x in (a, b):
        slf = ("var", "self", x.params[0]["id"])
        shb = ("var", x.params[1]["name"], x.params[1]["id"])
        nm = "into_shard_store[%s]" % ("offline" if "BufWriter" in x.key else "online")
        T = Termizer(F, x)
        asserts = [cond_atoms(T, n["c"], False) for n in walk(x.body) if n.get("k") == "If" and diverges(F, n["th"]) and not is_debug_only(F, n)]
        rr.instances += 1
        rr.check([atom_le(shb, ("field", slf, "max_shard_high_bits"))] in asserts, "%s:bound-asserted" % nm, "%s must assert shard_high_bits <= max_shard_high_bits (finer shards than were counted cannot be reconstructed)" % x.key, x.span)
        chunks = []

        def on_node(W, n, K, chunks=chunks):
            if n.get("k") == "MethodCall" and n["name"] == "chunks":
                chunks.append((W.T.term(n["recv"]), W.T.term(n["args"][0])))
        W = Walker(F, x, on_node=on_node)
        W.run()
        rr.instances += 1
        want = (("field", slf, "shard_sizes"), mk_op("<<", ("int", 1), mk_op("-", ("field", slf, "max_shard_high_bits"), shb)))
        rr.check(chunks == [want], "%s:aggregation" % nm, "%s must sum shard_sizes over chunks of 1 << (max_shard_high_bits - shard_high_bits); found %s" % (x.key, [tuple(tshow(t) for t in c) for c in chunks]), x.span)
        sl = [s for s in struct_literal_fields(F, x) if "shard_high_bits" in s]
        rr.instances += 1
        ok = len(sl) == 1 and sl[0].get("bucket_high_bits") == ("field", slf, "buckets_high_bits") and sl[0].get("shard_high_bits") == shb and sl[0].get("buf_sizes") == ("field", slf, "bucket_sizes")
        rr.check(ok, "%s:fields" % nm, "%s must hand over buckets_high_bits, the requested shard_high_bits and the bucket sizes unchanged" % x.key, x.span)


def iter_summary(F, b):
    """Structured summary of a ShardIterator::next body."""
    slf = ("var", "self", b.params[0]["id"])
    S = {"aggr": None, "split": None, "cursor_ops": [], "split_index": [], "ranges": [], "destroy": []}
    pm = {id(n): ps for n, ps in walk_with_parents(b.body)}

    def canon(t, W):
        t = W.expand(t)
        # store.* -> fields of a canonical `store` variable
        def r(t):
            if not isinstance(t, tuple) or not t:
                return t
            if t[0] == "field" and t[2] in ("bucket_high_bits", "shard_high_bits", "buckets", "shard_sizes", "buf_sizes"):
                return ("field", ("var", "store"), t[2])
            if t[0] == "call" and t[1] == "Sig::high_bits" and len(t[2]) == 3:
                return ("call", t[1], (("var", "pair.sig"), r(t[2][1]), r(t[2][2])))
            if t[0] == "var" and len(t) == 3:
                base = str(t[2]).split("#")[0]
                return ("var", "self" if t[1] == "self" else t[1])
            return tuple(r(x) if isinstance(x, tuple) else x for x in t)
        return normalize(r(t))

    def on_node(W, n, K):
        k = n.get("k")
        if k == "AssignOp" and n["l"].get("k") == "Field" and n["l"]["name"] in ("next_bucket", "next_shard"):
            S["cursor_ops"].append((n["l"]["name"], n["op"], repr(canon(W.T.term(n["r"]), W))))
            # which regime are we in? (buckets at least as fine as shards: aggregate; coarser: split)
            bh_ = [a for a in K.atoms if a[0] in ("le", "ne")]
            regime = "?"
            for a in K.atoms:
                if a[0] == "le" and a[1][0] == "field" and a[2][0] == "field":
                    if a[1][2] == "shard_high_bits" and a[2][2] == "bucket_high_bits" and a[3] <= 0:
                        regime = "aggregate"       # shard bits <= bucket bits
                    if a[1][2] == "bucket_high_bits" and a[2][2] == "shard_high_bits" and a[3] <= -1:
                        regime = "split"           # bucket bits < shard bits
            S.setdefault("cursor_by_regime", []).append((regime, n["l"]["name"], repr(canon(W.T.term(n["r"]), W))))
        if k == "Struct" and range_of(F, n) is not None:
            lo, hi, incl = range_of(F, n)
            if lo is not None and hi is not None:
                S["ranges"].append((repr(canon(W.T.term(lo), W)), repr(canon(W.T.term(hi), W))))
        if k == "Index" and show(F, n["e"]) == "self.shards":
            S["split_index"].append(repr(canon(W.T.term(n["i"]), W)))
        if k in ("Call", "MethodCall"):
            cn = cname(F, n) or n.get("name", "")
            if cn.endswith("mem::take") or n.get("name") == "set_len" and "get_mut" in show(F, n):
                # must be under !self.borrowed
                conds = [p for p in pm.get(id(n), ()) if p.get("k") == "If"]
                guarded = False
                child = n
                for p in reversed(pm.get(id(n), ())):
                    if p.get("k") == "If":
                        c = show(F, p["c"])
                        in_then = any(x is n for x in walk(p["th"]))
                        if (c == "!self.borrowed" and in_then) or (c == "self.borrowed" and not in_then):
                            guarded = True
                S["destroy"].append((F.loc(n), guarded))
    W = Walker(F, b, on_node=on_node)
    W.run()
    return S


@rule("R18.3", props=["C18", "C07", "C08"], scope_all=True, floor=6, title="ShardIterator::next (file- and memory-backed): aggregate 2^(bucket-shard) buckets per shard, split a bucket into 2^(shard-bucket) shards by the high bits, advance both cursors, destroy buckets only when not borrowed")
def r18_3(ctx, rr):
    F = ctx.F()
    a, b = pair(F, r"^<utils::sig_store::ShardIterator<S, V, .*, T> as std::iter::Iterator>::next$")
    st = ("var", "store")
    bh, sh = ("field", st, "bucket_high_bits"), ("field", st, "shard_high_bits")
    to_aggr = mk_op("<<", ("int", 1), mk_op("-", bh, sh))
    split_into = mk_op("<<", ("int", 1), mk_op("-", sh, bh))
    nb = ("field", ("var", "self"), "next_bucket")
    sums = {}
    for x in (a, b):
        nm = "ShardIterator::next[%s]" % ("file" if "BufReader" in x.key else "memory")
        S = iter_summary(F, x)
        sums[nm] = S
        cur = sorted(set(S["cursor_ops"]))
        rr.instances += 1
        want_sub = {("next_bucket", "+=", repr(to_aggr)), ("next_bucket", "+=", repr(("int", 1))), ("next_shard", "+=", repr(("int", 1)))}
        ok = want_sub <= set(cur) and all(c[1] == "+=" for c in cur) and set(c[2] for c in cur) <= {repr(to_aggr), repr(("int", 1))}
        rr.check(ok, "%s:cursors" % nm, "%s must advance next_bucket by 2^(bucket_high_bits - shard_high_bits) after aggregating (by 1 after splitting) and next_shard by 1 per shard returned; found %s" % (x.key, cur), x.span)
        # per regime: aggregating consumes 2^(bucket - shard) buckets on every path, splitting one
        rr.instances += 1
        bad_reg = [c for c in S.get("cursor_by_regime", []) if c[1] == "next_bucket" and ((c[0] == "aggregate" and c[2] != repr(to_aggr) and not (c[2] == repr(("int", 1)) and "memory" in nm)) or (c[0] == "split" and c[2] != repr(("int", 1))))]
        rr.check(not bad_reg, "%s:cursor-step-matches-regime" % nm, "%s advances next_bucket by %s in the %s regime: aggregating a shard consumes 2^(bucket_high_bits - shard_high_bits) buckets on every path (an empty shard included), splitting consumes one" % (x.key, [c[2][:60] for c in bad_reg], [c[0] for c in bad_reg]), x.span)
        rr.instances += 1
        want_rng = (repr(nb), repr(mk_op("+", nb, to_aggr)))
        rr.check(want_rng in S["ranges"], "%s:aggregate-range" % nm, "%s must aggregate exactly the buckets next_bucket .. next_bucket + 2^(bucket_high_bits - shard_high_bits)" % x.key, x.span)
        off = mk_op("*", nb, split_into)
        rr.instances += 1
        want_rng2 = (repr(off), repr(mk_op("+", off, split_into)))
        rr.check(want_rng2 in S["ranges"], "%s:split-range" % nm, "%s must create the 2^(shard_high_bits - bucket_high_bits) shards numbered from next_bucket * that count" % x.key, x.span)
        rr.instances += 1
        ok = len(S["split_index"]) >= 1 and all(("Sig::high_bits" in s and repr(off) in s and repr(mk_op("-", mk_op("<<", ("int", 1), sh), ("int", 1))) in s) for s in S["split_index"])
        rr.check(ok, "%s:split-index" % nm, "%s must route a pair to shard high_bits(shard_high_bits, (1 << shard_high_bits) - 1) - next_bucket * split; found %s" % (x.key, [s[:160] for s in S["split_index"]]), x.span)
        rr.instances += 1
        bad = [d for d in S["destroy"] if not d[1]]
        rr.check(not bad and len(S["destroy"]) >= 1, "%s:destroy-only-when-owned" % nm, "%s empties/truncates a bucket at %s without `!self.borrowed`: a borrowed iteration must leave the store intact for the next one" % (x.key, [d[0] for d in bad]), x.span)
    # sibling agreement on the shared parts
    (n1, s1), (n2, s2) = sorted(sums.items())
    rr.instances += 1
    rr.check(sorted(set(s1["cursor_ops"])) == sorted(set(s2["cursor_ops"])) and sorted(set(s1["split_index"])) == sorted(set(s2["split_index"])), "ShardIterator::next:file~memory", "the file-backed and the memory-backed shard iterators disagree on cursor updates or on the split index: %s vs %s" % (sorted(set(s1["cursor_ops"])), sorted(set(s2["cursor_ops"]))), a.span)


@rule("R18.4", props=["C18", "C07", "C08"], scope_all=True, floor=1, title="file-backed split: the read loop consumes exactly the pairs of the bucket (while remaining > 0: read min(buffer, remaining); remaining -= read)")
def r18_4(ctx, rr):
    F = ctx.F()
    bs = [b for b in F.find(r"^<utils::sig_store::ShardIterator<S, V, .*, T> as std::iter::Iterator>::next$") if "BufReader" in b.key]
    if len(bs) != 1:
        raise AnchorMissing("file-backed ShardIterator::next not found")
    b = bs[0]
    T = Termizer(F, b)
    ok = False
    why = "no `while remaining > 0` read loop over the bucket"
    for n in walk(b.body):
        if n.get("k") == "Loop" and n.get("src") == "While":
            body = n["body"]
            st = body.get("expr") or (body["stmts"][-1] if body["stmts"] else None)
            if st is None or st.get("k") != "If" or st["c"].get("k") != "Binary":
                continue
            c = st["c"]
            # remaining > 0
            if not (c["op"] in (">", "!=") and c["l"].get("k") == "Path" and c["r"].get("v") == "0"):
                continue
            rid = c["l"]["id"]
            if not any(x.get("k") == "MethodCall" and x["name"] == "read_exact" for x in walk(st["th"])):
                continue
            # remaining initialised from buf_sizes[next_bucket]
            init_ok = False
            for l in walk(b.body):
                if l.get("k") == "LetStmt" and l["pat"].get("k") == "PBind" and l["pat"]["id"] == rid and "init" in l:
                    it = T.term(l["init"])
                    init_ok = it[0] == "index" and it[1][0] == "field" and it[1][2] == "buf_sizes" and it[2][0] == "field" and it[2][2] == "next_bucket"
            decs = [x for x in walk(st["th"]) if x.get("k") == "AssignOp" and x["op"] == "-=" and x["l"].get("k") == "Path" and x["l"].get("id") == rid]
            amount = None
            if len(decs) == 1 and decs[0]["r"].get("k") == "Path":
                aid = decs[0]["r"]["id"]
                for l in walk(st["th"]):
                    if l.get("k") == "LetStmt" and l["pat"].get("k") == "PBind" and l["pat"]["id"] == aid and "init" in l:
                        at = T.term(l["init"])
                        if at[0] == "op" and at[1] == "min" and any(y[0] == "var" and str(y[2]) == str(rid) for y in (at[2], at[3])):
                            amount = aid
            setlens = [x for x in walk(st["th"]) if x.get("k") == "MethodCall" and x["name"] == "set_len" and x["args"] and x["args"][0].get("k") == "Path" and x["args"][0].get("id") == amount]
            if init_ok and amount is not None and setlens:
                ok = True
            else:
                why = "read loop found but %s" % ("the remaining count does not start at buf_sizes[next_bucket]" if not init_ok else "each round must read min(buffer, remaining) pairs into a buffer of that length and subtract that amount")
    # the same loop written over the offsets: `for start in (0..len).step_by(B) { n = B.min(len - start); set_len(n); read_exact }`
    for pat, it, body in for_loops(b.body):
        if ok or pat.get("k") != "PBind" or not (it.get("k") == "MethodCall" and it["name"] == "step_by" and range_of(F, it["recv"]) is not None):
            continue
        if not any(x.get("k") == "MethodCall" and x["name"] == "read_exact" for x in walk(body)):
            continue
        lo, hi, incl = range_of(F, it["recv"])
        total = None
        if hi is not None and hi.get("k") == "Path" and hi.get("res") == "local":
            for l in walk(b.body):
                if l.get("k") == "LetStmt" and l["pat"].get("k") == "PBind" and l["pat"]["id"] == hi["id"] and not l["pat"].get("mut") and "init" in l:
                    total = T.term(l["init"])
        elif hi is not None:
            total = T.term(hi)
        init_ok = lo is not None and T.term(lo) == ("int", 0) and not incl and total is not None and total[0] == "index" and total[1][0] == "field" and total[1][2] == "buf_sizes" and total[2][0] == "field" and total[2][2] == "next_bucket"
        step = T.term(it["args"][0])
        start = ("var", pat["name"], pat["id"])
        amount = None
        for l in walk(body):
            if l.get("k") == "LetStmt" and l["pat"].get("k") == "PBind" and "init" in l:
                at = T.term(l["init"])
                if at[0] == "op" and at[1] == "min" and step in (at[2], at[3]) and mk_op("-", T.term(hi), start) in (at[2], at[3]):
                    amount = l["pat"]["id"]
        setlens = [x for x in walk(body) if x.get("k") == "MethodCall" and x["name"] == "set_len" and x["args"] and x["args"][0].get("k") == "Path" and x["args"][0].get("id") == amount]
        if init_ok and amount is not None and setlens:
            ok = True
        else:
            why = "read loop over the offsets found but %s" % ("it does not cover 0..buf_sizes[next_bucket]" if not init_ok else "each round must read min(step, len - start) pairs into a buffer of that length")
    rr.instances += 1
    rr.check(ok, "ShardIterator::next[file]:split-read-loop", "the file-backed split must read the whole bucket: %s" % why, b.span)


@rule("R18.5", props=["C18", "C07", "C08"], scope_all=True, floor=2, title="file-backed shard iterator: a bucket file is read from its start (seek to 0 on the same bucket first) and only with read_exact (a short read is an error, never a shorter shard)")
def r18_5(ctx, rr):
    """Each pass over a bucket file must be self-contained: positioned at offset 0 by the pass itself (an
    earlier, abandoned pass leaves the file anywhere) and read in full. `Read::read` may return fewer
    bytes than asked; with its count ignored the rest of the shard is whatever the buffer held."""
    F = ctx.F()
    bs = [b for b in F.find(r"^<utils::sig_store::ShardIterator<S, V, .*, T> as std::iter::Iterator>::next$") if "BufReader" in b.key]
    if len(bs) != 1:
        raise AnchorMissing("expected the file-backed ShardIterator::next")
    b = bs[0]
    from r_guards import simple_env
    T = simple_env(F, b)     # immutable locals expanded: `let bucket = &mut store.buckets[i]; bucket.read_exact(..)`
    order = list(walk(b.body))
    pos = {id(n): i for i, n in enumerate(order)}
    pm = {id(n): ps for n, ps in walk_with_parents(b.body)}
    reads = [n for n in order if n.get("k") == "MethodCall" and n["name"] in ("read", "read_exact", "read_to_end", "read_buf") and mentions(T.term(n["recv"]), lambda x: x[0] == "field" and x[2] == "buckets")]
    seeks = [n for n in order if n.get("k") == "MethodCall" and n["name"] in ("seek", "rewind") and mentions(T.term(n["recv"]), lambda x: x[0] == "field" and x[2] == "buckets")]
    if len(reads) < 2:
        raise AnchorMissing("file-backed ShardIterator::next: expected a bucket read in each of the two branches, found %d" % len(reads))
    for r in reads:
        rr.instances += 1
        key = "ShardIterator(file)::next:read-exact"
        ok = r["name"] == "read_exact"
        rr.ob(ok, key=key + r["name"])
        if not ok:
            rr.violate(key, "the bucket file is read with `%s` (`%s`): a short read is not an error there, and its byte count is not used, so a truncated bucket yields a shard whose tail was never read" % (r["name"], show(F, r)[:90]), F.loc(r))
        # a seek to the start of the same bucket dominates the read: it precedes it and sits in a block
        # that encloses the read (possibly outside the read loop, never in a sibling branch or after it)
        rt = T.term(r["recv"])
        ok2 = False
        for s in seeks:
            if T.term(s["recv"]) != rt or pos[id(s)] > pos[id(r)]:
                continue
            start0 = s["name"] == "rewind" or ("SeekFrom::Start" in show(F, s["args"][0]) and any(x.get("k") == "Lit" and x.get("v") == "0" for x in walk(s["args"][0])))
            if not start0:
                continue
            sblocks = [p for p in pm[id(s)] if p.get("k") == "Block"]
            rblocks = [p for p in pm[id(r)] if p.get("k") == "Block"]
            if sblocks and any(sblocks[-1] is x for x in rblocks):
                # not guarded by a condition the read is not under
                conds_s = [p for p in pm[id(s)] if p.get("k") == "If"]
                conds_r = [p for p in pm[id(r)] if p.get("k") == "If"]
                if all(any(c is d for d in conds_r) for c in conds_s):
                    ok2 = True
        rr.instances += 1
        key2 = "ShardIterator(file)::next:seek-start-before-read"
        rr.ob(ok2, key=key2)
        if not ok2:
            rr.violate(key2, "`%s` is not preceded, in the same pass, by a seek of that bucket to offset 0: a pass that follows an abandoned one (a borrowed iteration dropped early) starts reading wherever the file was left" % show(F, r)[:90], F.loc(r))


@rule("R07.10", props=["C07", "C08", "C18"], floor=20, title="ToSig for slices hashes every byte of the key (the u8 view of the whole slice)")
def r07_10(ctx, rr):
    """Two distinct slice keys must get different signatures for some seed. A byte view whose length is the number
    of elements hashes only the first len() bytes of a &[u32]/&[u64] key: keys that agree there collide for every seed."""
    F = ctx.F()
    bodies = [b for b in F.fns() if b.name == "to_sig" and b.file.endswith("utils/sig_store.rs") and (b.impl_self or "").startswith("&[")]
    if len(bodies) < 20:
        raise AnchorMissing("expected the ToSig impls for slices (two per element type), found %d" % len(bodies))
    for b in bodies:
        key_id = b.params[0]["id"]
        hashes = [n for n in walk(b.body) if n.get("k") == "Call" and "xxh3" in (F.callee(n) or "")]
        rr.instances += 1
        ok = False
        why = "no xxh3 call"
        if hashes:
            arg = hashes[0]["args"][0]
            # resolve the local to its initialiser
            e = arg
            for _ in range(3):
                if e.get("k") == "Path" and e.get("res") == "local":
                    ls = [x for x in walk(b.body) if x.get("k") == "LetStmt" and x["pat"].get("k") == "PBind" and x["pat"]["id"] == e["id"] and "init" in x]
                    if ls:
                        e = ls[0]["init"]
                        continue
                break
            calls = [x for x in walk(e) if x.get("k") in ("MethodCall", "Call")]
            names = [x.get("name") or (F.callee(x) or "").split("::")[-1] for x in calls]
            if "align_to" in names:
                # align_to::<u8>() of the key itself: the middle part is the whole slice
                at = [x for x in calls if x.get("name") == "align_to"][0]
                ok = any(y.get("k") == "Path" and y.get("id") == key_id for y in walk(at["recv"])) and any(y.get("k") == "Field" and y["name"] == "1" for y in walk(e))
                why = "align_to of something else than the key / not its middle part"
            elif "from_raw_parts" in names:
                fr = [x for x in calls if (F.callee(x) or "").endswith("from_raw_parts")][0]
                ln = fr["args"][1]
                txt = show(F, ln)
                ok = "size_of_val" in txt or ("size_of" in txt and "len" in txt and "*" in txt)
                why = "from_raw_parts with length `%s` (the number of elements, not of bytes)" % txt[:60]
            else:
                why = "the hashed bytes are `%s`" % show(F, e)[:80]
        key = "%s:hashes-whole-key" % short_fn(b.key)
        rr.ob(ok, key=key)
        if not ok:
            rr.violate(key, "%s does not hash the whole key: %s; distinct keys that agree on the hashed prefix get the same signature for every seed (duplicate-key errors on duplicate-free input, or a build that never succeeds)" % (b.key, why), b.span)


@rule("R17.8", props=["C17", "C07", "C08", "C18"], scope_all=True, floor=3, title="RadixKey of the signature/value pairs: the LEVELS levels read LEVELS distinct bytes, eight per signature word (the radix sort that brings equal signatures together orders by every bit)")
def r17_8(ctx, rr):
    """Duplicate signatures are found by sorting a shard with a byte-wise radix sort and comparing neighbours. A
    get_level that reads the same byte at every level (`(level / 8) * 8` for `(level % 8) * 8`) leaves the pairs sorted
    by that byte only: equal signatures are no longer adjacent, duplicates go unreported and the retry bound that
    counts them is lost."""
    from r_ef import _ieval
    F = ctx.F()
    impls = [b for b in F.fns() if b.name == "get_level" and (b.impl_trait or "").endswith("RadixKey") and b.file.startswith("src/")]
    if len(impls) < 3:
        raise AnchorMissing("expected the RadixKey impls of SigVal<[u64; 1]>, SigVal<[u64; 2]> and LowSortSigVal, found %d" % len(impls))
    CE = None
    for b in impls:
        rr.instances += 1
        key = "%s:levels-read-distinct-bytes" % short_fn(b.key)
        lv = [c for c in F.bodies if c.dk in ("AssocConst", "Const") and c.path == b.path.rsplit("::", 1)[0] + "::LEVELS"]
        levels = None
        if lv:
            t = Termizer(F, lv[0]).term(lv[0].body)
            levels = t[1] if t[0] == "int" else None
        if levels is None or len(b.params) < 2:
            rr.violate(key, "reason=anchor-missing: %s: LEVELS could not be read" % b.key, b.span)
            continue
        lvl = ("var", b.params[1]["name"], b.params[1]["id"])
        t = Termizer(F, b).term(b.body)
        while t[0] == "cast":
            t = t[2]
        pairs = []
        bad = None
        form = None
        if t[0] == "op" and t[1] == ">>" and t[2][0] == "index":
            form = ("shift", t[2][2], t[3])
        elif t[0] == "index" and t[1][0] == "call" and t[1][1].split("::")[-1] in ("to_le_bytes", "to_be_bytes", "to_ne_bytes") and len(t[1][2]) == 1 and t[1][2][0][0] == "index":
            # byte k of the little-endian image of a word is the byte at shift 8k (the crate targets little-endian layouts
            # for its signatures; to_ne_bytes is read as such)
            form = ("bytes-be" if t[1][1].endswith("to_be_bytes") else "bytes-le", t[1][2][0][2], t[2])
        if form is not None:
            for L in range(levels):
                env = {lvl[1]: L}
                idx = _ieval(rewrite_term(form[1], lvl, ("var", lvl[1])), env)
                sh = _ieval(rewrite_term(form[2], lvl, ("var", lvl[1])), env)
                if sh is not None and form[0] == "bytes-le":
                    sh = 8 * sh
                elif sh is not None and form[0] == "bytes-be":
                    sh = 56 - 8 * sh
                if idx is None or sh is None:
                    bad = "level %d could not be evaluated" % L
                    break
                pairs.append((idx, sh))
        else:
            bad = "get_level is neither `(sig[word] >> shift) as u8` nor `sig[word].to_le_bytes()[byte]`: %s" % tshow(t)[:80]
        if bad is None:
            words = sorted(set(p[0] for p in pairs))
            if len(set(pairs)) != levels:
                rep = [p for p in pairs if pairs.count(p) > 1][0]
                bad = "levels 0..%d read only %d distinct bytes (byte %d of word %d is read %d times)" % (levels, len(set(pairs)), rep[1] // 8, rep[0], pairs.count(rep))
            elif any(p[1] % 8 or not 0 <= p[1] < 64 for p in pairs):
                bad = "a shift is not a byte position of a 64-bit word: %s" % sorted(set(p[1] for p in pairs))
            elif any(sorted(p[1] for p in pairs if p[0] == w) != list(range(0, 64, 8)) for w in words):
                bad = "not all eight bytes of every word read are covered: %s" % pairs
        rr.ob(bad is None, key=key, sample={"impl": b.key, "LEVELS": levels, "(word, shift) per level": pairs[:16]})
        if bad is not None:
            rr.violate(key, "%s: %s: the radix sort used to bring equal signatures together does not order by the whole signature, so duplicates are not adjacent and are not detected" % (b.key, bad), b.span)
