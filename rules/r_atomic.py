"""E6: read-modify-write discipline on shared words (C13) and the field update law shared with
the non-atomic accessors (R05.3, R13.2)."""
import re
from framework import rule
from guards import is_derived
from r_guards import short_fn
from sym import *  # noqa
from ir import *  # noqa

ATOMIC_PREFIXES = ("std::sync::atomic::Atomic", "core::sync::atomic::Atomic", "common_traits::Atomic")
RMW = ("fetch_or", "fetch_and", "fetch_xor", "fetch_add", "fetch_sub", "fetch_nand", "fetch_max", "fetch_min", "swap")
CAS = ("compare_exchange", "compare_exchange_weak")


def atomic_op(F, n):
    if n.get("k") != "MethodCall":
        return None
    c = F.callee(n)
    if not c or not c.startswith(ATOMIC_PREFIXES):
        return None
    return n["name"]


def is_load_term(t):
    return t[0] == "call" and (t[1].endswith("::load") or t[1] == "load")


def shared_self(b):
    """first parameter is a shared reference (or there is no exclusive access to the receiver)"""
    if not b.sig_in:
        return True
    return not b.sig_in[0].startswith("&mut") and b.sig_in[0].startswith("&")


def parents_map(root):
    pm = {}
    for n, ps in walk_with_parents(root):
        pm[id(n)] = ps
    return pm


@rule("R13.1", props=["C13", "C03", "C14"], floor=10, title="shared words are modified only by single RMWs or well-formed CAS retry loops; no load->store on a shared word through &self")
def r13_1(ctx, rr):
    F = ctx.F()
    for b in F.fns():
        if is_derived(b):
            continue
        ops = [(n, atomic_op(F, n)) for n in walk(b.body)]
        ops = [(n, o) for n, o in ops if o]
        if not ops:
            continue
        exclusive = not shared_self(b)
        pm = None
        sites = []

        def on_node(W, n, K):
            o = atomic_op(F, n)
            if o in ("store",) or o in CAS:
                args = [W.T.term(a) for a in n["args"]]
                sites.append((n, o, args, W.T.term(n["recv"])))
        Walker(F, b, on_node=on_node).run()
        for n, o, args, recv in sites:
            rr.instances += 1
            key = "%s:%s" % (short_fn(b.key), o)
            if o == "store":
                dep = mentions(args[0], is_load_term)
                ok = exclusive or not dep
                rr.ob(ok, key=key, sample={"fn": b.key, "op": show(F, n)[:160], "value": tshow(args[0])[:160], "exclusive_receiver": exclusive})
                if not ok:
                    rr.violate(key + ":load-store", "%s takes a shared receiver but stores `%s`, which is computed from a preceding atomic load: a concurrent writer of the same word between the load and the store is lost (use fetch_* or a compare_exchange loop)" % (b.key, tshow(args[0])[:200]), F.loc(n))
            else:
                # CAS: expected must be a loop-carried local refreshed from the failure value, new recomputed from it
                if pm is None:
                    pm = parents_map(b.body)
                ps = pm.get(id(n), ())
                loop = None
                for p in reversed(ps):
                    if p.get("k") == "Loop":
                        loop = p
                        break
                exp_node = n["args"][0]
                problems = []
                if loop is None:
                    problems.append("the compare_exchange is not inside a retry loop")
                if not (exp_node.get("k") == "Path" and exp_node.get("res") == "local"):
                    problems.append("the expected value is not a loop-carried local")
                else:
                    xid = exp_node["id"]
                    # match on the CAS result with an Err(e) arm assigning X = e
                    m = None
                    for p in reversed(ps):
                        if p.get("k") == "Match" and p["e"] is n:
                            m = p
                            break
                    refreshed = False
                    ok_exits = False
                    if m is not None:
                        for a in m["arms"]:
                            pat = a["pat"]
                            nm = pat.get("name", "")
                            binds = pat_bindings(pat)
                            if nm == "Err" or (binds and any(x.get("k") == "Assign" for x in walk(a["body"]))):
                                for x in walk(a["body"]):
                                    if x.get("k") == "Assign" and x["l"].get("k") == "Path" and x["l"].get("id") == xid:
                                        r = x["r"]
                                        if r.get("k") == "Path" and r.get("res") == "local" and any(r["id"] == bid for _, bid in binds):
                                            refreshed = True
                            if nm == "Ok" or not binds or diverges(F, a["body"]):
                                if diverges(F, a["body"]):
                                    ok_exits = True
                    if m is None:
                        # `while let Err(actual) = cell.compare_exchange(..) { expected = actual; }` (and the `if let`
                        # form inside a `loop`): the pattern failing (Ok) leaves the loop
                        for p in reversed(ps):
                            if p.get("k") == "If" and p["c"].get("k") == "Let" and any(x is n for x in walk(p["c"]["init"])):
                                pat = p["c"]["pat"]
                                binds = pat_bindings(pat)
                                if pat.get("name", "") == "Err":
                                    for x in walk(p["th"]):
                                        if x.get("k") == "Assign" and x["l"].get("k") == "Path" and x["l"].get("id") == xid:
                                            r = x["r"]
                                            if r.get("k") == "Path" and r.get("res") == "local" and any(r["id"] == bid for _, bid in binds):
                                                refreshed = True
                                    el = p.get("el")
                                    ok_exits = el is None and loop is not None and loop.get("src") in ("While", "WhileLet") or (el is not None and (diverges(F, el) or any(x.get("k") == "Break" for x in walk(el))))
                                break
                    if not refreshed:
                        problems.append("the failure arm does not refresh the expected value from the value returned by compare_exchange")
                    if not ok_exits:
                        problems.append("the success arm does not leave the retry loop")
                    # new recomputed from the current expected value inside the loop
                    if not (args[0][0] == "var" and mentions(args[1], lambda x: x == args[0])):
                        problems.append("the new value `%s` is not recomputed from the current expected value `%s` on every iteration" % (tshow(args[1])[:160], tshow(args[0])))
                ok = not problems
                rr.ob(ok, key=key, sample={"fn": b.key, "op": show(F, n)[:160], "expected": tshow(args[0]), "new": tshow(args[1])[:200]})
                if not ok:
                    rr.violate(key + ":cas-loop", "%s: malformed compare_exchange retry loop: %s" % (b.key, "; ".join(problems)), F.loc(n))
        # RMW-only instances count too
        for n, o in ops:
            if o in RMW:
                rr.instances += 1
                rr.ob(True, key="%s:%s" % (short_fn(b.key), o), nontrivial=False)
    # load+store sequences are confined to &mut self: signature query for the bulk mutators
    for nm in ("fill", "flip", "par_fill", "par_flip", "reset_atomic", "par_reset_atomic"):
        bs = [b for b in F.fns() if b.name == nm and not is_derived(b) and (b.impl_adt or "").split("::")[-1].startswith("Atomic") or (b.name == nm and "AtomicBitFieldSlice" in (b.impl_trait or "") and not is_derived(b))]
        for b in bs:
            if nm in ("reset_atomic", "par_reset_atomic") or (b.impl_adt or "").endswith("AtomicBitVec"):
                rr.instances += 1
                rr.check(b.sig_in and b.sig_in[0].startswith("&mut"), "%s:exclusive" % short_fn(b.key), "%s performs non-atomic load/store sequences on shared words and must therefore take `&mut self`" % b.key, b.span)


def decompose_update(t, is_old):
    """t == (old & K) | V  ->  (old, K, V) (commutativity handled), else None."""
    if not (t[0] == "op" and t[1] == "|"):
        return None
    for a, v in ((t[2], t[3]), (t[3], t[2])):
        if a[0] == "op" and a[1] == "&":
            for o, k in ((a[2], a[3]), (a[3], a[2])):
                if is_old(o):
                    return o, k, v
    return None


def shift_parts(t):
    """t == x << s or x >> s -> (x, op, s); a bare x -> (x, None, None)."""
    if t[0] == "op" and t[1] in ("<<", ">>"):
        return t[2], t[1], t[3]
    return t, None, None


def one_like(t):
    return t == ("int", 1) or (t[0] == "def" and t[1].endswith("ONE"))


def check_field_update(K_, V, value_pred, mask_pred):
    """The confinement law for `new = (old & K) | V`:
       (a) K == !(mask SH s) and V == value SH s with the same shift SH s, or
       (b) K == (1 << s) - 1 and V == value << s.
    Returns (ok, description)."""
    # one spelling for the low mask: (1 << s) - 1, MAX >> (BITS - s), !(MAX << s)
    cK = canon_masks(K_)
    if cK[0] == "lowmask":
        K_ = mk_op("-", mk_op("<<", ("int", 1), cK[1]), ("int", 1))
    vx, vop, vs = shift_parts(V)
    if not value_pred(vx):
        return False, "the OR-ed term `%s` is not the (shifted) value" % tshow(V)
    if K_[0] == "un" and K_[1] == "!":
        mx, mop, ms = shift_parts(K_[2])
        if not mask_pred(mx):
            return False, "the cleared bits `%s` are not the (shifted) field mask" % tshow(K_[2])
        if (mop, ms) != (vop, vs):
            return False, "mask and value are shifted differently (`%s` vs `%s`): the write is not confined to the field" % (tshow(K_[2]), tshow(V))
        return True, "clears mask%s, ors value%s" % ((" %s %s" % (mop, tshow(ms))) if mop else "", (" %s %s" % (vop, tshow(vs))) if vop else "")
    # (1 << s) - 1
    if K_[0] == "op" and K_[1] == "-" and one_like(K_[3]) and K_[2][0] == "op" and K_[2][1] == "<<" and one_like(K_[2][2]):
        s = K_[2][3]
        if vop == "<<" and vs == s:
            return True, "keeps the low %s bits, ors value << %s" % (tshow(s), tshow(s))
        return False, "keeps the low `%s` bits but ors `%s`" % (tshow(s), tshow(V))
    return False, "kept-bits term `%s` is neither !(mask shifted) nor (1 << s) - 1" % tshow(K_)


def field_updates_nonatomic(F, b):
    """[(word index term, new term, known)] for `*bits.get_unchecked_mut(i) = new` stores."""
    out = []

    def on_node(W, n, K):
        pass
    W = Walker(F, b)
    stores = []
    orig_walk = W.walk

    pending = {}

    def walk_hook(n, K):
        if n.get("k") == "AssignOp" and n.get("op") in ("&=", "|=", "^="):
            # `*w &= K; *w |= V` on the word in place: the stored word is ((old & K) | V)
            lt_node = n["l"]
            while lt_node.get("k") == "Unary" and lt_node.get("op") == "*":
                lt_node = lt_node["e"]
            if lt_node.get("k") == "MethodCall" and lt_node["name"] in ("get_unchecked_mut",):
                idx = W.T.term(lt_node["args"][0])
                pk = (idx, tuple(K.show()))
                prev = pending.get(pk)
                old = prev[0] if prev else W.T.term(lt_node)
                new = mk_op(n["op"][:-1], old, W.T.term(n["r"]))
                if prev:
                    stores.remove(prev[1])
                ent = (n, idx, new, K.show())
                stores.append(ent)
                pending[pk] = (new, ent)
        if n.get("k") == "Assign":
            l = n["l"]
            lt_node = l
            while lt_node.get("k") == "Unary" and lt_node.get("op") == "*":
                lt_node = lt_node["e"]
            if lt_node.get("k") == "MethodCall" and lt_node["name"] in ("get_unchecked_mut",):
                rt = W.T.term(n["r"])
                idx = W.T.term(lt_node["args"][0])
                stores.append((n, idx, rt, K.show()))
        return orig_walk(n, K)
    W.walk = walk_hook
    W.run()
    return stores


@rule("R05.3", props=["C05", "C14"], floor=3, title="BitFieldVec::set_unchecked confines each word update to the field (mask and value shifted alike)")
def r05_3(ctx, rr):
    F = ctx.F()
    b = F.one(r"^<bits::bit_field_vec::BitFieldVec<W, B> as traits::bit_field_slice::BitFieldSliceMut<W>>::set_unchecked$")
    ups = bitfield_updates(F, b, atomic=False)
    if len(ups) < 3:
        raise AnchorMissing("%s: expected 3 word updates (one-word case, two halves of the straddling case), found %d" % (b.key, len(ups)))
    for u in ups:
        rr.instances += 1
        key = "BitFieldVec::set_unchecked:word[%s]" % u["where"]
        rr.ob(u["ok"], key=key + u["how"][:20], sample={"fn": b.key, "word": u["idx"], "new": u["new"], "law": u["how"]})
        if not u["ok"]:
            rr.violate(key, "%s: update of word `%s` breaks the field-confinement law: %s (new = %s)" % (b.key, u["idx"], u["how"], u["new"]), u["loc"])
    ctx._bf_updates_nonatomic = ups


def bitfield_updates(F, b, atomic):
    slf = ("var", "self", b.params[0]["id"])
    value = None
    for p in b.params:
        if p.get("name") == "value":
            value = ("var", "value", p["id"])

    def value_pred(x):
        return x == value

    def mask_pred(x):
        return x == ("field", slf, "mask")
    out = []
    if atomic:
        sites = []

        def on_node(W, n, K):
            if atomic_op(F, n) in CAS:
                sites.append((n, W.T.term(n["recv"]), W.T.term(n["args"][0]), W.T.term(n["args"][1])))
        Walker(F, b, on_node=on_node).run()
        for n, recv, exp, new in sites:
            idx = recv[2][1] if recv[0] == "call" and len(recv[2]) == 2 else recv
            d = decompose_update(new, lambda o: o == exp)
            if d is None:
                out.append({"ok": False, "how": "new value is not of the form (observed & K) | V", "idx": tshow(idx), "new": tshow(new)[:200], "loc": F.loc(n), "where": tshow(idx), "K": None, "V": None})
                continue
            _, K_, V = d
            ok, how = check_field_update(K_, V, value_pred, mask_pred)
            out.append({"ok": ok, "how": how, "idx": tshow(idx), "new": tshow(new)[:200], "loc": F.loc(n), "where": tshow(idx), "K": K_, "V": V, "idx_t": idx})
    else:
        for n, idx, new, known in field_updates_nonatomic(F, b):
            d = decompose_update(new, lambda o: o[0] == "call" and o[1].startswith("slice::get_unchecked") and o[2][1] == idx)
            if d is None:
                out.append({"ok": False, "how": "stored word is not of the form (old word & K) | V", "idx": tshow(idx), "new": tshow(new)[:200], "loc": F.loc(n), "where": tshow(idx), "K": None, "V": None})
                continue
            _, K_, V = d
            ok, how = check_field_update(K_, V, value_pred, mask_pred)
            out.append({"ok": ok, "how": how, "idx": tshow(idx), "new": tshow(new)[:200], "loc": F.loc(n), "where": tshow(idx), "K": K_, "V": V, "idx_t": idx})
    return out


@rule("R13.2", props=["C13", "C05", "C06"], floor=6, title="atomic field/bit updates are confined to the element and agree with the non-atomic accessors")
def r13_2(ctx, rr):
    F = ctx.F()
    b = F.one(r"^<bits::bit_field_vec::AtomicBitFieldVec<W, T> as traits::bit_field_slice::AtomicBitFieldSlice<W>>::set_atomic_unchecked$")
    ups = bitfield_updates(F, b, atomic=True)
    if len(ups) < 3:
        raise AnchorMissing("%s: expected 3 compare_exchange word updates, found %d" % (b.key, len(ups)))
    for u in ups:
        rr.instances += 1
        key = "AtomicBitFieldVec::set_atomic_unchecked:word[%s]" % u["where"]
        rr.ob(u["ok"], key=key + u["how"][:20], sample={"fn": b.key, "word": u["idx"], "new": u["new"], "law": u["how"]})
        if not u["ok"]:
            rr.violate(key, "%s: update of word `%s` breaks the field-confinement law: %s (new = %s)" % (b.key, u["idx"], u["how"], u["new"]), u["loc"])
    # agreement with the non-atomic sibling: same multiset of (word index, K, V) up to the names of self/value
    nb = F.one(r"^<bits::bit_field_vec::BitFieldVec<W, B> as traits::bit_field_slice::BitFieldSliceMut<W>>::set_unchecked$")
    nups = bitfield_updates(F, nb, atomic=False)

    def canon(u, body):
        ren = param_roles(body)
        if u.get("K") is None:
            return None
        return (repr(rename_vars(u["idx_t"], ren)), repr(rename_vars(u["K"], ren)), repr(rename_vars(u["V"], ren)))
    A = sorted(x for x in (canon(u, b) for u in ups) if x)
    N = sorted(x for x in (canon(u, nb) for u in nups) if x)
    rr.instances += 1
    rr.check(A == N, "AtomicBitFieldVec::set_atomic_unchecked~BitFieldVec::set_unchecked", "the atomic and non-atomic field writers disagree on (word, kept bits, or-ed value): atomic %s vs non-atomic %s" % ([u["how"] for u in ups], [u["how"] for u in nups]), b.span,
             {"atomic": A, "non_atomic": N})
    # AtomicBitVec set/swap: exactly one RMW per path on word index/BITS with mask 1 << index%BITS; no load/store/self calls
    for nm in ("set_unchecked", "swap_unchecked"):
        b = F.one(r"^bits::bit_vec::AtomicBitVec::<B>::%s$" % nm)
        idx = None
        for p in b.params:
            if p.get("name") == "index":
                idx = ("var", "index", p["id"])
        rmws = []
        others = []

        def on_node(W, n, K, rmws=rmws, others=others):
            o = atomic_op(F, n)
            if o in ("fetch_or", "fetch_and"):
                rmws.append((n, o, W.T.term(n["args"][0]), W.T.term(n["recv"])))
            elif o:
                others.append((n, o))
            elif n.get("k") == "MethodCall" and n["recv"].get("k") == "Path" and n["recv"].get("name") == "self":
                others.append((n, "self." + n["name"]))
        Walker(F, b, on_node=on_node).run()
        rr.instances += 1
        names = sorted(o for _, o, _, _ in rmws)
        ok = names == ["fetch_and", "fetch_or"] and not others
        if not ok and nm == "set_unchecked" and not rmws and len(others) == 1 and others[0][1] == "self.swap_unchecked":
            # set_unchecked written as `swap_unchecked(index, value, order)` with the result dropped: the one RMW is
            # the sibling's (checked below), reached with the same parameters in the same positions
            call = others[0][0]
            own = [p.get("id") for p in b.params[1:]]
            passed = [a.get("id") if a.get("k") == "Path" and a.get("res") == "local" else None for a in call.get("args", [])]
            ok = own == passed
        rr.check(ok, "AtomicBitVec::%s:single-rmw" % nm, "%s must modify the bit with exactly one fetch_or (set) / fetch_and (clear) per path and no other access to the word; found RMWs %s and other accesses %s" % (b.key, names, [o for _, o in others]), b.span)
        bits_def = None
        for n, o, m, recv in rmws:
            bit = mk_op("<<", ("int", 1), mk_op("%", idx, ("def", "bits::bit_vec::BITS")))
            want = bit if o == "fetch_or" else ("un", "!", bit)
            widx = recv[2][1] if recv[0] == "call" and len(recv[2]) == 2 else None
            want_idx = mk_op("/", idx, ("def", "bits::bit_vec::BITS"))
            rr.instances += 1
            rr.check(m == want and widx == want_idx, "AtomicBitVec::%s:%s-mask" % (nm, o), "%s: %s must use the mask %s on word index/BITS; found mask %s on word %s" % (b.key, o, tshow(want), tshow(m), tshow(widx) if widx else "?"), F.loc(n))
        if nm == "swap_unchecked":
            # returned value is that bit of the RMW's result
            rets = []
            T = None

            def on_node2(W, n, K):
                pass
            W = Walker(F, b)
            W.run()
            # evaluate the tail expression with the final environment
            tail = b.body.get("expr")
            t = W.T.term(tail) if tail is not None else ("unk", "no-tail")
            uses_rmw = mentions(t, lambda x: x[0] == "call" and (x[1].endswith("fetch_or") or x[1].endswith("fetch_and"))) or mentions(t, lambda x: x[0] == "unk" and x[1].startswith("If@"))
            bitpos = mk_op("%", idx, ("def", "bits::bit_vec::BITS"))
            # the bit tested either way: `(w >> k) & 1 != 0` or `w & (1 << k) != 0`
            shape = t[0] == "op" and t[1] == "!=" and (mentions(t, lambda x: x[0] == "op" and x[1] == ">>" and x[3] == bitpos) or mentions(t, lambda x: x[0] == "op" and x[1] == "<<" and x[2] == ("int", 1) and x[3] == bitpos))
            rr.instances += 1
            rr.check(bool(uses_rmw and shape), "AtomicBitVec::swap_unchecked:returns-old-bit", "%s must return bit index%%BITS of the word returned by the RMW itself; found `%s`" % (b.key, tshow(t)[:200]), b.span)


@rule("R13.3", props=["C13", "C03"], floor=2, title="EliasFanoConcurrentBuilder::set writes only through the atomic setters, with the sequential builder's split")
def r13_3(ctx, rr):
    F = ctx.F()
    b = F.one(r"^dict::elias_fano::EliasFanoConcurrentBuilder::set$")
    sb = F.one(r"^dict::elias_fano::EliasFanoBuilder::push_unchecked$")
    writes = []

    def on_node(W, n, K):
        if n.get("k") == "MethodCall" and n["recv"].get("k") == "Field":
            writes.append((n, cname(F, n), n["recv"]["name"], [W.T.term(a) for a in n["args"]]))
    Walker(F, b, on_node=on_node).run()
    low = [w for w in writes if w[2] == "low_bits"]
    high = [w for w in writes if w[2] == "high_bits"]
    rr.instances += 1
    rr.check(len(low) == 1 and low[0][1] == "AtomicBitFieldSlice::set_atomic_unchecked", "ConcurrentBuilder::set:low-writer", "EliasFanoConcurrentBuilder::set must write the low bits exactly once through set_atomic_unchecked; found %s" % [(w[1]) for w in low], b.span)
    rr.instances += 1
    rr.check(len(high) == 1 and high[0][1] == "AtomicBitVec::set", "ConcurrentBuilder::set:high-writer", "EliasFanoConcurrentBuilder::set must set the high bit exactly once through AtomicBitVec::set; found %s" % [(w[1]) for w in high], b.span)
    # split agreement with the sequential builder: low = value & ((1 << l) - 1) at index; high = (value >> l) + index
    swrites = []

    def on_node2(W, n, K):
        if n.get("k") == "MethodCall" and n["recv"].get("k") == "Field" and n["recv"]["name"] in ("low_bits", "high_bits"):
            swrites.append((n, cname(F, n), n["recv"]["name"], [W.T.term(a) for a in n["args"]]))
    Walker(F, sb, on_node=on_node2).run()

    def canon(t, body, pos_name):
        # set(&self, index, value) / push_unchecked(&mut self, value)
        return rename_vars(t, param_roles(body, pos_name), fields={"count": ("var", "index")})
    if low and high and len(swrites) >= 2:
        slow = [w for w in swrites if w[2] == "low_bits"][0]
        shigh = [w for w in swrites if w[2] == "high_bits"][0]
        RB, RS = ["index", "value"], ["value"]
        a = (canon(low[0][3][0], b, RB), canon(low[0][3][1], b, RB))
        s = (canon(slow[3][0], sb, RS), canon(slow[3][1], sb, RS))
        rr.instances += 1
        rr.check(a == s, "ConcurrentBuilder::set~push_unchecked:low", "the concurrent and the sequential builder store different low parts: (%s, %s) vs (%s, %s)" % (tshow(a[0]), tshow(a[1]), tshow(s[0]), tshow(s[1])), b.span)
        ah = canon(high[0][3][0], b, RB)
        sh = canon(shigh[3][0], sb, RS)
        rr.instances += 1
        rr.check(ah == sh, "ConcurrentBuilder::set~push_unchecked:high", "the concurrent and the sequential builder set different high-bit positions: %s vs %s" % (tshow(ah), tshow(sh)), b.span)
    else:
        raise AnchorMissing("could not locate the low/high writes of the two Elias-Fano builders")


@rule("R13.4", props=["C13", "C05"], floor=8, title="a caller-chosen memory ordering is not used both for a load (or a failed compare-exchange) and for a store/read-modify-write: no legal ordering of a setter panics")
def r13_4(ctx, rr):
    """`load` and the failure ordering of `compare_exchange` reject Release/AcqRel, `store` rejects
    Acquire/AcqRel. A function that hands one ordering parameter to both kinds panics for an ordering
    that is legal for what the function does as a whole (set_atomic(.., Release))."""
    F = ctx.F()
    fns = [b for b in F.fns() if not is_derived(b) and b.file.endswith(("bits/bit_vec.rs", "bits/bit_field_vec.rs", "traits/bit_field_slice.rs"))]
    for b in fns:
        ords = [p for p in b.params if p.get("k") == "PBind" and F.types[p["t"]].endswith("atomic::Ordering")]
        if not ords:
            continue
        for p in ords:
            pid = p["id"]

            def is_p(n):
                return n.get("k") == "Path" and n.get("res") == "local" and n.get("id") == pid
            loadlike, storelike = [], []
            for n in walk(b.body):
                if n.get("k") != "MethodCall":
                    continue
                c = F.callee(n) or ""
                if "atomic" not in c and "Atomic" not in c:
                    continue
                nm = n["name"]
                a = n["args"]
                if nm == "load" and a and is_p(a[-1]):
                    loadlike.append(n)
                elif nm in ("compare_exchange", "compare_exchange_weak") and len(a) == 4:
                    if is_p(a[3]):
                        loadlike.append(n)
                    if is_p(a[2]):
                        storelike.append(n)
                elif nm in ("store", "swap") or nm.startswith("fetch_"):
                    if a and is_p(a[-1]):
                        storelike.append(n)
            if not loadlike and not storelike:
                continue
            rr.instances += 1
            ok = not (loadlike and storelike)
            key = "%s:ordering-parameter-both-ways" % short_fn(b.key)
            rr.ob(ok, key=key, sample={"fn": b.key, "loads_with_param": len(loadlike), "stores_with_param": len(storelike)})
            if not ok:
                rr.violate(key, "%s passes its ordering parameter `%s` both to `%s` (a load / failed compare-exchange: Release and AcqRel panic there) and to `%s` (a store or read-modify-write): the call panics for an ordering that is legal for the operation as a whole" % (b.key, p["name"], show(F, loadlike[0])[:60], show(F, storelike[0])[:60]), F.loc(loadlike[0]))
