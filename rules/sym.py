"""Symbolic terms, path facts and a structured path walker over the typed HIR.

Terms are hashable tuples. Integer arithmetic is treated over ideal integers
(no wrap-around); every term is assumed non-negative (the crate's index
arithmetic is all `usize`). Facts on a path are difference constraints
`a - b <= k`, disequalities and boolean atoms; entailment is shortest-path
closure plus a handful of structural axioms (x % m < m, min/max, x / m <= x, ...).
"""
import itertools
from ir import *  # noqa

ZERO = ("zero",)
_unk_counter = itertools.count()

INT_TYPES = {"usize", "u8", "u16", "u32", "u64", "u128", "isize", "i8", "i16", "i32", "i64", "i128"}

INT_WIDTH = {"usize": 64, "u8": 8, "u16": 16, "u32": 32, "u64": 64, "u128": 128, "isize": 64, "i8": 8, "i16": 16, "i32": 32, "i64": 64, "i128": 128}

STD_LEN = ("core::slice::<impl [T]>::len", "alloc::vec::Vec::len", "core::slice::len",
           "std::vec::Vec::len", "alloc::boxed::Box::len", "alloc::string::String::len", "core::str::<impl str>::len")


def cname(F, n):
    """Canonical callee name of a call-like node, or None."""
    c = F.callee(n)
    if c is None:
        return None
    name = n.get("name")
    tr = F.ctrait(n)
    last = strip_generics(c).split("::")[-1]
    if tr:
        return "%s::%s" % (strip_generics(tr).split("::")[-1], last)
    s = strip_generics(c)
    if s.startswith("core::slice::<impl [T]>::"):
        return "slice::" + last
    if s.startswith("alloc::vec::Vec::") or s.startswith("std::vec::Vec::"):
        return "Vec::" + last
    if s.startswith("core::num::<impl "):
        return "int::" + last
    if (s.startswith("core::ptr::") or s.startswith("std::ptr::")) and "<impl" in s:
        return "ptr::" + last
    parts = s.split("::")
    return "::".join(parts[-2:]) if len(parts) >= 2 else s


LEN_NAMES = {"slice::len", "Vec::len"}


DEFAULT_INLINER_FACTORY = None


class Termizer:
    """Converts expression nodes to terms under an environment of immutable-local substitutions."""

    def __init__(self, F, body=None, inline=None):
        self.F = F
        self.env = {}       # local id -> term
        self.mut_locals = set()
        if inline is None and DEFAULT_INLINER_FACTORY is not None and not getattr(F, "_building_inliner", False):
            # every term is computed with the crate's small pure helpers expanded: "extract a helper" and
            # "inline a helper" are then the same program to every rule
            F._building_inliner = True
            try:
                inline = DEFAULT_INLINER_FACTORY(F)
            finally:
                F._building_inliner = False
        self.inline = inline  # optional Inliner
        self.keep_narrowing = False
        self.closures = {}     # local id -> Closure node (for calls of local closures)
        self._cdepth = 0
        self.const_subst = {}  # name of a const generic parameter / constant -> term (to analyse one instantiation)

    def fresh(self, n):
        return ("unk", "%s@%s" % (n.get("k"), n.get("s", next(_unk_counter))))

    def term(self, n):
        F = self.F
        k = n.get("k")
        if k == "Lit":
            if n.get("lk") == "int":
                return ("int", int(n["v"]))
            if n.get("lk") == "bool":
                return ("bool", bool(n["v"]))
            if n.get("lk") == "float":
                return ("float", n["v"])
            return ("lit", str(n.get("v")))
        if k == "Path":
            if n.get("res") == "local":
                lid = n["id"]
                if lid in self.env:
                    return self.env[lid]
                return ("var", n["name"], lid)
            if self.const_subst and (n.get("name") in self.const_subst or n.get("seg") in self.const_subst):
                return self.const_subst.get(n.get("name"), self.const_subst.get(n.get("seg")))
            if n.get("res") == "def":
                dp = F.defpath(n)
                nc = getattr(F, "new_consts", None)
                if nc and dp in nc and self._cdepth < 3:
                    # a constant introduced by an edit stands for its value
                    self._cdepth += 1
                    try:
                        t = Termizer(F, nc[dp]).term(nc[dp].body)
                    finally:
                        self._cdepth -= 1
                    if t[0] != "unk":
                        return t
                return ("def", strip_generics(dp or n.get("name", "?")))
            return ("def", n.get("seg", "?"))
        if k == "Field":
            bt_ = self.term(n["e"])
            if bt_[0] == "tup" and str(n["name"]).isdigit() and int(n["name"]) < len(bt_) - 1:
                return bt_[1 + int(n["name"])]
            return ("field", bt_, n["name"])
        if k == "Index":
            bt = self.term(n["e"])
            it = self.term(n["i"])
            if bt[0] == "arr" and it[0] == "int" and 0 <= it[1] < len(bt) - 1:
                return bt[1 + it[1]]
            return ("index", bt, it)
        if k == "AddrOf":
            return self.term(n["e"])
        if k == "Unary":
            if n["op"] == "*":
                return self.term(n["e"])
            inner_ = self.term(n["e"])
            if n["op"] == "!" and inner_[0] == "op" and inner_[1] == "<<" and _is_allones(inner_[2]):
                # !(MAX << k) is the mask of the low k bits, (1 << k) - 1, for every k below the width
                one = ("def", "common_traits::Number::ONE") if (inner_[2][0] == "def" and "Number" in inner_[2][1]) else ("int", 1)
                return mk_op("-", mk_op("<<", one, inner_[3]), one)
            return ("un", n["op"], inner_)
        if k == "Cast":
            t = F.ty(n)
            inner = self.term(n["e"])
            st = F.ty(n["e"])
            if t in INT_TYPES and (st in INT_TYPES or st == ""):
                if self.keep_narrowing and st in INT_WIDTH and INT_WIDTH.get(t, 64) < INT_WIDTH[st]:
                    return ("cast", t, inner)
                return inner
            return ("cast", t, inner)
        if k == "Binary":
            op = n["op"]
            l = self.term(n["l"])
            r = self.term(n["r"])
            return mk_op(op, l, r)
        if k == "MethodCall" or k == "Call":
            cn = cname(F, n)
            if cn is None:
                if k == "Call":
                    f = n["f"]
                    if f.get("k") == "Path" and f.get("res") == "local" and f.get("id") in self.closures and self._cdepth < 3:
                        c = self.closures[f["id"]]
                        params = c.get("params", [])
                        if len(params) == len(n["args"]) and all(p.get("k") == "PBind" for p in params):
                            saved = {}
                            for p, a in zip(params, n["args"]):
                                saved[p["id"]] = self.env.get(p["id"])
                                self.env[p["id"]] = self.term(a)
                            self._cdepth += 1
                            try:
                                body = c["body"]
                                t = self._closure_body_term(body)
                            finally:
                                self._cdepth -= 1
                                for pid, old in saved.items():
                                    if old is None:
                                        self.env.pop(pid, None)
                                    else:
                                        self.env[pid] = old
                            if t is not None:
                                return t
                    return ("callv", self.term(n["f"]), tuple(self.term(a) for a in n["args"]))
                return self.fresh(n)
            args = tuple(self.term(a) for a in call_args(n))
            return self.mk_call(cn, args, n)
        if k == "Block":
            if "expr" in n and all(_debug_stmt(F, st) for st in n["stmts"]):
                return self.term(n["expr"])
            # leading immutable `let`s and a tail expression: the value with the lets substituted ("hoist a
            # sub-expression into a let" leaves every term unchanged)
            if "expr" in n:
                t = self._closure_body_term(n)
                if t is not None:
                    return t
            return self.fresh(n)
        if k == "Match" and n.get("src") == "Normal":
            st = self.term(n["e"])
            if st[0] == "int":
                for a in n["arms"]:
                    p = a["pat"]
                    if "guard" in a:
                        break
                    if p.get("k") == "PLit" and p.get("lk") == "int" and int(p["v"]) == st[1]:
                        return self.term(a["body"])
                    if p.get("k") == "PRange" and p.get("lo", {}).get("lk") == "int" and p.get("hi", {}).get("lk") == "int":
                        hi = int(p["hi"]["v"]) + (1 if p.get("incl") else 0)
                        if int(p["lo"]["v"]) <= st[1] < hi:
                            return self.term(a["body"])
                        continue
                    if p.get("k") in ("PWild", "PBind"):
                        return self.term(a["body"])
                    if p.get("k") != "PLit":
                        break
            return self.fresh(n)
        if k == "If" and "el" in n and n["c"].get("k") != "Let":
            ct = self.term(n["c"])
            if ct[0] == "bool":
                return self.term(n["th"] if ct[1] else n["el"])
            a = self.term(n["th"])
            b = self.term(n["el"])
            if a[0] != "unk" and b[0] != "unk":
                # one polarity for a two-way choice: `if x != y {A} else {B}` is `if x == y {B} else {A}`
                if ct[0] == "op" and len(ct) == 4 and ct[1] == "!=":
                    return ("ite", mk_op("==", ct[2], ct[3]), b, a)
                if ct[0] == "un" and ct[1] == "!":
                    return ("ite", ct[2], b, a)
                return ("ite", ct, a, b)
            return self.fresh(n)
        if k == "Tup":
            return ("tup",) + tuple(self.term(a) for a in n["es"])
        if k == "Array":
            return ("arr",) + tuple(self.term(a) for a in n["es"])
        if k == "Struct":
            nm = strip_generics(F.defpath(n) or "?")
            return ("struct", nm, tuple((f["name"], self.term(f["e"])) for f in n["fields"]))
        return self.fresh(n)

    def _closure_body_term(self, body):
        """Term of a simple closure body: leading immutable lets followed by a tail expression."""
        if body.get("k") != "Block":
            return self.term(body)
        bound = []
        try:
            for st in body["stmts"]:
                if st.get("k") == "LetStmt" and st["pat"].get("k") == "PBind" and not st["pat"].get("mut") and "init" in st and "els" not in st:
                    bound.append((st["pat"]["id"], self.env.get(st["pat"]["id"])))
                    self.env[st["pat"]["id"]] = self.term(st["init"])
                elif _debug_stmt(self.F, st):
                    continue
                else:
                    return None
            if "expr" not in body:
                return None
            return self.term(body["expr"])
        finally:
            for pid, old in bound:
                if old is None:
                    self.env.pop(pid, None)
                else:
                    self.env[pid] = old

    def _fold_fixed_array(self, n):
        """`a.iter().fold(init, |acc, &x| body)` over an array of a small fixed length: the unrolled expression"""
        F = self.F
        if not (n.get("k") == "MethodCall" and n["name"] == "fold" and len(n.get("args", [])) == 2 and n["args"][1].get("k") == "Closure"):
            return None
        src = n["recv"]
        while src.get("k") == "MethodCall" and src["name"] in ("iter", "into_iter", "copied", "cloned") and not src.get("args"):
            src = src["recv"]
        m = re.match(r"^&*\[.+; (\d+)\]$", (F.ty(src) or "").strip())
        if not m or not 1 <= int(m.group(1)) <= 4:
            return None
        cl = n["args"][1]
        ps = cl.get("params", [])
        if len(ps) != 2 or ps[0].get("k") != "PBind":
            return None
        ep = ps[1]
        while ep.get("k") == "PRef":
            ep = ep["p"]
        if ep.get("k") != "PBind" or self._cdepth >= 3:
            return None
        base = self.term(src)
        acc = self.term(n["args"][0])
        saved = {pid: self.env.get(pid) for pid in (ps[0]["id"], ep["id"])}
        self._cdepth += 1
        try:
            for i in range(int(m.group(1))):
                self.env[ps[0]["id"]] = acc
                self.env[ep["id"]] = base[1 + i] if base[0] == "arr" and len(base) - 1 == int(m.group(1)) else ("index", base, ("int", i))
                acc = self._closure_body_term(cl["body"])
                if acc is None:
                    return None
        finally:
            self._cdepth -= 1
            for pid, old in saved.items():
                if old is None:
                    self.env.pop(pid, None)
                else:
                    self.env[pid] = old
        return acc

    def mk_call(self, cn, args, n):
        if n is not None and n.get("k") == "MethodCall" and n.get("name") == "fold":
            t_ = self._fold_fixed_array(n)
            if t_ is not None:
                return t_
        # transparent conversions
        if cn in ("Borrow::borrow", "Deref::deref", "Clone::clone", "Into::into", "From::from",
                  "DerefMut::deref_mut", "BorrowMut::borrow_mut", "Option::copied", "CastableInto::cast",
                  "UpcastableInto::upcast", "DowncastableInto::downcast", "DowncastableFrom::downcast_from", "UpcastableFrom::upcast_from", "CastableFrom::cast_from", "AsRef::as_ref", "AsMut::as_mut",
                  "Vec::as_slice", "Vec::as_mut_slice", "ToOwned::to_owned", "Vec::into_boxed_slice", "Box::into_vec", "slice::to_vec") and len(args) == 1:
            return args[0]
        if cn in LEN_NAMES:
            return ("call", "len", args)
        if cn in ("Ord::min", "int::min", "cmp::min") and len(args) == 2:
            return mk_op("min", args[0], args[1])
        if cn in ("Ord::max", "int::max", "cmp::max") and len(args) == 2:
            return mk_op("max", args[0], args[1])
        if cn in ("int::wrapping_add",) and len(args) == 2:
            return mk_op("+", args[0], args[1])
        # checked arithmetic that panics on overflow is the same value over ideal integers
        if cn in ("Option::expect", "Option::unwrap") and args and args[0][0] == "call" and args[0][1] in ("int::checked_mul", "int::checked_add", "int::checked_sub") and len(args[0][2]) == 2:
            return mk_op({"int::checked_mul": "*", "int::checked_add": "+", "int::checked_sub": "-"}[args[0][1]], args[0][2][0], args[0][2][1])
        if cn in ("slice::is_empty", "Vec::is_empty") and len(args) == 1:
            return ("isempty", args[0])
        if self.inline is not None:
            t = self.inline.try_inline(cn, args, n, self)
            if t is not None:
                return t
        return ("call", cn, args)


def _debug_stmt(F, st):
    if st.get("k") == "If" and st["c"].get("k") == "Lit" and "cfg" in F.mac(st["c"]):
        return True
    return is_debug_only(F, st)


COMMUTATIVE = {"+", "*", "&", "|", "^", "min", "max", "==", "!=", "&&", "||"}


POW2_DEFS = set()      # constants of the crate whose value is a power of two (filled when the facts are loaded)


def _pow2_def(t):
    return t[0] == "def" and (t[1].endswith("BITS") or t[1] in POW2_DEFS)


def mk_op(op, l, r):
    # shifting by lg of the word size / masking with the word size minus one are division, multiplication and
    # remainder by the word size
    if op in (">>", "<<") and r[0] == "call" and r[1] == "int::ilog2" and len(r[2]) == 1 and _pow2_def(r[2][0]):
        return mk_op("/" if op == ">>" else "*", l, r[2][0])
    if op == "&":
        for a_, b_ in ((l, r), (r, l)):
            if b_[0] == "op" and b_[1] == "-" and len(b_) == 4 and _pow2_def(b_[2]) and b_[3] == ("int", 1):
                return mk_op("%", a_, b_[2])

    if op == "^":
        # `x ^ 0` is x (the start value of a fold)
        for a_, b_ in ((l, r), (r, l)):
            if b_ == ("int", 0) or b_ == ZERO or (b_[0] == "def" and b_[1].endswith("Number::ZERO")):
                return a_
    if op == "*":
        # `x * (1 << k)` is `x << k`
        for a_, b_ in ((l, r), (r, l)):
            if b_[0] == "op" and len(b_) == 4 and b_[1] == "<<" and b_[2] == ("int", 1) and not (a_[0] == "op" and len(a_) == 4 and a_[1] == "<<" and a_[2] == ("int", 1)):
                return mk_op("<<", a_, b_[3])
    z = ("int", 0)
    if op in ("+", "|", "^") and l == z:
        return r
    if op in ("+", "|", "^", "-", "<<", ">>") and r == z:
        return l
    if op in ("*", "&") and (l == z or r == z):
        return z
    if op in ("<<", ">>") and l == z:
        return z
    if op == "*" and l == ("int", 1):
        return r
    if op == "*" and r == ("int", 1):
        return l
    if op == "+" or op == "-":
        # fold integer literals: (x + a) + b
        if r[0] == "int" and l[0] == "int":
            return ("int", l[1] + r[1] if op == "+" else l[1] - r[1])
        if op == "+" and l[0] == "int":
            l, r = r, l
    if op == "*" and l[0] == "int" and r[0] == "int":
        return ("int", l[1] * r[1])
    if op == "<<" and l[0] == "int" and r[0] == "int" and r[1] < 200:
        return ("int", l[1] << r[1])
    if op == "+":
        # canonical sums: flatten, add the integer literals up, sort the other addends, literal last
        adds = _flatten_sum(l) + _flatten_sum(r)
        k = sum(a[1] for a in adds if a[0] == "int")
        rest = sorted((a for a in adds if a[0] != "int"), key=repr)
        if not rest:
            return ("int", k)
        t = rest[0]
        for a in rest[1:]:
            t = ("op", "+", t, a)
        if k:
            t = ("op", "+", t, ("int", k))
        return t
    if op in COMMUTATIVE:
        if repr(l) > repr(r):
            l, r = r, l
    return ("op", op, l, r)


def _flatten_sum(t):
    if t[0] == "op" and t[1] == "+":
        return _flatten_sum(t[2]) + _flatten_sum(t[3])
    return [t]


def _unused():
    return None


def lin(t):
    """term -> (base, offset) with integer literal offsets pulled out."""
    if t[0] == "int":
        return (ZERO, t[1])
    off = 0
    while t[0] == "op" and t[1] in ("+", "-") and t[3][0] == "int":
        off += t[3][1] if t[1] == "+" else -t[3][1]
        t = t[2]
    if t[0] == "int":
        return (ZERO, t[1] + off)
    return (t, off)


def mentions(t, pred):
    if not isinstance(t, tuple) or not t:
        return False
    if isinstance(t[0], str) and pred(t):
        return True
    for x in t:
        if isinstance(x, tuple) and mentions(x, pred):
            return True
    return False


def normalize(t):
    """Rebuild a term bottom-up through mk_op (restores commutative ordering after renaming)."""
    if not isinstance(t, tuple) or not t:
        return t
    if t[0] == "op" and len(t) == 4:
        return mk_op(t[1], normalize(t[2]), normalize(t[3]))
    return tuple(normalize(x) if isinstance(x, tuple) else x for x in t)


def rename_vars(t, ren, fields=None):
    """Rename variables by base id (ren: id -> name) and optionally whole field terms
    (fields: (field name) -> replacement term); result is normalized."""
    def r(t):
        if not isinstance(t, tuple) or not t:
            return t
        if t[0] == "var":
            base = str(t[2]).split("#")[0]
            return ("var", ren.get(base, t[1]))
        if fields and t[0] == "field" and t[2] in fields:
            return fields[t[2]]
        return tuple(r(x) if isinstance(x, tuple) else x for x in t)
    return normalize(r(t))


def param_names(body):
    ren = {}
    for p in body.params:
        if p.get("k") == "PBind":
            ren[str(p["id"])] = p["name"]
    return ren


def param_roles(body, roles=None):
    """id -> role name for the parameters of a body, by *position* (`self` apart), so that renaming a
    parameter changes nothing: roles[i] names the i-th non-self parameter (default p1, p2, ...)."""
    ren = {}
    i = 0
    for p in body.params:
        if p.get("k") != "PBind":
            i += 0 if p.get("k") is None else 1
            continue
        if p["name"] == "self":
            ren[str(p["id"])] = "self"
            continue
        ren[str(p["id"])] = roles[i] if roles and i < len(roles) else "p%d" % (i + 1)
        i += 1
    return ren


def rewrite_term(t, old, new):
    if t == old:
        return new
    if not isinstance(t, tuple):
        return t
    changed = False
    out = []
    for x in t:
        if isinstance(x, tuple):
            y = rewrite_term(x, old, new)
            if y is not x:
                changed = True
            out.append(y)
        else:
            out.append(x)
    return tuple(out) if changed else t


def rewrite_atom(a, old, new):
    if a[0] in ("le", "ne"):
        A = rewrite_term(a[1], old, new)
        B = rewrite_term(a[2], old, new)
        if A is a[1] and B is a[2]:
            return a
        # re-linearise (the rewritten side may expose offsets)
        return (a[0], A, B, a[3])
    if a[0] == "b":
        return ("b", rewrite_term(a[1], old, new), a[2])
    return a


def subterms(t):
    yield t
    if isinstance(t, tuple):
        for x in t:
            if isinstance(x, tuple):
                yield from subterms(x)


def place_of(t):
    """A place is a var or a chain of fields/indices on a var; returns the root-to-leaf tuple or None."""
    if t[0] == "var":
        return t
    if t[0] == "field":
        return t
    return None


def tshow(t):
    if not isinstance(t, tuple):
        return str(t)
    h = t[0]
    if h == "int":
        return str(t[1])
    if h == "zero":
        return "0"
    if h == "var":
        return t[1]
    if h == "def":
        return "::".join(t[1].split("::")[-2:])
    if h == "field":
        return "%s.%s" % (tshow(t[1]), t[2])
    if h == "index":
        return "%s[%s]" % (tshow(t[1]), tshow(t[2]))
    if h == "op":
        if t[1] in ("min", "max"):
            return "%s(%s, %s)" % (t[1], tshow(t[2]), tshow(t[3]))
        return "(%s %s %s)" % (tshow(t[2]), t[1], tshow(t[3]))
    if h == "un":
        return "%s%s" % (t[1], tshow(t[2]))
    if h == "call":
        return "%s(%s)" % (t[1], ", ".join(tshow(a) for a in t[2]))
    if h == "isempty":
        return "is_empty(%s)" % tshow(t[1])
    if h == "cast":
        return "(%s as %s)" % (tshow(t[2]), t[1])
    if h == "unk":
        return "<%s>" % t[1]
    if h == "ite":
        return "(if %s {%s} else {%s})" % (tshow(t[1]), tshow(t[2]), tshow(t[3]))
    if h == "bool":
        return str(t[1]).lower()
    if h == "tup":
        return "(" + ", ".join(tshow(a) for a in t[1:]) + ")"
    if h == "arr":
        return "[" + ", ".join(tshow(a) for a in t[1:]) + "]"
    if h == "struct":
        return "%s{%s}" % (t[1].split("::")[-1], ", ".join("%s: %s" % (a, tshow(b)) for a, b in t[2]))
    return str(t)


# ----------------------------------------------------------------------------
# atoms

def atom_le(a, b, strict=False):
    """a <= b (or a < b): returns ('le', A, B, k) meaning A - B <= k."""
    A, ka = lin(a)
    B, kb = lin(b)
    k = kb - ka - (1 if strict else 0)
    return ("le", A, B, k)


def atom_ne(a, b):
    A, ka = lin(a)
    B, kb = lin(b)
    # A + ka != B + kb  <=>  A - B != kb - ka
    if repr(A) > repr(B):
        return ("ne", B, A, ka - kb)
    return ("ne", A, B, kb - ka)


def cmp_atoms(op, a, b, positive=True):
    """Atoms implied by `a op b` being true (positive) or false."""
    if not positive:
        op = {"<": ">=", "<=": ">", ">": "<=", ">=": "<", "==": "!=", "!=": "=="}[op]
    if op == "<":
        return [atom_le(a, b, True)]
    if op == "<=":
        return [atom_le(a, b)]
    if op == ">":
        return [atom_le(b, a, True)]
    if op == ">=":
        return [atom_le(b, a)]
    if op == "==":
        return [atom_le(a, b), atom_le(b, a)]
    if op == "!=":
        return [atom_ne(a, b)]
    return []


def ashow(a):
    if a[0] == "le":
        _, A, B, k = a
        if k == 0:
            return "%s <= %s" % (tshow(A), tshow(B))
        if k == -1:
            return "%s < %s" % (tshow(A), tshow(B))
        if k < 0:
            return "%s + %d <= %s" % (tshow(A), -k, tshow(B))
        return "%s <= %s + %d" % (tshow(A), tshow(B), k)
    if a[0] == "ne":
        _, A, B, d = a
        return "%s != %s%s" % (tshow(A), tshow(B), (" + %d" % d) if d else "")
    if a[0] == "b":
        return ("" if a[2] else "!") + tshow(a[1])
    return str(a)


class Known:
    """Set of atoms true on the current path, plus disjunctions (`ors`): each a tuple of
    alternatives, each alternative a tuple of atoms, at least one of which holds."""

    def __init__(self, atoms=None, ors=None):
        self.atoms = set(atoms) if atoms else set()
        self.ors = list(ors) if ors else []

    def copy(self):
        return Known(self.atoms, self.ors)

    def add(self, atoms):
        for a in atoms:
            if a[0] == "or":
                alts = tuple(tuple(x) for x in a[1])
                if alts not in self.ors and len(self.ors) < 4:
                    self.ors.append(alts)
                continue
            self.atoms.add(a)
            # boolean consequences
            if a[0] == "b" and a[1][0] == "isempty":
                ln = ("call", "len", (a[1][1],))
                if a[2]:
                    self.atoms.add(atom_le(ln, ("int", 0)))
                else:
                    self.atoms.add(atom_le(("int", 1), ln))

    def cases(self):
        """Known objects without disjunctions, one per combination of alternatives (at most 16)."""
        out = [Known(self.atoms)]
        for alts in self.ors:
            nxt = []
            for k in out:
                for alt in alts:
                    k2 = Known(k.atoms)
                    k2.add(alt)
                    nxt.append(k2)
            out = nxt[:16]
        return out

    def kill(self, pred):
        self.atoms = {a for a in self.atoms if not any(mentions(t, pred) for t in a[1:3] if isinstance(t, tuple))}
        self.ors = [alts for alts in self.ors if not any(mentions(t, pred) for alt in alts for a in alt for t in a[1:3] if isinstance(t, tuple))]

    def meet(self, other):
        """Facts holding on both paths."""
        return Known(self.atoms & other.atoms)

    # --- entailment
    def _edges(self, extra_terms):
        edges = {}  # (from,to) -> weight ; constraint A - B <= k is edge B -> A weight k

        def add(A, B, k):
            key = (B, A)
            if key not in edges or edges[key] > k:
                edges[key] = k
        nodes = set()
        for a in self.atoms:
            if a[0] == "le":
                add(a[1], a[2], a[3])
                nodes.add(a[1])
                nodes.add(a[2])
            elif a[0] == "ne":
                nodes.add(a[1])
                nodes.add(a[2])
        for t in extra_terms:
            nodes.add(t)
        # structural axioms, closing over sub-terms (bounded)
        seen = set()
        work = list(nodes)
        while work:
            t = work.pop()
            if t in seen or len(seen) > 400:
                continue
            seen.add(t)
            if t != ZERO:
                add(ZERO, t, 0)  # 0 - t <= 0
            new = []
            if t[0] == "op":
                op, x, y = t[1], t[2], t[3]
                X, kx = lin(x)
                Y, ky = lin(y)
                if op == "%":
                    add(t, Y, ky - 1)          # t < y
                    add(t, X, kx)              # t <= x
                    new += [X, Y]
                elif op == "min":
                    add(t, X, kx)
                    add(t, Y, ky)
                    new += [X, Y]
                elif op == "max":
                    add(X, t, -kx)
                    add(Y, t, -ky)
                    new += [X, Y]
                elif op in ("/", ">>"):
                    add(t, X, kx)
                    new += [X]
                elif op == "&":
                    add(t, X, kx)
                    add(t, Y, ky)
                    new += [X, Y]
                elif op == "-":
                    add(t, X, kx)
                    new += [X]
                elif op == "+":
                    add(X, t, -kx)
                    add(Y, t, -ky)
                    new += [X, Y]
                elif op == "*":
                    # x * c with literal c >= 1: x <= t
                    if y[0] == "int" and y[1] >= 1:
                        add(X, t, -kx)
                        new += [X]
                    elif x[0] == "int" and x[1] >= 1:
                        add(Y, t, -ky)
                        new += [Y]
            elif t[0] == "call" and t[1] in ("int::saturating_sub",) and len(t[2]) == 2:
                X, kx = lin(t[2][0])
                add(t, X, kx)
                new += [X]
            for x in new:
                if x not in seen:
                    work.append(x)
        return edges, seen

    def _dist(self, edges, src, dst):
        dist = {src: 0}
        # Bellman-Ford, few nodes
        nodes = set()
        for (u, v) in edges:
            nodes.add(u)
            nodes.add(v)
        for _ in range(min(len(nodes) + 1, 60)):
            changed = False
            for (u, v), w in edges.items():
                if u in dist and (v not in dist or dist[v] > dist[u] + w):
                    dist[v] = dist[u] + w
                    changed = True
            if not changed:
                break
        return dist.get(dst)

    def entails(self, goal):
        if goal in self.atoms:
            return True
        if self.ors:
            if Known(self.atoms).entails(goal):
                return True
            return all(k.entails(goal) for k in self.cases())
        if goal[0] == "b":
            return False
        if goal[0] == "le":
            _, A, B, k = goal
            if A == B:
                return k >= 0
            edges, _ = self._edges([A, B])
            # strengthen with disequalities
            for _ in range(3):
                changed = False
                for a in self.atoms:
                    if a[0] == "ne":
                        _, P, Q, d = a
                        dpq = self._dist(edges, Q, P)   # P - Q <= dpq
                        if dpq is not None and dpq == d:
                            edges[(Q, P)] = d - 1
                            changed = True
                        dqp = self._dist(edges, P, Q)   # Q - P <= dqp
                        if dqp is not None and dqp == -d:
                            edges[(P, Q)] = -d - 1
                            changed = True
                if not changed:
                    break
            d = self._dist(edges, B, A)
            return d is not None and d <= k
        if goal[0] == "ne":
            _, A, B, d = goal
            if self.entails(("le", A, B, d - 1)) or self.entails(("le", B, A, -d - 1)):
                return True
            return False
        return False

    def show(self):
        out = sorted(ashow(a) for a in self.atoms)
        for alts in self.ors:
            out.append("(" + " or ".join(" and ".join(ashow(a) for a in alt) for alt in alts) + ")")
        return out


def cond_atoms(T, n, positive=True):
    """Atoms implied by the boolean expression n being true/false (sound under-approximation)."""
    k = n.get("k")
    if k == "Unary" and n["op"] == "!":
        return cond_atoms(T, n["e"], not positive)
    if k == "Binary":
        op = n["op"]
        if op in ("<", "<=", ">", ">=", "==", "!="):
            if "callee" in n and T.F.ty(n["l"]) not in INT_TYPES and not _intlike(T.F, n["l"]):
                # overloaded comparison on non-integers: keep as opaque boolean
                t = T.term(n)
                return [("b", t, positive)]
            return cmp_atoms(op, T.term(n["l"]), T.term(n["r"]), positive)
        if op == "&&":
            if positive:
                return cond_atoms(T, n["l"], True) + cond_atoms(T, n["r"], True)
            return _mk_or(cond_atoms(T, n["l"], False), cond_atoms(T, n["r"], False))
        if op == "||":
            if not positive:
                return cond_atoms(T, n["l"], False) + cond_atoms(T, n["r"], False)
            return _mk_or(cond_atoms(T, n["l"], True), cond_atoms(T, n["r"], True))
    if k == "Block" and not n["stmts"] and "expr" in n:
        return cond_atoms(T, n["expr"], positive)
    if k == "Lit" and n.get("lk") == "bool":
        return []
    if k == "Let":
        return []
    # anyhow's `ensure!(c)` tests `__private::not(c)`: a negation written as a call
    if k == "Call" and len(n.get("args", [])) == 1 and (cname(T.F, n) or "").endswith("__private::not"):
        return cond_atoms(T, n["args"][0], not positive)
    t = T.term(n)
    return term_cond_atoms(t, positive)


def term_cond_atoms(t, positive=True):
    """the same for a boolean *term* (a condition that was first bound to a local: `let found = a < b; if found ..`)"""
    if t[0] == "op" and len(t) == 4 and t[1] in ("<", "<=", ">", ">=", "==", "!=") and not any(x[0] in ("float", "lit") for x in (t[2], t[3])):
        return cmp_atoms(t[1], t[2], t[3], positive)
    if t[0] == "un" and t[1] == "!":
        return term_cond_atoms(t[2], not positive)
    if t[0] == "op" and len(t) == 4 and t[1] == "&&":
        return (term_cond_atoms(t[2], True) + term_cond_atoms(t[3], True)) if positive else _mk_or(term_cond_atoms(t[2], False), term_cond_atoms(t[3], False))
    if t[0] == "op" and len(t) == 4 and t[1] == "||":
        return (term_cond_atoms(t[2], False) + term_cond_atoms(t[3], False)) if not positive else _mk_or(term_cond_atoms(t[2], True), term_cond_atoms(t[3], True))
    if t[0] == "bool":
        return []
    return [("b", t, positive)]


def _mk_or(a, b):
    """A disjunction of two conjunctions of plain atoms (nested disjunctions are flattened when a side
    is itself a single disjunction; otherwise the information is dropped)."""
    def alts(x):
        if len(x) == 1 and x[0][0] == "or":
            return list(x[0][1])
        if any(y[0] == "or" for y in x) or not x:
            return None
        return [tuple(x)]
    A, B = alts(a), alts(b)
    if A is None or B is None:
        return []
    return [("or", tuple(A + B))]


def _intlike(F, n):
    t = F.ty(n)
    return t in INT_TYPES or t in ("W", "V", "T") or t.endswith("::Output") or t.endswith("::Input")


# ----------------------------------------------------------------------------
# path walker

def stable_fields(F):
    """Field names that are never assigned, op-assigned, &mut-borrowed or used as the receiver of a
    `&mut self` method anywhere in the crate (only initialised in struct literals)."""
    c = getattr(F, "_stable_fields", None)
    if c is not None:
        return c
    allf = set()
    for a in F.adts.values():
        for v in a["variants"]:
            for f in v["fields"]:
                allf.add(f["name"])
    mut = set()
    for b in F.fns():
        for n in walk(b.body):
            k = n.get("k")
            tgt = None
            if k in ("Assign", "AssignOp"):
                tgt = n["l"]
            elif k == "AddrOf" and n.get("mut"):
                tgt = n["e"]
            elif k == "MethodCall" and F.tya(n["recv"]).startswith("&mut"):
                tgt = n["recv"]
            while tgt is not None and tgt.get("k") in ("Field", "Index", "Unary"):
                if tgt["k"] == "Field":
                    mut.add(tgt["name"])
                tgt = tgt["e"]
    F._stable_fields = allf - mut
    return F._stable_fields


def _stable_place(x, stable):
    """x is a chain of never-mutated fields on a variable."""
    if x[0] != "field":
        return False
    while x[0] == "field":
        if x[2] not in stable:
            return False
        x = x[1]
    return x[0] == "var"


class Walker:
    """Walks a body in evaluation order maintaining Known facts and the symbolic value of every
    local (immutable or mutable). Locals assigned on only some paths get a fresh version at the
    join; fields and indexed places are handled by killing the facts that mention them.
    `on_node(walker, node, known)` is called for every expression node after its operands."""

    def __init__(self, F, body, on_node=None, inline=None, assume=None):
        self.F = F
        self.b = body
        self.T = Termizer(F, body, inline=inline)
        self.on_node = on_node
        self.on_if = None
        self.in_unsafe_fn = body.unsafe
        self.closure_depth = 0
        self.debug_depth = 0
        self.version = itertools.count(1)
        self.loop_stack = []
        self.snap_defs = {}
        self.local_ty = {}
        self.opaque_names = {}   # local name -> term to bind instead of the initializer's value
        self.opaque_ids = {}     # binding id (parameter or local) -> term to bind instead of its value
        self.opaque_all = False  # every immutable binding stays a named variable; on_let(pattern, value) is told its value
        self.on_let = None
        for p in body.params:
            if p.get("k") == "PBind" and (p.get("mut") or F.types[p["t"]].startswith("&mut")):
                self.T.mut_locals.add(p["id"])
        self.start = Known(assume or [])
        self.stable = stable_fields(F)

    def run(self):
        k = self.start.copy()
        for p in self.b.params:
            if p.get("k") == "PBind" and p["id"] in self.opaque_ids:
                self.T.env[p["id"]] = self.opaque_ids[p["id"]]
        self.walk(self.b.body, k)
        return self

    def expand(self, t, depth=0):
        """Replace snapshot variables by the value they stood for when they were taken."""
        if not isinstance(t, tuple) or not t or depth > 8:
            return t
        if t in self.snap_defs:
            return self.expand(self.snap_defs[t], depth + 1)
        return tuple(self.expand(x, depth) if isinstance(x, tuple) else x for x in t)

    # ---- versions of locals
    def havoc_local(self, lid, name="v"):
        self.T.env[lid] = ("var", name, "%s#%d" % (lid, next(self.version)))

    def local_ids_assigned(self, n):
        """ids of locals that are assigned, op-assigned, &mut-borrowed or used as a `&mut self` receiver in n."""
        out = {}
        F = self.F

        def root_local(x):
            while x.get("k") in ("Field", "Index", "Unary", "AddrOf"):
                x = x["e"]
            if x.get("k") == "Path" and x.get("res") == "local":
                return x
            return None
        for x in walk(n):
            k = x.get("k")
            tgt = None
            if k in ("Assign", "AssignOp"):
                if x["l"].get("k") == "Path":
                    tgt = root_local(x["l"])
            elif k == "AddrOf" and x.get("mut"):
                if x["e"].get("k") == "Path":
                    tgt = root_local(x["e"])
            elif k == "MethodCall" and F.tya(x["recv"]).startswith("&mut"):
                if x["recv"].get("k") == "Path" and not F.ty(x["recv"]).startswith("&mut"):
                    tgt = root_local(x["recv"])
            if tgt is not None:
                out[tgt["id"]] = tgt["name"]
        return out

    # ---- kills for fields / indexed places
    def kill_place(self, K, t):
        root = t
        while root[0] in ("field", "index"):
            root = root[1]
        stable = self.stable

        def pred(x):
            if x == t:
                return True
            if _stable_place(x, stable):
                return False
            if x[0] in ("field", "index") and (_prefix(t, x) or (_prefix(x, t))):
                return True
            if t[0] != "var" and x[0] in ("call", "isempty", "callv") and mentions(x, lambda y: y == root):
                return True
            return False
        self._snapshot_locals(K, pred)
        K.kill(pred)

    def kill_root(self, K, t):
        """A &mut borrow of place t escapes: forget the contents of t (and of places overlapping it)
        and every accessor call on the root variable; disjoint sibling fields survive."""
        root = t
        while root[0] in ("field", "index"):
            root = root[1]
        if root[0] != "var":
            return
        stable = self.stable

        def pred(x):
            if _stable_place(x, stable):
                return False
            if x[0] in ("field", "index"):
                if t[0] == "var":
                    return mentions(x, lambda y: y == root)
                return _prefix(t, x) or _prefix(x, t)
            if x[0] in ("call", "isempty", "callv"):
                return mentions(x, lambda y: y == root)
            return False
        self._snapshot_locals(K, pred)
        K.kill(pred)

    def _snapshot_locals(self, K, pred):
        """Locals whose symbolic value mentions a place about to be killed keep their identity:
        the value is replaced by a fresh variable everywhere (facts and other locals), so facts
        about the local survive the mutation of the state it was computed from."""
        items = [(lid, tt) for lid, tt in self.T.env.items() if tt[0] != "var" and not self.local_ty.get(lid, "").startswith("&") and mentions(tt, pred)]
        items.sort(key=lambda x: -len(repr(x[1])))
        for lid, tt in items:
            cur = self.T.env.get(lid)
            if cur is None or cur[0] == "var" or not mentions(cur, pred):
                continue
            v = ("var", "snap", "%s#%d" % (lid, next(self.version)))
            self.snap_defs[v] = cur
            K.atoms = {rewrite_atom(a, cur, v) for a in K.atoms}
            for l2, t2 in list(self.T.env.items()):
                if l2 != lid and mentions(t2, lambda x: x == cur):
                    self.T.env[l2] = rewrite_term(t2, cur, v)
            self.T.env[lid] = v

    def assigned_places(self, n):
        """Field/index places assigned (or &mut-borrowed / mutated through a &mut self call) anywhere inside n."""
        out = []
        for x in walk(n):
            k = x.get("k")
            if k in ("Assign", "AssignOp"):
                if x["l"].get("k") != "Path":
                    out.append(("place", self.T.term(x["l"])))
            elif k == "AddrOf" and x.get("mut"):
                out.append(("root", self.T.term(x["e"])))
            elif k == "MethodCall":
                ta = self.F.tya(x["recv"])
                if ta.startswith("&mut"):
                    out.append(("root", self.T.term(x["recv"])))
            elif k == "Call":
                for a in x["args"]:
                    if self.F.ty(a).startswith("&mut") and a.get("k") == "Path":
                        out.append(("root", self.T.term(a)))
        return out

    def apply_kills(self, K, kills):
        for kind, t in kills:
            if t[0] not in ("var", "field", "index"):
                continue
            if kind == "place":
                self.kill_place(K, t)
            else:
                self.kill_root(K, t)
                if t[0] != "var":
                    self.kill_place(K, t)

    def bind_pat(self, p, term, K, mutable_ok=True):
        k = p.get("k")
        if k == "PBind":
            self.local_ty[p["id"]] = self.F.types[p["t"]]
            if p.get("mut") or self.F.types[p["t"]].startswith("&mut"):
                self.T.mut_locals.add(p["id"])
            if p["id"] in self.opaque_ids:
                self.T.env[p["id"]] = self.opaque_ids[p["id"]]
            elif p["name"] in self.opaque_names:
                self.T.env[p["id"]] = self.opaque_names[p["name"]]
            elif term is None:
                self.T.env.pop(p["id"], None)
            elif self.opaque_all and not p.get("mut") and not self.F.types[p["t"]].startswith("&") and term[0] not in ("var", "int", "def", "field") and p["name"] not in getattr(self, "transparent_names", ()):
                self.T.env[p["id"]] = ("var", p["name"], p["id"])
                if self.on_let is not None:
                    self.on_let(p, term)
            else:
                self.T.env[p["id"]] = term
        elif k == "PTuple" and term is not None and term[0] == "tup" and len(term) - 1 == len(p["ps"]):
            for q, t in zip(p["ps"], term[1:]):
                self.bind_pat(q, t, K)
        elif k == "PTuple" and term is not None and term[0] == "ite" and _ite_tuple_arity(term) == len(p["ps"]):
            for i, q in enumerate(p["ps"]):
                self.bind_pat(q, _ite_project(term, i), K)
        elif k == "PRef":
            self.bind_pat(p["p"], term, K)
        elif k == "PSlice" and term is not None and not p.get("post") and "mid" not in p and all(q.get("k") in ("PBind", "PWild") for q in p.get("ps", [])):
            # `let [a, b, c] = e`: the elements of the array value
            for i, q in enumerate(p["ps"]):
                if q.get("k") == "PBind":
                    el = term[1 + i] if term[0] == "arr" and len(term) - 1 == len(p["ps"]) else ("index", term, ("int", i))
                    self.bind_pat(q, el, K)
        elif k == "PTuple" and term is not None and term[0] == "call" and all(q.get("k") in ("PBind", "PWild") for q in p["ps"]):
            # `let (a, b) = f(..)`: the bindings are the projections of the call's value
            for i, q in enumerate(p["ps"]):
                if q.get("k") == "PBind":
                    self.bind_pat(q, ("field", term, str(i)), K)
        else:
            self.bind_pat_opaque(p)

    def _killable(self, term):
        ml = self.T.mut_locals
        stable = self.stable

        def pred(x):
            if x[0] in ("field", "index", "call", "isempty") and not _stable_place(x, stable):
                return mentions(x, lambda y: y[0] == "var" and str(y[2]).split("#")[0] in ml)
            return False
        return mentions(term, pred)

    def bind_pat_opaque(self, p):
        for name, lid in pat_bindings(p):
            self.T.env.pop(lid, None)

    # ---- the walk
    def walk(self, n, K):
        """Returns True if n certainly diverges. K is updated in place to the facts after n."""
        F = self.F
        k = n.get("k")
        if k == "Block":
            for s in n["stmts"]:
                if self.walk(s, K):
                    return True
            if "expr" in n:
                return self.walk(n["expr"], K)
            return False
        if k == "LetStmt":
            if "init" in n:
                if n["init"].get("k") == "Closure" and n["pat"].get("k") == "PBind":
                    self.T.closures[n["pat"]["id"]] = n["init"]
                if self.walk(n["init"], K):
                    return True
                term = self.T.term(n["init"])
                if term[0] == "unk" and n["init"].get("k") == "Block" and n["init"].get("stmts") and "expr" in n["init"] and not any(x.get("k") in ("Ret", "Break", "Continue") for x in walk(n["init"])):
                    # a block whose statements have just been walked (their effects are in the environment): its
                    # value is its tail expression as it stands now
                    tail = self.T.term(n["init"]["expr"])
                    if tail[0] != "unk":
                        term = tail
                if "els" in n:
                    saved = dict(self.T.env)
                    self.walk(n["els"], K.copy())
                    self.T.env = saved
                    term = None
                self.bind_pat(n["pat"], term, K)
            else:
                self.bind_pat(n["pat"], None, K)
            return False
        if k == "If":
            return self.walk_if(n, K)
        if k == "Loop":
            return self.walk_loop(n, K)
        if k == "Match":
            return self.walk_match(n, K)
        if k == "MethodCall":
            self._closure_context(n, K)
        if k == "Closure":
            K2 = K.copy()
            saved = dict(self.T.env)
            for p in n.get("params", []):
                self.bind_pat_opaque(p)
            ctx_ = getattr(self, "_cl_ctx", {}).pop(id(n), None)
            if ctx_:
                # what is known about the closure's parameters / when it runs (see _closure_context)
                for pid, nm, lo, hi in ctx_.get("ranges", []):
                    v = ("var", nm, pid)
                    self.T.env.pop(pid, None)
                    K2.add([atom_le(lo, v), atom_le(v, hi, True)])
                K2.add(ctx_.get("atoms", []))
            self.closure_depth += 1
            self.walk(n["body"], K2)
            self.closure_depth -= 1
            assigned = self.local_ids_assigned(n["body"])
            self.T.env = saved
            for lid, nm in assigned.items():
                if lid in saved or True:
                    self.havoc_local(lid, nm)
            return False
        if k in ("Assign", "AssignOp"):
            if self.walk(n["r"], K):
                return True
            self.visit_subexprs(n["l"], K)
            if n["l"].get("k") in ("Index", "Field", "Unary"):
                self.notify(n["l"], K)
            l = n["l"]
            rt = self.T.term(n["r"])
            self.notify(n, K)
            if l.get("k") == "Path" and l.get("res") == "local":
                lid = l["id"]
                if k == "Assign":
                    self.T.env[lid] = rt
                else:
                    old = self.T.term(l)
                    self.T.env[lid] = mk_op(n["op"].rstrip("="), old, rt)
                return False
            lt = self.T.term(l)
            if lt[0] in ("var", "field", "index"):
                self.kill_place(K, lt)
                if k == "Assign" and not mentions(rt, lambda x: x == lt):
                    K.add(cmp_atoms("==", lt, rt))
            return False
        if k in ("Ret", "Break", "Continue"):
            if "e" in n:
                self.walk(n["e"], K)
            self.notify(n, K)
            return True
        if k == "Let":
            self.walk(n["init"], K)
            return False
        if k == "Binary" and n["op"] in ("&&", "||"):
            if self.walk(n["l"], K):
                return True
            K2 = K.copy()
            K2.add(cond_atoms(self.T, n["l"], n["op"] == "&&"))
            self.walk(n["r"], K2)
            return False
        for c in kids(n):
            if self.walk(c, K):
                return True
        self.notify(n, K)
        # effects of calls taking &mut
        if k == "MethodCall":
            ta = F.tya(n["recv"])
            if ta.startswith("&mut"):
                self._escape(n["recv"], K)
            for a in n["args"]:
                self._mut_arg(a, K)
        elif k == "Call":
            for a in n["args"]:
                self._mut_arg(a, K)
        if is_panic_call(F, n) or F.ty(n) == "!":
            return True
        return False

    def _escape(self, e, K):
        """The place denoted by expression e is mutably borrowed by a call."""
        x = e
        while x.get("k") in ("AddrOf",) or (x.get("k") == "Unary" and x.get("op") == "*"):
            x = x["e"]
        if x.get("k") == "Path" and x.get("res") == "local" and not self.F.ty(x).startswith("&mut") and not self.F.ty(x).startswith("&"):
            # an owned local mutated in place: new version, facts about the old value stay with the old term
            self.havoc_local(x["id"], x["name"])
            return
        t = self.T.term(x)
        if t[0] in ("var", "field", "index"):
            self.kill_root(K, t)
            if t[0] != "var":
                self.kill_place(K, t)

    def _mut_arg(self, a, K):
        F = self.F
        if a.get("k") == "AddrOf" and a.get("mut"):
            self._escape(a["e"], K)
        elif F.ty(a).startswith("&mut") and a.get("k") in ("Path", "Field"):
            t = self.T.term(a)
            if t[0] in ("var", "field", "index"):
                self.kill_root(K, t)

    def visit_subexprs(self, n, K):
        for c in kids(n):
            self.walk(c, K)

    def notify(self, n, K):
        if self.on_node is not None:
            self.on_node(self, n, K)

    def _branch(self, node, K, pre=None):
        """Walk `node` on a copy of the environment; returns (K_after, diverged, env_after)."""
        saved = self.T.env
        self.T.env = dict(saved)
        Kb = K.copy()
        if pre:
            pre(Kb)
        d = self.walk(node, Kb) if node is not None else False
        env_after = self.T.env
        self.T.env = saved
        return Kb, d, env_after

    def _join_envs(self, base, results):
        """results: list of (K, diverged, env). Sets self.T.env / returns (atoms, all_diverged)."""
        live = [(k, e) for k, d, e in results if not d]
        if not live:
            return None
        if len(live) == 1:
            self.T.env = live[0][1]
            self._joined_ors = list(live[0][0].ors)
            return live[0][0].atoms
        env = {}
        keys = set()
        for _, e in live:
            keys |= set(e.keys())
        for lid in keys:
            vals = [e.get(lid) for _, e in live]
            if all(v == vals[0] for v in vals) and vals[0] is not None:
                env[lid] = vals[0]
            else:
                nm = "v"
                for v in vals:
                    if v is not None and v[0] == "var":
                        nm = v[1]
                env[lid] = ("var", nm, "%s#%d" % (lid, next(self.version)))
        self.T.env = env
        atoms = set(live[0][0].atoms)
        for k, _ in live[1:]:
            atoms &= k.atoms
        self._joined_ors = [o for o in live[0][0].ors if all(o in k.ors for k, _ in live[1:])]
        return atoms

    def walk_if(self, n, K):
        F = self.F
        c = n["c"]
        if is_debug_only(F, n) or (c.get("k") == "Lit" and "cfg" in F.mac(c)):
            self.debug_depth += 1
            if self.on_if is not None and c.get("k") not in ("Lit", "Let"):
                self.on_if(self, n, K)
            self._branch(n["th"], K)
            self.debug_depth -= 1
            return False
        if c.get("k") == "Let":
            if self.walk(c["init"], K):
                return True
            it = self.T.term(c["init"])

            def pre_t(Kb):
                self.bind_pat_opaque(c["pat"])
                self.let_facts(c["pat"], it, Kb)
            rt = self._branch(n["th"], K, pre_t)
            re_ = self._branch(n.get("el"), K)
        else:
            if self.walk(c, K):
                return True
            if self.on_if is not None:
                self.on_if(self, n, K)
            if self.T.const_subst:
                ct = self.T.term(c)
                if ct[0] == "bool":
                    # the condition is decided in the instantiation under analysis: only that branch exists
                    br = n["th"] if ct[1] else n.get("el")
                    return self.walk(br, K) if br is not None else False
            rt = self._branch(n["th"], K, lambda Kb: Kb.add(cond_atoms(self.T, c, True)))
            re_ = self._branch(n.get("el"), K, lambda Kb: Kb.add(cond_atoms(self.T, c, False)))
        atoms = self._join_envs(None, [rt, re_])
        if atoms is None:
            return True
        K.atoms = atoms
        K.ors = self._joined_ors
        return False

    def let_facts(self, pat, term, K):
        pass

    def walk_loop(self, n, K):
        F = self.F
        body = n["body"]
        # havoc locals assigned in the body; kill facts about places assigned in the body
        assigned = self.local_ids_assigned(body)
        before = {lid: self.T.env.get(lid) for lid in assigned}
        mono = self._only_incremented(body, set(assigned))
        for lid, nm in assigned.items():
            if lid in self.T.env:
                self.havoc_local(lid, nm)
                # a local that the body only ever increases (`x += <non-negative literal>`) never drops below
                # the value it had on entry: loop invariant `entry value <= x`
                if lid in mono and before.get(lid) is not None:
                    K.add([atom_le(before[lid], self.T.env[lid])])
        kills = self.assigned_places(body)
        self.apply_kills(K, kills)
        head_env = dict(self.T.env)
        Kb, d, _ = self._branch(body, K)
        self.T.env = head_env
        # after the loop: facts invariant at the head, plus the negated `while` condition when the
        # only exit is the desugared `else { break }`.
        nbreaks = sum(1 for _ in self._own_breaks(body))
        if n.get("src") == "While":
            st = body.get("expr") or (body["stmts"][-1] if body["stmts"] else None)
            if st is not None and st.get("k") == "If" and st["c"].get("k") != "Let" and nbreaks == 1:
                K.add(cond_atoms(self.T, st["c"], False))
            else:
                for lid, nm in assigned.items():
                    if lid in self.T.env:
                        self.havoc_local(lid, nm)
        else:
            # `loop { if c { break } .. }` with that single exit as its first statement is `while !c { .. }`
            first = None
            for st_ in body.get("stmts", []) + ([body["expr"]] if "expr" in body else []):
                if _debug_stmt(F, st_):
                    continue
                first = st_
                break
            if n.get("src") == "Loop" and nbreaks == 1 and first is not None and first.get("k") == "If" and first["c"].get("k") != "Let" and "el" not in first \
                    and self._is_plain_break(first["th"]):
                K.add(cond_atoms(self.T, first["c"], True))
            else:
                for lid, nm in assigned.items():
                    if lid in self.T.env:
                        self.havoc_local(lid, nm)
        if n.get("src") == "Loop" and nbreaks == 0:
            return True
        return False

    def _closure_context(self, n, K):
        """Facts that hold inside a closure argument because of the method it is passed to:
        `cond.then(|| ..)` runs the closure only when cond holds; `(lo..hi).map(|i| ..)` (for_each, filter, all, any,
        find, fold ..) calls it with lo <= i < hi."""
        F = self.F
        clos = [a for a in n.get("args", []) if a.get("k") == "Closure"]
        if not clos:
            return
        if not hasattr(self, "_cl_ctx"):
            self._cl_ctx = {}
        nm = n.get("name")
        if nm in ("then",) and F.ty(n["recv"]).replace("&", "").strip() == "bool":
            self._cl_ctx[id(clos[0])] = {"atoms": cond_atoms(self.T, n["recv"], True)}
            return
        if nm in ("map", "for_each", "filter", "all", "any", "find", "position", "filter_map", "flat_map", "take_while", "skip_while", "try_for_each", "map_while", "find_map", "inspect"):
            r = n["recv"]
            while r.get("k") == "MethodCall" and r.get("name") in ("rev", "into_iter", "by_ref", "iter"):
                r = r["recv"]
            while r.get("k") == "Block" and not r.get("stmts") and "expr" in r:
                r = r["expr"]
            rng = range_of(F, r) if r.get("k") == "Struct" else None
            if rng and rng[0] is not None and rng[1] is not None and not rng[2]:
                c = clos[0]
                ps = c.get("params", [])
                if len(ps) == 1 and ps[0].get("k") == "PBind":
                    self._cl_ctx[id(c)] = {"ranges": [(ps[0]["id"], ps[0]["name"], self.T.term(rng[0]), self.T.term(rng[1]))]}

    def _is_plain_break(self, br):
        while br.get("k") == "Block" and len(br.get("stmts", [])) + (1 if "expr" in br else 0) == 1:
            br = br["expr"] if "expr" in br else br["stmts"][0]
        return br.get("k") == "Break" and "e" not in br

    def _only_incremented(self, body, lids):
        """Locals among lids whose every assignment in body is `x += <literal >= 0>` (and that are not borrowed mutably)."""
        bad, seen = set(), set()
        for n in walk(body):
            k = n.get("k")
            if k in ("Assign", "AssignOp") and n["l"].get("k") == "Path" and n["l"].get("res") == "local" and n["l"].get("id") in lids:
                lid = n["l"]["id"]
                r = n["r"]
                if k == "AssignOp" and n["op"] == "+=" and r.get("k") == "Lit" and r.get("lk") == "int" and int(r.get("v", -1)) >= 0:
                    seen.add(lid)
                else:
                    bad.add(lid)
            elif k == "AddrOf" and n.get("mut") and n["e"].get("k") == "Path" and n["e"].get("id") in lids:
                bad.add(n["e"]["id"])
            elif k == "MethodCall" and n["recv"].get("k") == "Path" and n["recv"].get("id") in lids and self.F.tya(n["recv"]).startswith("&mut"):
                bad.add(n["recv"]["id"])
        return seen - bad

    def _own_breaks(self, body):
        """Break nodes that exit this loop (not nested loops' unlabeled breaks)."""
        def rec(n, depth):
            k = n.get("k")
            if k == "Break":
                if depth == 0 or "label" in n:
                    yield n
                return
            if k == "Closure":
                return
            for c in kids(n):
                yield from rec(c, depth + (1 if k == "Loop" else 0))
        yield from rec(body, 0)

    def walk_match(self, n, K):
        F = self.F
        src = n.get("src", "")
        scrut = n["e"]
        if src == "ForLoopDesugar":
            return self.walk_for(n, K)
        if self.walk(scrut, K):
            return True
        st = self.T.term(scrut)
        results = []
        for a in n["arms"]:
            def pre(Kb, a=a):
                if a["pat"].get("k") == "PTuple" and st[0] == "tup" and len(n["arms"]) == 1:
                    # `match (&a, &b) { (l, r) => .. }` (assert_eq!/assert_ne!): the bindings alias the operands
                    self.bind_pat(a["pat"], st, Kb)
                else:
                    self.bind_pat_opaque(a["pat"])
                self.arm_facts(a["pat"], st, scrut, Kb)
                if "guard" in a:
                    self.walk(a["guard"], Kb)
                    Kb.add(cond_atoms(self.T, a["guard"], True))
            results.append(self._branch(a["body"], K, pre))
        atoms = self._join_envs(None, results)
        if atoms is None:
            return len(results) > 0
        K.atoms = atoms
        K.ors = self._joined_ors
        return False

    def arm_facts(self, pat, st, scrut, K):
        """Facts from integer literal / range patterns and bool patterns."""
        k = pat.get("k")
        if k == "PLit" and "v" in pat and pat.get("lk") == "int":
            K.add(cmp_atoms("==", st, ("int", int(pat["v"]))))
        elif k == "PLit" and pat.get("lk") == "bool":
            K.add(cond_atoms(self.T, scrut, bool(pat["v"])))
        elif k == "PRange":
            lo = pat.get("lo", {})
            hi = pat.get("hi", {})
            if lo.get("lk") == "int":
                K.add(cmp_atoms(">=", st, ("int", int(lo["v"]))))
            if hi.get("lk") == "int":
                K.add(cmp_atoms("<=" if pat.get("incl") else "<", st, ("int", int(hi["v"]))))

    def walk_for(self, n, K):
        """`for pat in iter { body }` desugaring: match into_iter(iter) { mut it => loop { match next(&mut it) { None => break, Some(pat) => body } } }"""
        F = self.F
        scrut = n["e"]
        it = scrut["args"][0] if scrut.get("k") == "Call" and scrut.get("args") else scrut
        if self.walk(it, K):
            return True
        arm = n["arms"][0]
        loop = arm["body"]
        while loop.get("k") == "Block" and "expr" in loop and not loop["stmts"]:
            loop = loop["expr"]
        if loop.get("k") != "Loop":
            return self.walk(arm["body"], K)
        lb = loop["body"]
        inner = lb.get("expr") or (lb["stmts"][0] if lb["stmts"] else None)
        assigned = self.local_ids_assigned(lb)
        for lid, nm in assigned.items():
            if lid in self.T.env:
                self.havoc_local(lid, nm)
        kills = self.assigned_places(lb)
        self.apply_kills(K, kills)
        head_env = dict(self.T.env)
        some_arm = None
        pat = None
        if inner is not None and inner.get("k") == "Match":
            for a in inner["arms"]:
                if a["pat"].get("k") == "PTupleStruct" and a["pat"].get("ps"):
                    some_arm = a
                    pat = a["pat"]["ps"][0]
                elif a["pat"].get("k") == "PStruct" and a["pat"].get("fields"):
                    some_arm = a
                    pat = a["pat"]["fields"][0]["p"]
        if some_arm is None:
            self._branch(lb, K)
        else:
            def pre(Kb):
                self.bind_pat_opaque(pat)
                self.for_facts(pat, it, Kb)
            self._branch(some_arm["body"], K, pre)
        self.T.env = head_env
        for lid, nm in assigned.items():
            if lid in self.T.env:
                self.havoc_local(lid, nm)
        return False

    def for_facts(self, pat, it, K):
        """Range facts for `for i in a..b`, `for (i, x) in xs.iter().enumerate()`."""
        F = self.F
        T = self.T
        rng = range_of(F, it)
        if rng is None and it.get("k") == "MethodCall" and it["name"] == "step_by" and range_of(F, it["recv"]) is not None:
            rng = range_of(F, it["recv"])
        if rng is not None and pat.get("k") == "PBind":
            lo, hi, incl = rng
            v = ("var", pat["name"], pat["id"])
            if lo is not None:
                K.add(cmp_atoms(">=", v, T.term(lo)))
            if hi is not None:
                K.add(cmp_atoms("<=" if incl else "<", v, T.term(hi)))
            return
        # `for (a, b) in (lo..hi).zip(lo2..)`: each component ranges over its own range (the shorter one ends the loop)
        if it.get("k") == "MethodCall" and it["name"] == "zip" and pat.get("k") == "PTuple" and len(pat["ps"]) == 2 and len(it.get("args", [])) == 1:
            for comp, src in ((pat["ps"][0], it["recv"]), (pat["ps"][1], it["args"][0])):
                r = range_of(F, src) if src.get("k") == "Struct" else None
                if r is not None and comp.get("k") == "PBind":
                    lo, hi, incl = r
                    v = ("var", comp["name"], comp["id"])
                    if lo is not None:
                        K.add(cmp_atoms(">=", v, T.term(lo)))
                    if hi is not None:
                        K.add(cmp_atoms("<=" if incl else "<", v, T.term(hi)))
            return
        ELEM = ("iter", "iter_mut", "copied", "cloned", "as_ref", "into_iter", "as_mut", "par_iter")
        chain = method_chain(F, it)
        names = [c[0] for c in chain]
        if chain and all(x in ELEM + ("enumerate",) for x in names) and names.count("enumerate") <= 1:
            base = T.term(chain[-1][1])
            if "enumerate" in names and pat.get("k") == "PTuple" and len(pat["ps"]) == 2 and pat["ps"][0].get("k") == "PBind" and names.index("enumerate") == 0:
                idx = pat["ps"][0]
                iv = ("var", idx["name"], idx["id"])
                K.add(cmp_atoms("<", iv, ("call", "len", (base,))))
                ep = pat["ps"][1]
                while ep.get("k") == "PRef":
                    ep = ep["p"]
                if ep.get("k") == "PBind":
                    self.T.env[ep["id"]] = ("index", base, iv)
                return
            if "enumerate" not in names:
                ep = pat
                while ep.get("k") == "PRef":
                    ep = ep["p"]
                if ep.get("k") == "PBind":
                    iv = ("var", "pos_of_" + ep["name"], "%s#i" % ep["id"])
                    K.add(cmp_atoms("<", iv, ("call", "len", (base,))))
                    self.T.env[ep["id"]] = ("index", base, iv)
                return
        if pat.get("k") == "PTuple" and len(pat["ps"]) == 2 and pat["ps"][0].get("k") == "PBind":
            if "enumerate" in names:
                idx = pat["ps"][0]
                v = ("var", idx["name"], idx["id"])
                base = chain[-1][1] if chain else None
                pre = names[names.index("enumerate") + 1:]
                if base is not None and all(x in ("iter", "iter_mut", "copied", "cloned", "as_ref", "into_iter", "as_mut") for x in pre):
                    K.add(cmp_atoms("<", v, ("call", "len", (T.term(base),))))


def _never(t):
    """a leaf that never yields a value (unreachable / panic): it fits any tuple shape"""
    return t[0] == "call" and isinstance(t[1], str) and t[1].split("::")[-1] in ("unreachable_unchecked", "unreachable", "panic", "panic_fmt", "abort")


def _ite_tuple_arity(t):
    if t[0] == "tup":
        return len(t) - 1
    if t[0] == "ite":
        a = _ite_tuple_arity(t[2])
        b = _ite_tuple_arity(t[3])
        if _never(t[2]):
            return b
        if _never(t[3]):
            return a
        return a if a == b else None
    return None


def _ite_project(t, i):
    if t[0] == "tup":
        return t[1 + i]
    if _never(t):
        return t
    return ("ite", t[1], _ite_project(t[2], i), _ite_project(t[3], i))


def range_of(F, n):
    """(lo, hi, inclusive) nodes if n is a range expression `a..b`, `a..=b`, `a..`."""
    if n.get("k") == "Struct":
        p = strip_generics(F.defpath(n) or "")
        fs = {f["name"]: f["e"] for f in n["fields"]}
        if p.endswith("ops::Range") or p.endswith("range::Range"):
            return fs.get("start"), fs.get("end"), False
        if p.endswith("RangeFrom"):
            return fs.get("start"), None, False
        if p.endswith("RangeTo"):
            return None, fs.get("end"), False
    if n.get("k") == "Call":
        c = strip_generics(F.callee(n) or "")
        if c.endswith("RangeInclusive::new") and len(n["args"]) == 2:
            return n["args"][0], n["args"][1], True
    return None


def method_chain(F, n):
    """[(method name, receiver node)] from outermost to innermost for a chain of method calls."""
    out = []
    while n.get("k") == "MethodCall":
        out.append((n["name"], n["recv"]))
        n = n["recv"]
    # out[i] = (name, recv) ; the base receiver is out[-1][1]
    return out


def _prefix(a, b):
    """True if place a is a (proper or equal) prefix of place b."""
    while True:
        if a == b:
            return True
        if b[0] in ("field", "index"):
            b = b[1]
        else:
            return False


# ---- canonical form of low-bits masks --------------------------------------------------------------

def _is_one(t):
    return t == ("int", 1) or (t[0] == "def" and t[1].endswith("::ONE"))


def _is_allones(t):
    return (t[0] == "def" and t[1].endswith("MAX")) or t == ("un", "!", ("int", 0)) or t == ("un", "!", ZERO)


def _is_wordbits(t):
    return (t[0] == "def" and t[1].endswith("BITS")) or (t[0] == "int" and t[1] in (8, 16, 32, 64, 128))


def canon_masks(t):
    """Rewrites the equivalent constructions of the mask of the low r bits, `(1 << r) - 1` and
    `MAX >> (BITS - r)`, to ("lowmask", r), and `MAX << r` to !lowmask(r) (bottom-up)."""
    if not isinstance(t, tuple) or not t or not isinstance(t[0], str):
        return t
    t = tuple(canon_masks(x) if isinstance(x, tuple) else x for x in t)
    if t[0] == "un" and t[1] == "!" and len(t) == 3 and isinstance(t[2], tuple) and t[2][0] == "un" and t[2][1] == "!":
        return t[2][2]      # !!x
    if t[0] == "op" and len(t) == 4:
        op, a, b = t[1], t[2], t[3]
        if op == ">>" and _is_allones(a) and b[0] == "op" and b[1] == "-" and _is_wordbits(b[2]):
            return ("lowmask", b[3])
        if op == "<<" and _is_allones(a):
            return ("un", "!", ("lowmask", b))
        for s in (a, b):
            if isinstance(s, tuple) and s and s[0] == "op" and s[1] == "<<" and _is_one(s[2]):
                for one in (("int", 1), ("def", "common_traits::Number::ONE")):
                    if t == mk_op("-", s, one):
                        return ("lowmask", s[3])
        if op == "-" and a[0] == "op" and a[1] == "<<" and _is_one(a[2]) and _is_one(b):
            return ("lowmask", a[3])
    return t


# ---- unification of local names between sibling skeletons ------------------------------------------
_LVAR = re.compile(r"\('var', '([A-Za-z_][A-Za-z0-9_]*)'\)")


def local_names(items, fixed):
    out = set()
    for it, n in items:
        for m in _LVAR.finditer(repr(it)):
            if m.group(1) not in fixed:
                out.add(m.group(1))
        tag = it[0]
        if tag.startswith(("upd:", "set:", "let:")):
            out.add(tag.split(":")[1])
    return out


def signatures(items, names):
    """name -> multiset of the items it occurs in, with the name marked and every other local blanked"""
    from collections import Counter
    sig = {n: Counter() for n in names}
    for it, cnt in items:
        r = repr(it)
        present = set(m.group(1) for m in _LVAR.finditer(r)) & names
        tag = it[0]
        tagname = tag.split(":")[1] if tag.startswith(("upd:", "set:", "let:")) else None
        if tagname in names:
            present.add(tagname)
        for x in present:
            def sub(m):
                return "('var', '@')" if m.group(1) == x else ("('var', '_')" if m.group(1) in names else m.group(0))
            marked = _LVAR.sub(sub, r)
            if tagname is not None:
                marked = marked.replace("'%s" % tag, "'%s" % tag.replace(":%s" % tagname, ":@" if tagname == x else ":_"), 1)
            sig[x][marked] += cnt
    return sig


def unify_locals(ref_items, items, fixed):
    """A renaming of the locals of `items` onto the locals of `ref_items` (siblings name the same quantity
    differently): greedy matching on the overlap of their occurrence signatures; identical names win ties."""
    A = local_names(ref_items, fixed)
    B = local_names(items, fixed)
    sa, sb = signatures(ref_items, A), signatures(items, B)
    pairs = []
    for b in B:
        for a in A:
            ov = sum((sa[a] & sb[b]).values())
            if ov > 0:
                pairs.append((ov + (0.5 if a == b else 0), a, b))
    pairs.sort(key=lambda x: (-x[0], x[1], x[2]))
    ren, used = {}, set()
    for sc, a, b in pairs:
        if b in ren or a in used:
            continue
        ren[b] = a
        used.add(a)
    # a local left without a partner must not collide with a reference name it is not paired with
    for b in B:
        if b not in ren and b in used:
            ren[b] = b + "'"
    return {b: a for b, a in ren.items() if a != b}




def specialise(t, var, val):
    """t with the term `var` replaced by `val` and the conditionals / projections this decides folded away"""
    if not isinstance(t, tuple) or not t:
        return t
    if t == var:
        return val
    t = tuple(specialise(x, var, val) if isinstance(x, tuple) else x for x in t)
    if t[0] == "op" and len(t) == 4 and t[2][0] == "int" and t[3][0] == "int":
        a, b = t[2][1], t[3][1]
        if t[1] in ("==", "!=", "<", "<=", ">", ">="):
            return ("bool", {"==": a == b, "!=": a != b, "<": a < b, "<=": a <= b, ">": a > b, ">=": a >= b}[t[1]])
    if t[0] == "ite" and t[1][0] == "bool":
        return t[2] if t[1][1] else t[3]
    if t[0] == "index" and t[1][0] == "arr" and t[2][0] == "int" and 0 <= t[2][1] < len(t[1]) - 1:
        return t[1][1 + t[2][1]]
    if t[0] == "field" and t[1][0] == "tup" and str(t[2]).isdigit() and int(t[2]) < len(t[1]) - 1:
        return t[1][1 + int(t[2])]
    return t


def xor_operands(t):
    if t[0] == "op" and t[1] == "^":
        return xor_operands(t[2]) + xor_operands(t[3])
    return [t]


def const_evalf(F, b):
    """-> f(expr node) = the integer value of a constant expression (literals, named constants of the crate, shifts and
    arithmetic on them), or None"""
    def ev(t, depth=0):
        if t[0] == "int":
            return t[1]
        if t[0] == "def" and depth < 4:
            cands = [x for x in F.bodies if x.dk in ("Const", "AssocConst") and strip_generics(x.path) == t[1]]
            if len(cands) == 1:
                return ev(Termizer(F, cands[0]).term(cands[0].body), depth + 1)
            return None
        if t[0] == "op" and len(t) == 4:
            a, c = ev(t[2], depth), ev(t[3], depth)
            if a is None or c is None:
                return None
            try:
                return {"+": a + c, "-": a - c, "*": a * c, "<<": a << c if 0 <= c < 128 else None, ">>": a >> c if 0 <= c < 128 else None,
                        "/": a // c if c else None, "%": a % c if c else None, "&": a & c, "|": a | c, "^": a ^ c}.get(t[1])
            except Exception:
                return None
        return None

    def f(e):
        try:
            return ev(Termizer(F, b).term(e))
        except Exception:
            return None
    return f
