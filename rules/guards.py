"""E1: guard dominance. Obligations attached to unchecked callees, discharged from
the facts that hold on every path to the call site (sym.Walker)."""
from sym import *  # noqa
from ir import *  # noqa

DERIVE_MACROS = ("Epserde", "MemDbg", "MemSize", "Debug", "Clone", "Hash", "Default", "PartialEq", "Eq")


def is_derived(b):
    ms = set(b.mac.split("<")) | set(b.impl_mac.split("<"))
    return any(m in ms for m in DERIVE_MACROS)


def len_candidates(r):
    """Terms that denote the logical length of receiver term r."""
    c = [("call", "len", (r,)), ("call", "BitFieldSliceCore::len", (r,)), ("call", "BitLength::len", (r,)),
         ("call", "IndexedSeq::len", (r,)), ("field", r, "len"), ("field", r, "n"),
         ("call", "ExactSizeIterator::len", (r,))]
    return c


def goal_lt_any(i, cands):
    """Obligation satisfied if i < c for some c in cands (disjunction of goals)."""
    return [("any", [atom_le(i, c, True) for c in cands])]


def goal_le_any(i, cands):
    return [("any", [atom_le(i, c, False) for c in cands])]


INDEX_CALLEES = {
    # cname -> (index arg position in receiver-inclusive args)
    "slice::get_unchecked": 1, "slice::get_unchecked_mut": 1,
    "BitFieldSlice::get_unchecked": 1, "BitFieldSliceMut::set_unchecked": 1,
    "AtomicBitFieldSlice::get_atomic_unchecked": 1, "AtomicBitFieldSlice::set_atomic_unchecked": 1,
    "BitVec::get_unchecked": 1, "BitVec::set_unchecked": 1,
    "AtomicBitVec::get_unchecked": 1, "AtomicBitVec::set_unchecked": 1, "AtomicBitVec::swap_unchecked": 1,
    "IndexedSeq::get_unchecked": 1, "RankUnchecked::rank_unchecked": 1,
    "BitFieldVec::get_unaligned_unchecked": 1, "Vec::get_unchecked": 1, "Vec::get_unchecked_mut": 1,
}


def obligations(W, n, args):
    """Default obligations of an unsafe callee at call node n. Returns list of
    (description, goal) where goal is an atom or ('any', [atoms]) or ('table', reason-key)."""
    F = W.F
    cn = cname(F, n)
    T = W.T
    out = []
    if cn in INDEX_CALLEES:
        i = args[INDEX_CALLEES[cn]]
        r = args[0]
        inode = call_args(n)[INDEX_CALLEES[cn]]
        rng = range_of(F, inode)
        if rng is not None:
            lo, hi, incl = rng
            if hi is not None:
                out.append(("range end within length", ("any", [atom_le(T.term(hi), c, incl) for c in len_candidates(r)])))
            else:
                out.append(("range start within length", ("any", [atom_le(T.term(lo), c) for c in len_candidates(r)])))
        else:
            out.append(("index < length", ("any", [atom_le(i, c, True) for c in len_candidates(r)])))
        return cn, out
    if cn == "SelectUnchecked::select_unchecked":
        out.append(("rank < number of ones", ("any", [atom_le(args[1], ("call", "NumBits::num_ones", (args[0],)), True),
                                                     atom_le(args[1], ("call", "BitCount::count_ones", (args[0],)), True)])))
        return cn, out
    if cn == "SelectZeroUnchecked::select_zero_unchecked":
        out.append(("rank < number of zeros", ("any", [atom_le(args[1], ("call", "NumBits::num_zeros", (args[0],)), True),
                                                      atom_le(args[1], ("call", "BitCount::count_zeros", (args[0],)), True)])))
        return cn, out
    if cn in ("SuccUnchecked::succ_unchecked", "PredUnchecked::pred_unchecked"):
        strict = "true" in (n.get("ga") or [])
        s = args[0]
        v = args[1]
        out.append(("structure not empty", ("b", ("call", "IndexedSeq::is_empty", (s,)), False)))
        if cn.startswith("Succ"):
            last = ("call", "IndexedSeq::get", (s, mk_op("-", ("call", "IndexedSeq::len", (s,)), ("int", 1))))
            out.append(("value %s last element" % ("<" if strict else "<="), atom_le(v, last, strict)))
        else:
            first = ("call", "IndexedSeq::get", (s, ("int", 0)))
            out.append(("value %s first element" % (">" if strict else ">="), atom_le(first, v, strict)))
        return cn, out
    if cn == "UncheckedIterator::next_unchecked":
        out.append(("iterator not exhausted", ("table", "next_unchecked")))
        return cn, out
    if cn == "EliasFanoBuilder::push_unchecked":
        s, v = args[0], args[1]
        out.append(("count != n", atom_ne(("field", s, "count"), ("field", s, "n"))))
        out.append(("value <= u", atom_le(v, ("field", s, "u"))))
        out.append(("value >= last_value", atom_le(("field", s, "last_value"), v)))
        return cn, out
    if cn in ("ptr::add", "ptr::const_ptr::add", "ptr::mut_ptr::add", "pointer::add") and len(args) == 2:
        # the one-past-the-end pointer of a vector / slice: `v.as_ptr().add(v.len())` (what as_ptr_range() returns)
        p_, k_ = args[0], args[1]
        def base_of(t):
            return t[2][0] if t[0] == "call" and t[1].endswith(("as_ptr", "as_mut_ptr")) and len(t[2]) == 1 else None
        b_ = base_of(p_)
        if b_ is not None and k_ == ("call", "len", (b_,)):
            out.append(("pointer to the end of the same vector", ("true",)))
            return cn, out
    if cn in ("slice::align_to", "slice::align_to_mut"):
        # unsafe only because the middle part reinterprets the elements: between plain integer types every bit
        # pattern is valid (how much lands in the prefix/suffix is R12.7's business)
        INTS = ("u8", "u16", "u32", "u64", "u128", "usize", "i8", "i16", "i32", "i64", "i128", "isize")
        ga = n.get("ga") or []
        if len(ga) == 2 and ga[0] in INTS and ga[1] in INTS:
            out.append(("both element types are plain integers", ("true",)))
            return cn, out
    # everything else: needs a table entry (type punning, raw parts, etc.)
    out.append(("unsafe precondition of %s" % cn, ("table", cn)))
    return cn, out


def goal_holds(K, goal):
    if goal[0] == "true":
        return True
    if goal[0] == "any":
        return any(K.entails(g) for g in goal[1])
    if goal[0] == "table":
        return False
    return K.entails(goal)


def goal_show(goal):
    if goal[0] == "true":
        return "(holds by the types involved)"
    if goal[0] == "any":
        return " or ".join(ashow(g) for g in goal[1][:3]) + (" ..." if len(goal[1]) > 3 else "")
    if goal[0] == "table":
        return "<construction invariant: %s>" % goal[1]
    return ashow(goal)


class Site:
    __slots__ = ("body", "node", "cname", "descr", "goal", "ok", "known", "loc", "debug_only", "in_closure", "args_show")

    def as_dict(self, F):
        return {"fn": self.body.key, "at": self.loc, "callee": self.cname, "obligation": self.descr,
                "required": goal_show(self.goal), "discharged": self.ok,
                "call": self.args_show,
                "established": self.known[:12]}


def census(F, bodies=None, inline=None, site_overrides=None, include_unsafe_fns=False):
    """All unsafe call sites in safe functions with their obligations and discharge status."""
    sites = []
    for b in (bodies if bodies is not None else F.fns()):
        if is_derived(b):
            continue
        if b.unsafe and not include_unsafe_fns:
            continue
        if b.path in getattr(F, "new_helpers_inlined", ()):
            continue      # a helper the reference tree does not have: analysed where it is inlined (its callers)

        def on_node(W, n, K, b=b):
            if not n.get("cu"):
                return
            m = F.mac(n)
            if "format" in m or "panic" in m:
                return
            args = [W.T.term(a) for a in call_args(n)]
            cn, obs = obligations(W, n, args)
            if site_overrides:
                ov = site_overrides(b, cn, n, args, W)
                if ov is not None:
                    obs = ov
            for descr, goal in obs:
                s = Site()
                s.body = b
                s.node = n
                s.cname = cn
                s.descr = descr
                s.goal = goal
                s.ok = goal_holds(K, goal)
                s.known = K.show()
                s.loc = F.loc(n)
                s.debug_only = W.debug_depth > 0
                s.in_closure = W.closure_depth > 0
                s.args_show = show(F, n)[:160]
                sites.append(s)
        W = Walker(F, b, on_node=on_node, inline=inline)
        W.run()
    return sites
