"""R01.2: forwarding implementations forward to the very same trait method with the same arguments
(wrappers, ambassador delegates, autoimpl'd &T / &mut T / Box<T>), so that the checked defaults of
R01.1/R02.1/R04.1 hold underneath any stack of wrappers."""
import re
from framework import rule
from guards import is_derived
from r_guards import short_fn
from sym import *  # noqa
from ir import *  # noqa


def strip_blocks(e):
    while e.get("k") == "Block" and not e["stmts"] and "expr" in e:
        e = e["expr"]
    return e


def root_is_self(e):
    while e.get("k") in ("Field", "AddrOf", "Index") or (e.get("k") == "Unary" and e["op"] == "*") or (e.get("k") == "MethodCall" and e["name"] in ("as_ref", "as_mut", "deref", "borrow") and not e["args"]):
        e = e["e"] if "e" in e else e["recv"]
    return e.get("k") == "Path" and e.get("name") == "self"


@rule("R01.2", props=["C01", "C02", "C04", "C12"], floor=200, title="forwarding impls of the crate's traits call the same method with the same arguments")
def r01_2(ctx, rr):
    F = ctx.F()
    crate_traits = set(F.traits.keys())
    for b in F.fns():
        if b.impl_trait is None or b.impl_trait not in crate_traits:
            continue
        if is_derived(b):
            continue
        e = strip_blocks(b.body)
        if e.get("k") not in ("MethodCall", "Call"):
            continue
        args = call_args(e)
        if not args or len(args) != len(b.params):
            continue
        if not root_is_self(args[0]):
            continue
        # remaining args must be the parameters, in order
        ok_args = True
        for a, p in zip(args[1:], b.params[1:]):
            x = a
            while x.get("k") in ("AddrOf",) or (x.get("k") == "Unary" and x["op"] == "*"):
                x = x["e"]
            if not (x.get("k") == "Path" and x.get("res") == "local" and p.get("k") == "PBind" and x.get("id") == p["id"]):
                ok_args = False
        ct = F.ctrait(e)
        if ct != b.impl_trait:
            continue
        callee_name = strip_generics(F.callee(e) or "").split("::")[-1]
        x0 = args[0]
        while x0.get("k") == "AddrOf":
            x0 = x0["e"]
        if x0.get("k") == "Path" and x0.get("name") == "self" and callee_name != b.name:
            # another method of the same trait on the very same object (`self.local_edge(sig)`): an implementation in
            # terms of a sibling method, not a wrapper forwarding to an inner value
            continue
        rr.instances += 1
        key = "%s:forwards-to-self" % short_fn(b.key)
        same = callee_name == b.name
        # generic const args (STRICT etc.) must be forwarded too
        ga_ok = True
        rr.ob(same and ok_args, key=key, nontrivial=not (same and ok_args), sample={"fn": b.key, "body": show(F, e)[:120]})
        if not same:
            rr.violate(key, "%s is a forwarding implementation of `%s` but calls `%s::%s` on the inner value: the wrapper answers a different query than the wrapped structure" % (b.key, b.name, ct.split("::")[-1], callee_name), b.span)
        elif not ok_args:
            rr.violate(key + ":args", "%s forwards to the same method but does not pass its own parameters through in order: `%s`" % (b.key, show(F, e)[:160]), b.span)


CHECKED_DEFAULTS = {
    "traits::rank_sel::Rank": ["rank"], "traits::rank_sel::RankZero": ["rank_zero", "rank_zero_unchecked"], "traits::rank_sel::Select": ["select"],
    "traits::rank_sel::SelectZero": ["select_zero"], "traits::indexed_dict::Succ": ["succ", "succ_strict"],
    "traits::indexed_dict::Pred": ["pred", "pred_strict"], "traits::indexed_dict::IndexedSeq": ["get"],
    "traits::bit_field_slice::BitFieldSlice": ["get"], "traits::bit_field_slice::BitFieldSliceMut": ["set"],
    "traits::bit_field_slice::AtomicBitFieldSlice": ["get_atomic", "set_atomic"],
    "traits::rank_sel::NumBits": ["num_zeros"], "traits::rank_sel::BitCount": ["count_zeros"],
}
# non-forwarding overrides confirmed by reading (they repeat the validation themselves; checked by R05.1 / R12.4)
CONFIRMED_OVERRIDES = {
    "BitFieldVec as BitFieldSliceMut::set": "validates index and value with the structure's own len and mask (R05.1, R12.4)",
    "AtomicBitFieldVec as AtomicBitFieldSlice::set_atomic": "validates index and value with the structure's own len and mask (R05.1, R12.4)",
}


@rule("R01.5", props=["C01", "C02", "C04", "C05", "C12"], floor=2, title="the checked default methods are overridden only by forwarders or by the confirmed self-validating implementations")
def r01_5(ctx, rr):
    F = ctx.F()
    seen = 0
    for b in F.fns():
        if b.impl_trait in CHECKED_DEFAULTS and b.name in CHECKED_DEFAULTS[b.impl_trait] and not is_derived(b):
            e = strip_blocks(b.body)
            fwd = e.get("k") in ("MethodCall", "Call") and call_args(e) and root_is_self(call_args(e)[0]) and F.ctrait(e) == b.impl_trait
            if fwd:
                continue
            seen += 1
            rr.instances += 1
            k = short_fn(b.key)
            ok = k in CONFIRMED_OVERRIDES
            rr.ob(ok, key="%s:override" % k, sample={"fn": b.key, "confirmed": CONFIRMED_OVERRIDES.get(k)})
            if not ok:
                rr.violate("%s:unconfirmed-override" % k, "%s overrides the checked default `%s` of %s with its own body: the domain check of the default (R01.1/R02.1/R04.1/R05.1) no longer protects the unchecked method underneath" % (b.key, b.name, b.impl_trait), b.span)
