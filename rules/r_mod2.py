"""GF(2) solver (src/utils/mod2_sys.rs): structural clauses of C19 (and of C07, whose builds run the solver).

What is decided here is the *control and error discipline* of the solvers -- which tests guard which
accesses, which outcomes leave which loop, which results are propagated -- and the shape of the
sorted-merge XOR. That a returned assignment satisfies the system (`check(s)`) is a statement about
run-time values and is NOT decided (see DESIGN.md, C19)."""
from framework import rule
from r_guards import short_fn
from guards import is_derived
from sym import *  # noqa
from ir import *  # noqa


def _parents(b):
    return {id(n): ps for n, ps in walk_with_parents(b.body)}


def _loops_of(ps):
    return [p for p in ps if p.get("k") == "Loop"]


def _exit_kind(F, n, inner, ps_of):
    """How statement-ish node n leaves the loop `inner`: 'ret' (function exit), 'out' (leaves inner for an
    enclosing loop or for the code after inner), 'again' (next iteration of inner), None (falls through)."""
    for x in walk(n):
        k = x.get("k")
        if k == "Ret":
            return "ret"
        if k in ("Continue", "Break"):
            loops = _loops_of(ps_of[id(x)])
            if x.get("label"):
                tgt = [l for l in loops if l.get("label") == x["label"]]
                tgt = tgt[-1] if tgt else None
            else:
                tgt = loops[-1] if loops else None
            if tgt is inner:
                return "again" if k == "Continue" else "out"
            if tgt is not None and any(l is tgt for l in loops):
                # an enclosing loop of inner (or a loop nested inside n, which does not leave inner)
                outer = _loops_of(ps_of[id(inner)])
                if any(l is tgt for l in outer):
                    # `break` of an enclosing loop ends that loop altogether; `continue` goes on with its next round
                    return "stop-outer" if k == "Break" else "out"
    return None


@rule("R19.1", props=["C19", "C07", "C08"], scope_all=True, floor=5, title="echelon_form: pivot rows are tested non-empty; after an addition an unsolvable row is an error and an identity row leaves the inner loop before it is indexed again")
def r19_1(ctx, rr):
    F = ctx.F()
    b = F.one(r"^utils::mod2_sys::Modulo2System::<W>::echelon_form$")
    ps_of = _parents(b)
    adds = [n for n in walk(b.body) if n.get("k") == "MethodCall" and n["name"] == "add" and cname(F, n).endswith("Modulo2Equation::add")]
    if not adds:
        raise AnchorMissing("no Modulo2Equation::add call in echelon_form")
    T = Termizer(F, b)
    for a in adds:
        ps = ps_of[id(a)]
        loops = _loops_of(ps)
        if len(loops) < 2:
            raise AnchorMissing("the addition in echelon_form is not inside two nested loops")
        inner, outer = loops[-1], loops[-2]
        recv = T.term(a["recv"])
        # the block holding the addition and what follows it
        blk = [p for p in ps if p.get("k") == "Block"][-1]
        stmts = blk["stmts"] + ([blk["expr"]] if "expr" in blk else [])
        pos = [i for i, s in enumerate(stmts) if any(x is a for x in walk(s))][0]
        after = stmts[pos + 1:]

        def test_of(name):
            for s in after:
                for x in walk(s):
                    if x.get("k") == "If" and any(y.get("k") == "MethodCall" and y["name"] == name and T.term(y["recv"]) == recv for y in walk(x["c"])) and not any(y.get("k") == "Unary" and y.get("op") == "!" for y in walk(x["c"])):
                        return x
            return None
        # (1) unsolvable -> error return
        u = test_of("is_unsolvable")
        rr.instances += 1
        ok = u is not None and _exit_kind(F, u["th"], inner, ps_of) == "ret" and any(x.get("k") == "Ret" and "e" in x and "Err" in show(F, x["e"])[:20] for x in walk(u["th"]))
        rr.check(ok, "echelon_form:unsolvable-is-error", "echelon_form: after `%s` a row without variables and with a non-zero constant must make the function return an error (`if row.is_unsolvable() { bail!(..) }` directly after the addition)" % show(F, a)[:60], F.loc(a))
        # (2) identity -> leaves the inner loop
        i_ = test_of("is_identity")
        kind = _exit_kind(F, i_["th"], inner, ps_of) if i_ is not None else None
        rr.instances += 1
        if kind == "stop-outer":
            rr.violate("echelon_form:identity-ends-the-reduction", "echelon_form: the `is_identity()` branch after `%s` breaks out of the loop over the pivot rows: the rows after the first redundant (0 = 0) equation are never reduced, and back substitution then returns an assignment that violates some equations" % show(F, a)[:60], F.loc(i_))
        rr.check(kind in ("out", "ret", "stop-outer"), "echelon_form:identity-leaves-inner-loop", "echelon_form: after `%s` the pivot row may have lost all its variables; the `is_identity()` branch must leave the loop over the remaining rows (continue the outer loop / break), found %s: the next iteration reads `vars[0]` of an empty row (index out of bounds)" % (show(F, a)[:60], {"again": "a `continue` of the inner loop", None: "no exit"}.get(kind, kind) if i_ is not None else "no is_identity() test after the addition"), F.loc(i_ if i_ is not None else a))
        # (3) the addition is guarded by equality of the leading variables
        conds = [p for p in ps if p.get("k") == "If" and any(x is a for x in walk(p["th"]))]
        rr.instances += 1
        okc = False
        for c in conds:
            cc = c["c"]
            if cc.get("k") == "Binary" and cc["op"] == "==":
                l, r = T.term(cc["l"]), T.term(cc["r"])
                okc = okc or all(mentions(x, lambda y: y[0] == "index" and y[2] == ("int", 0)) or x[0] == "var" for x in (l, r))
        rr.check(okc, "echelon_form:add-only-equal-leading-vars", "echelon_form: the pivot row is added to another row only under `row_i.vars[0] == row_j.vars[0]`", F.loc(a))
        # (4) the pivot row is tested non-empty before the inner loop
        rr.instances += 1
        ob = outer["body"]
        pre = []
        for x in walk(ob):
            if x is inner:
                break
            pre.append(x)
        okp = any(x.get("k") == "If" and any(y.get("k") == "MethodCall" and y["name"] == "is_empty" for y in walk(x["c"])) and _exit_kind(F, x["th"], outer, ps_of) == "ret" for x in pre)
        rr.check(okp, "echelon_form:pivot-row-nonempty", "echelon_form: every pivot row must be tested non-empty (`ensure!(!equations[i].vars.is_empty())`) before its `vars[0]` is compared", F.loc(outer))
    # (5) swap only when the pivot's leading variable is larger
    sw = [n for n in walk(b.body) if n.get("k") == "MethodCall" and n["name"] == "swap"]
    rr.instances += 1
    oks = bool(sw)
    for s in sw:
        conds = [p for p in ps_of[id(s)] if p.get("k") == "If" and any(x is s for x in walk(p["th"]))]
        oks = oks and any(c["c"].get("k") == "Binary" and c["c"]["op"] in (">", "<") for c in conds)
    rr.check(oks, "echelon_form:swap-on-order", "echelon_form: rows are swapped only under a strict comparison of their leading variables", b.span)


@rule("R19.2", props=["C19", "C07", "C08"], scope_all=True, floor=6, title="Modulo2Equation::add is the sorted symmetric difference: pointers advance by (l <= r), (l >= r), the output by their XOR, both tails are copied, constants are XORed")
def r19_2(ctx, rr):
    F = ctx.F()
    b = F.one(r"^utils::mod2_sys::Modulo2Equation::<W>::add_ptr$")
    P = {p["name"]: ("var", p["name"], p["id"]) for p in b.params if p.get("k") == "PBind"}
    need = ("left", "left_end", "right", "right_end", "dst")
    if any(x not in P for x in need):
        # positions, not names, identify the parameters
        names = [p["name"] for p in b.params if p.get("k") == "PBind"]
        if len(names) != 5:
            raise AnchorMissing("add_ptr no longer takes five pointers")
        P = dict(zip(need, [("var", p["name"], p["id"]) for p in b.params]))
    # collect `x = x.add(e)` updates inside the loop
    loop = [n for n in walk(b.body) if n.get("k") == "Loop"]
    if not loop:
        raise AnchorMissing("add_ptr has no merge loop")
    W_ = Walker(F, b)
    upd = {}
    wterm = []

    def on_node(W, n, K):
        if n.get("k") == "Assign" and n["l"].get("k") == "Path" and n["l"].get("res") == "local" and any(x is n for x in walk(loop[0])):
            r = n["r"]
            if r.get("k") == "MethodCall" and r["name"] == "add":
                upd.setdefault(n["l"]["name"], []).append(W.expand(W.T.term(r["args"][0])))
        if n.get("k") == "Assign" and n["l"].get("k") == "Unary" and n["l"].get("op") == "*" and any(x is n for x in walk(loop[0])):
            wterm.append(W.expand(W.T.term(n["r"])))
    W_.on_node = on_node
    W_.run()
    lname, rname, dname = P["left"][1], P["right"][1], P["dst"][1]

    def deref(v):
        return lambda t: t == v or t == ("un", "*", v) or (t[0] == "var" and t[1] == v[1])

    def is_cmp(t, op):
        # (*left op *right) as usize, in either orientation (the term language sees through the dereference;
        # that the heads, not the pointers, are compared is checked on the syntax below)
        while t[0] == "cast":
            t = t[2]
        if t[0] != "op" or t[1] not in ("<=", ">=", "<", ">", "==", "!=", "^"):
            return False
        flip = {"<=": ">=", ">=": "<=", "<": ">", ">": "<"}
        if t[1] == op and deref(P["left"])(t[2]) and deref(P["right"])(t[3]):
            return True
        if t[1] == flip.get(op) and deref(P["right"])(t[2]) and deref(P["left"])(t[3]):
            return True
        return False

    def strip(t):
        while t[0] == "cast":
            t = t[2]
        return t
    la = upd.get(lname, [])
    ra = upd.get(rname, [])
    da = upd.get(dname, [])
    rr.instances += 1
    rr.check(len(la) == 1 and is_cmp(la[0], "<="), "add_ptr:left-advances-on-le", "add_ptr: `left` must advance exactly when *left <= *right (found %s)" % [tshow(x) for x in la], b.span)
    rr.instances += 1
    rr.check(len(ra) == 1 and is_cmp(ra[0], ">="), "add_ptr:right-advances-on-ge", "add_ptr: `right` must advance exactly when *left >= *right (found %s)" % [tshow(x) for x in ra], b.span)
    rr.instances += 1
    okd = False
    if len(da) == 1:
        t = strip(da[0])
        if t[0] == "op" and t[1] in ("^", "!="):
            a, c = strip(t[2]), strip(t[3])
            okd = (is_cmp(a, "<=") and is_cmp(c, ">=")) or (is_cmp(a, ">=") and is_cmp(c, "<="))
    rr.check(okd, "add_ptr:dst-advances-on-xor", "add_ptr: `dst` must advance exactly when the two heads differ ((l <= r) ^ (l >= r)): a variable present in both equations cancels (found %s)" % [tshow(x) for x in da], b.span)
    # the element written is the smaller head; the comparisons are between the heads, not the pointers
    rr.instances += 1
    writes = [n for n in walk(loop[0]) if n.get("k") == "Assign" and n["l"].get("k") == "Unary" and n["l"].get("op") == "*"]
    cmps = [n for n in walk(loop[0]["body"]) if n.get("k") == "Binary" and n["op"] in ("<=", ">=", "<", ">") and F.ty(n["l"]) in ("u32", "&u32")]
    heads = all(n["l"].get("k") == "Unary" and n["l"].get("op") == "*" and n["r"].get("k") == "Unary" and n["r"].get("op") == "*" for n in cmps)
    okw = len(writes) == 1 and len(cmps) >= 2 and heads
    if okw:
        Tw = Termizer(F, b)
        # `*dst = *src` with src = if less { left } else { right }
        wt = wterm[0] if wterm else None
        okw = wt is not None and wt[0] == "ite" and is_cmp(wt[1], "<=") and wt[2][0] == "var" and wt[2][1] == lname and wt[3][0] == "var" and wt[3][1] == rname
    rr.check(okw, "add_ptr:smaller-head-written", "add_ptr: each merge step writes the smaller of the two heads (`if *left <= *right { *left } else { *right }`), comparing the pointed-to variables", b.span)
    # both tails copied
    # `ptr::copy_nonoverlapping(src, dst, n)` or the method form `src.copy_to_nonoverlapping(dst, n)`
    copies = [n for n in walk(b.body) if n.get("k") in ("Call", "MethodCall") and (cname(F, n) or "").endswith(("copy_nonoverlapping", "copy_to_nonoverlapping", "copy_to")) and not any(x is n for x in walk(loop[0]))]
    rr.instances += 1
    T = Termizer(F, b)
    srcs = set()
    for c in copies:
        t = T.term(call_args(c)[0])
        if t[0] == "var":
            srcs.add(t[1])
    rr.check({lname, rname} <= srcs, "add_ptr:both-tails-copied", "add_ptr: after the merge loop the remainders of both inputs must be copied (found copies from %s)" % sorted(srcs), b.span)
    # add(): c ^= other.c ; vars replaced by the merged vector of length `copied`
    a = F.one(r"^utils::mod2_sys::Modulo2Equation::<W>::add$")
    slf = ("var", "self", a.params[0]["id"])
    oth = ("var", a.params[1]["name"], a.params[1]["id"])
    Ta = Termizer(F, a)
    rr.instances += 1
    xors = [n for n in walk(a.body) if n.get("k") == "AssignOp" and n["op"] == "^=" and Ta.term(n["l"]) == ("field", slf, "c") and Ta.term(n["r"]) == ("field", oth, "c")]
    # on every path: exactly one such statement, at the top level of the body, and no way out of the function before it
    top = a.body["stmts"] + ([a.body["expr"]] if "expr" in a.body else [])
    at_top = [st for st in top if xors and any(x is xors[0] for x in walk(st)) and not any(y.get("k") in ("If", "Match", "Loop", "Closure") and any(x is xors[0] for x in walk(y)) for y in walk(st))]
    early = [n for n in walk(a.body) if n.get("k") == "Ret"]
    rr.check(len(xors) == 1 and len(at_top) == 1 and not early, "add:constants-xored", "Modulo2Equation::add must XOR the constant terms (`self.c ^= other.c`) exactly once on every path (found %d such statements, %d early returns)" % (len(xors), len(early)), a.span)
    # likewise the variables: the merged vector replaces self.vars on every path (one unconditional assignment)
    rr.instances += 1
    vsets = [n for n in walk(a.body) if n.get("k") == "Assign" and Ta.term(n["l"]) == ("field", slf, "vars")]
    vmut = [n for n in walk(a.body) if n.get("k") == "MethodCall" and n["name"] in ("clear", "truncate", "push", "retain", "drain", "extend_from_slice") and Ta.term(n["recv"]) == ("field", slf, "vars")]
    rr.check(len(vsets) == 1 and not vmut, "add:vars-replaced-by-merge", "Modulo2Equation::add must replace self.vars by the merged list once, unconditionally, and not edit it otherwise (found %d assignments, %d in-place edits)" % (len(vsets), len(vmut)), a.span)
    rr.instances += 1
    cap = [n for n in walk(a.body) if n.get("k") == "Call" and cname(F, n).endswith("with_capacity")]
    okcap = False
    from r_guards import simple_env
    Tc = simple_env(F, a)       # the two lengths may be named first
    for c in cap:
        t = Tc.term(c["args"][0])
        want = mk_op("+", ("call", "len", (("field", slf, "vars"),)), ("call", "len", (("field", oth, "vars"),)))
        okcap = okcap or t == want or repr(sorted(map(repr, subterms(t)))) == repr(sorted(map(repr, subterms(want))))
    rr.check(okcap, "add:capacity-is-sum", "Modulo2Equation::add writes through a raw pointer into a vector that must have capacity self.vars.len() + other.vars.len()", a.span)


@rule("R19.3", props=["C19", "C07", "C08"], scope_all=True, floor=4, title="gaussian_elimination: the echelon error is propagated; back substitution runs in reverse over the non-identity rows and sets vars[0] to c ^ eval(vars)")
def r19_3(ctx, rr):
    F = ctx.F()
    b = F.one(r"^utils::mod2_sys::Modulo2System::<W>::gaussian_elimination$")
    # (1) `self.echelon_form()?`
    rr.instances += 1
    ef = [n for n, ps in walk_with_parents(b.body) if n.get("k") == "MethodCall" and n["name"] == "echelon_form"]
    okq = False
    for n, ps in walk_with_parents(b.body):
        if n.get("k") == "MethodCall" and n["name"] == "echelon_form":
            okq = any(p.get("k") == "Match" and p.get("src") == "TryDesugar" for p in ps) or any(p.get("k") == "Ret" for p in ps)
    rr.check(bool(ef) and okq, "gaussian_elimination:echelon-error-propagated", "gaussian_elimination must propagate the error of echelon_form (`self.echelon_form()?`): an unsolvable system has to be reported", b.span)
    # (2) reverse order, identity rows skipped
    chain_names = [n["name"] for n in walk(b.body) if n.get("k") == "MethodCall"]
    rr.instances += 1
    rr.check("rev" in chain_names, "gaussian_elimination:reverse-order", "back substitution must visit the rows of the echelon form from the last to the first (`.rev()`)", b.span)
    rr.instances += 1
    filt = [n for n in walk(b.body) if n.get("k") == "MethodCall" and n["name"] == "filter"]
    okf = False
    for f in filt:
        cl = f["args"][0]
        s = show(F, cl)
        okf = okf or ("is_identity" in s and "!" in s)
    # or an explicit `if eq.is_identity() { continue/return }`
    rr.check(okf or any(n.get("k") == "If" and "is_identity" in show(F, n["c"]) for n in walk(b.body)), "gaussian_elimination:identity-rows-skipped", "back substitution reads `vars[0]` of every row it visits: identity rows (no variables) must be filtered out first", b.span)
    # (3) the assignment solution[vars[0]] = c ^ eval_vars(vars, solution)
    rr.instances += 1
    oka = False
    for n in walk(b.body):
        if n.get("k") == "Assign" and n["l"].get("k") == "Index":
            l, r = show(F, n["l"]), show(F, n["r"])
            if "vars[0]" in l and "^" in r and "eval_vars" in r and ".c" in r:
                oka = True
    rr.check(oka, "gaussian_elimination:pivot-value", "back substitution must set the leading variable of each row to `c ^ eval_vars(vars, solution)`", b.span)


@rule("R19.4", props=["C19", "C07", "C08"], scope_all=True, floor=5, title="lazy_gaussian_elimination: empty rows are classified (unsolvable -> error, identity -> skipped, else dense); the dense error is propagated; pivots are back-substituted from their own rows")
def r19_4(ctx, rr):
    F = ctx.F()
    b = F.one(r"^utils::mod2_sys::Modulo2System::<W>::lazy_gaussian_elimination$")
    ps_of = _parents(b)
    T = Termizer(F, b)
    # the branch `priority[first] == 0`
    zero = [n for n in walk(b.body) if n.get("k") == "If" and n["c"].get("k") == "Binary" and n["c"]["op"] == "==" and n["c"]["r"].get("k") == "Lit" and n["c"]["r"].get("v") == "0" and "priority" in show(F, n["c"]["l"])]
    if not zero:
        raise AnchorMissing("lazy_gaussian_elimination: no `priority[..] == 0` branch")
    z = zero[0]
    loops = _loops_of(ps_of[id(z)])
    main = loops[-1]
    rr.instances += 1
    u = [x for x in walk(z["th"]) if x.get("k") == "If" and "is_unsolvable" in show(F, x["c"]) and "!" not in show(F, x["c"])]
    rr.check(bool(u) and _exit_kind(F, u[0]["th"], main, ps_of) == "ret" and any(x.get("k") == "Ret" and "Err" in show(F, x.get("e", {"k": "?"}))[:20] for x in walk(u[0]["th"])), "lazy:unsolvable-is-error", "lazy_gaussian_elimination: a row whose variables were all eliminated and whose constant is non-zero must make the function return an error", F.loc(z))
    rr.instances += 1
    i_ = [x for x in walk(z["th"]) if x.get("k") == "If" and "is_identity" in show(F, x["c"]) and "!" not in show(F, x["c"])]
    pushes = [x for x in walk(z["th"]) if x.get("k") == "MethodCall" and x["name"] == "push"]
    oki = bool(i_) and _exit_kind(F, i_[0]["th"], main, ps_of) in ("again", "out") and bool(pushes)
    # the push to the dense system must come after both tests
    if oki:
        order = [id(x) for x in walk(z["th"])]
        oki = order.index(id(pushes[0])) > order.index(id(i_[0])) and order.index(id(pushes[0])) > order.index(id(u[0])) if u else False
    if not oki and u and pushes:
        # the other way round: `if !row.is_identity() { dense.push(row) }` (the push itself is guarded)
        for x in walk(z["th"]):
            if x.get("k") == "If" and "is_identity" in show(F, x["c"]) and sum(1 for y in walk(x["c"]) if y.get("k") == "Unary" and y.get("op") == "!") % 2 == 1 and "el" not in x:
                if any(y is pushes[0] for y in walk(x["th"])):
                    order = [id(y) for y in walk(z["th"])]
                    oki = order.index(id(pushes[0])) > order.index(id(u[0]))
    rr.check(oki, "lazy:identity-skipped-else-dense", "lazy_gaussian_elimination: an identity row is skipped and only the other fully-eliminated rows are handed to the dense solver (after the unsolvable and identity tests)", F.loc(z))
    # dense solve error propagated
    rr.instances += 1
    okq = False
    for n, ps in walk_with_parents(b.body):
        if n.get("k") == "MethodCall" and n["name"] == "gaussian_elimination":
            okq = any(p.get("k") == "Match" and p.get("src") == "TryDesugar" for p in ps)
    rr.check(okq, "lazy:dense-error-propagated", "lazy_gaussian_elimination must propagate the error of the dense gaussian_elimination (`?`)", b.span)
    # a pivot is recorded together with its row, and the weight of the pivot is cleared
    rr.instances += 1
    one = [n for n in walk(b.body) if n.get("k") == "If" and n["c"].get("k") == "Binary" and n["c"]["op"] == "==" and n["c"]["r"].get("k") == "Lit" and n["c"]["r"].get("v") == "1" and T.term(n["c"]["l"]) == T.term(z["c"]["l"])]
    okp = False
    if one:
        blk = one[0]["th"]
        top = blk["stmts"] + ([blk["expr"]] if "expr" in blk else [])
        pushes = []
        for st in top:
            x = st
            while x.get("k") == "Block" and not x["stmts"] and "expr" in x:
                x = x["expr"]
            if x.get("k") == "MethodCall" and x["name"] == "push" and x["recv"].get("k") == "Path" and x["recv"].get("res") == "local":
                pushes.append(x)
        # two different local vectors receive one element each in the same block: the pivot and its row
        okp = len(pushes) == 2 and pushes[0]["recv"]["id"] != pushes[1]["recv"]["id"]
    rr.check(okp, "lazy:pivot-recorded-with-row", "lazy_gaussian_elimination: in the `priority == 1` branch each pivot is recorded together with the row it was solved from (two pushes, onto two vectors, in the same block)", b.span)
    # final back substitution: solution[pivot] = eq.c ^ eval_vars(eq.vars, solution) with eq = equations[solved[i]], pivot = pivots[i]
    rr.instances += 1
    oka = False
    for n in walk(b.body):
        if n.get("k") == "Assign" and n["l"].get("k") == "Index":
            W_ = None
            l, r = show(F, n["l"]), show(F, n["r"])
            if "^" in r and "eval_vars" in r and ".c" in r:
                oka = True
    rr.check(oka, "lazy:pivot-value", "lazy_gaussian_elimination: each pivot variable is set to `c ^ eval_vars(vars, solution)` of its own row after the dense solve", b.span)


@rule("R19.5", props=["C19", "C07", "C08"], scope_all=True, floor=6, title="lazy phase bookkeeping: only variables of weight 0 are skipped; activating a variable and solving a pivot lower each touched equation's priority by one and enqueue it exactly at priority 1")
def r19_5(ctx, rr):
    """The weights count the unsolved equations a variable occurs in and the priorities the idle variables of an
    equation. The tests on them are exact: `weight[var] == 0` (skip), `priority[eq] == 1` (ready),
    `priority[first] == 0` (fully eliminated); the updates are `-= 1` and `weight[pivot] = 0`."""
    F = ctx.F()
    b = F.one(r"^utils::mod2_sys::Modulo2System::<W>::lazy_gaussian_elimination$")
    T = Termizer(F, b)

    def is_tab(e, name_hint=None):
        # an element of a local table: `t[i]`
        return e.get("k") == "Index" and e["e"].get("k") == "Path" and e["e"].get("res") == "local"

    # identify the tables by what setup() returns: (var_to_eqs, weight, priority)
    ids = {}
    for n in walk(b.body):
        if n.get("k") in ("Assign", "LetStmt"):
            pat = n.get("pat") or n.get("l")
            init = n.get("init") or n.get("r")
            if init is not None and init.get("k") == "MethodCall" and init["name"] == "setup":
                elems = pat.get("ps") or pat.get("es") or []
                if len(elems) == 3:
                    for nm, e in zip(("var_to_eqs", "weight", "priority"), elems):
                        ids[nm] = e.get("id")
    # a destructuring assignment `(a, b, c) = f()` is lowered to `let (t0, t1, t2) = f(); a = t0; b = t1; c = t2`
    fwd = {}
    for n in walk(b.body):
        if n.get("k") == "Assign" and n["l"].get("k") == "Path" and n["r"].get("k") == "Path" and n["r"].get("res") == "local":
            fwd[n["r"]["id"]] = n["l"].get("id")
    ids = {k: fwd.get(v, v) for k, v in ids.items()}
    if len(ids) != 3 or None in ids.values():
        raise AnchorMissing("lazy_gaussian_elimination: could not identify the three tables returned by setup()")
    W_, P_ = ids["weight"], ids["priority"]

    def tab_id(e):
        return e["e"].get("id") if is_tab(e) else None
    # (1) skip loop: while weight[var] == 0
    loops = [n for n in walk(b.body) if n.get("k") == "Loop" and n.get("src") == "While"]
    skip = []
    for lp in loops:
        st = lp["body"].get("expr") or (lp["body"]["stmts"][-1] if lp["body"]["stmts"] else None)
        if st is not None and st.get("k") == "If" and st["c"].get("k") == "Binary" and tab_id(st["c"]["l"]) == W_:
            skip.append(st["c"])
    # the same search as `loop { let v = pop(); if weight[v] != 0 { break v } }`: what does not break is skipped
    if not skip:
        for lp in [n for n in walk(b.body) if n.get("k") == "Loop" and n.get("src") != "While"]:
            for st in walk(lp["body"]):
                if st.get("k") == "If" and st["c"].get("k") == "Binary" and tab_id(st["c"]["l"]) == W_ and st["c"]["op"] in ("!=", ">") and any(x.get("k") == "Break" for x in walk(st["th"])) and "el" not in st:
                    skip.append({"op": "==", "l": st["c"]["l"], "r": st["c"]["r"], "k": "Binary", "s": st["c"].get("s", "")})
    rr.instances += 1
    ok = len(skip) == 1 and skip[0]["op"] == "==" and skip[0]["r"].get("k") == "Lit" and skip[0]["r"].get("v") == "0"
    rr.check(ok, "lazy:skip-only-weight-0", "lazy_gaussian_elimination: when no equation is ready, the next variable to activate is the first whose weight is not 0 (`while weight[var] == 0 { pop }`): a variable of weight 1 still occurs in an unsolved equation and must be activated (found %s)" % [show(F, c) for c in skip], F.loc(skip[0]) if skip else b.span)
    # (2) every update of a priority is `-= 1`, followed in the same block by `if priority[..] == 1 { push }`
    upd = [n for n in walk(b.body) if n.get("k") == "AssignOp" and tab_id(n["l"]) == P_]
    pm = {id(n): ps for n, ps in walk_with_parents(b.body)}
    if len(upd) < 2:
        raise AnchorMissing("lazy_gaussian_elimination: expected two updates of the priorities (activation and pivot elimination)")
    enqueue_ifs = []
    for u in upd:
        rr.instances += 1
        okd = u["op"] == "-=" and u["r"].get("k") == "Lit" and u["r"].get("v") == "1"
        blk = [p for p in pm[id(u)] if p.get("k") == "Block"][-1]
        sts = blk["stmts"] + ([blk["expr"]] if "expr" in blk else [])
        pos = [i for i, st in enumerate(sts) if any(x is u for x in walk(st))][0]
        nxt = sts[pos + 1] if pos + 1 < len(sts) else None
        while nxt is not None and nxt.get("k") == "Block" and not nxt["stmts"] and "expr" in nxt:
            nxt = nxt["expr"]
        okn = nxt is not None and nxt.get("k") == "If" and nxt["c"].get("k") == "Binary" and nxt["c"]["op"] == "==" and tab_id(nxt["c"]["l"]) == P_ and nxt["c"]["r"].get("v") == "1" and T.term(nxt["c"]["l"]["i"]) == T.term(u["l"]["i"]) and any(x.get("k") == "MethodCall" and x["name"] == "push" for x in walk(nxt["th"])) and "el" not in nxt
        if nxt is not None and nxt.get("k") == "If":
            enqueue_ifs.append(nxt)
        rr.check(okd and okn, "lazy:priority-update", "lazy_gaussian_elimination: a priority is lowered by exactly one and its equation is enqueued exactly when the priority becomes 1 (`priority[eq] -= 1; if priority[eq] == 1 { equation_list.push(eq) }`); found `%s` followed by `%s`" % (show(F, u)[:60], show(F, nxt["c"])[:60] if nxt is not None and nxt.get("k") == "If" else None), F.loc(u))
    # (3) a solved pivot no longer counts: weight[pivot] = 0, and only there is a weight written
    wr = [n for n in walk(b.body) if n.get("k") in ("Assign", "AssignOp") and tab_id(n["l"]) == W_]
    rr.instances += 1
    rr.check(len(wr) == 1 and wr[0]["k"] == "Assign" and wr[0]["r"].get("v") == "0", "lazy:pivot-weight-cleared", "lazy_gaussian_elimination: the weight of a pivot is set to 0 when its equation is solved, and weights are not written elsewhere (found %s)" % [show(F, x)[:60] for x in wr], b.span)
    # (4) the dispatch on the popped equation: priority == 0 / == 1
    disp = [n for n in walk(b.body) if n.get("k") == "If" and n["c"].get("k") == "Binary" and n["c"]["op"] == "==" and tab_id(n["c"]["l"]) == P_ and n["c"]["r"].get("k") == "Lit" and not any(n is e for e in enqueue_ifs)]
    vals = sorted(n["c"]["r"]["v"] for n in disp)
    rr.instances += 1
    rr.check(vals[:2] == ["0", "1"], "lazy:dispatch-on-priority", "lazy_gaussian_elimination: a popped equation is classified by `priority == 0` (fully eliminated) and `priority == 1` (one idle variable: pivot); found tests on %s" % vals, b.span)
    # (5) the ready list is seeded with the equations of priority <= 1
    rr.instances += 1
    seeds = [n for n in walk(b.body) if n.get("k") == "MethodCall" and n["name"] == "filter" and any(x.get("k") == "Binary" and tab_id(x["l"]) == P_ for x in walk(n["args"][0]))]
    oks = False
    for f in seeds:
        for x in walk(f["args"][0]):
            if x.get("k") == "Binary" and tab_id(x["l"]) == P_:
                oks = (x["op"] == "<=" and x["r"].get("v") == "1") or (x["op"] == "<" and x["r"].get("v") == "2")
    # ... or with a filter over the elements of the priorities themselves (`priority.iter().enumerate().filter(|&(_, &p)| p <= 1)`)
    if not seeds:
        def chain_root(e):
            while e.get("k") == "MethodCall":
                e = e["recv"]
            while e.get("k") in ("AddrOf", "Field") or (e.get("k") == "Unary" and e.get("op") == "*"):
                e = e["e"]
            return e
        for f in [n for n in walk(b.body) if n.get("k") == "MethodCall" and n["name"] == "filter" and n["args"] and n["args"][0].get("k") == "Closure"]:
            r = chain_root(f["recv"])
            if r.get("k") == "Path" and r.get("id") == P_:
                bound = set(pid for q in f["args"][0].get("params", []) for _nm, pid in pat_bindings(q))
                for x in walk(f["args"][0]["body"]):
                    if x.get("k") == "Binary" and x["op"] in ("<=", "<", ">", ">=", "==", "!="):
                        l = x["l"]
                        while l.get("k") in ("AddrOf",) or (l.get("k") == "Unary" and l.get("op") == "*"):
                            l = l["e"]
                        if l.get("k") == "Path" and l.get("id") in bound:
                            oks = (x["op"] == "<=" and x["r"].get("v") == "1") or (x["op"] == "<" and x["r"].get("v") == "2")
    rr.check(oks, "lazy:initial-ready-list", "lazy_gaussian_elimination: the ready list starts with every equation of priority <= 1", b.span)
    # (6) activation clears the idle flag of the chosen variable
    rr.instances += 1
    oki = any(n.get("k") == "MethodCall" and n["name"] == "set" and len(n["args"]) == 2 and n["args"][1].get("k") == "Lit" and n["args"][1].get("v") in (False, "false") for n in walk(b.body))
    rr.check(oki, "lazy:activation-clears-idle", "lazy_gaussian_elimination: activating a variable clears its idle flag (`idle.set(var, false)`)", b.span)


@rule("R19.6", props=["C19", "C07", "C08"], scope_all=True, floor=3, title="the solvers return an error only for an unsolvable row, for a failed sub-solver, or for the tabled input check (pivot row non-empty)")
def r19_6(ctx, rr):
    """C19: an error is returned only for unsolvable systems. Every explicit `return Err(..)` (bail!/ensure!) of
    echelon_form, gaussian_elimination and lazy_gaussian_elimination must sit under a positive `is_unsolvable()`
    test of a row, or be the input check `ensure!(!row.vars.is_empty())`; everything else propagates with `?`."""
    F = ctx.F()
    n_err = 0
    for path in (r"^utils::mod2_sys::Modulo2System::<W>::echelon_form$", r"^utils::mod2_sys::Modulo2System::<W>::gaussian_elimination$", r"^utils::mod2_sys::Modulo2System::<W>::lazy_gaussian_elimination$"):
        b = F.one(path)
        ps_of = _parents(b)
        for n in walk(b.body):
            if n.get("k") != "Ret" or "e" not in n:
                continue
            s = show(F, n["e"])
            if "from_residual" in s or "FromResidual" in s:
                continue  # `?`
            if not (n["e"].get("k") == "Call" and "Err" in show(F, n["e"]["f"])[:24]):
                continue
            n_err += 1
            rr.instances += 1
            conds = [p for p in ps_of[id(n)] if p.get("k") == "If"]
            ok = False
            for c in conds:
                in_then = any(x is n for x in walk(c["th"]))
                cc = c["c"]
                neg = any(y.get("k") == "Unary" and y.get("op") == "!" for y in walk(cc))
                if in_then and not neg and any(y.get("k") == "MethodCall" and y["name"] == "is_unsolvable" for y in walk(cc)):
                    ok = True
                # ensure!(!x.vars.is_empty()) expands to `if !(!x.vars.is_empty()) { return Err }` or `if x.vars.is_empty()`
                if in_then and any(y.get("k") == "MethodCall" and y["name"] == "is_empty" and any(z.get("k") == "Field" and z["name"] == "vars" for z in walk(y["recv"])) for y in walk(cc)):
                    ok = True
            key = "%s:error-only-when-unsolvable" % b.name
            rr.ob(ok, key=key, sample={"fn": b.key, "at": F.loc(n)})
            if not ok:
                rr.violate(key, "%s returns an error at `%s` that is not guarded by `is_unsolvable()` of a row: a solvable system (e.g. one with redundant equations) can reach it" % (b.key, show(F, conds[-1]["c"])[:100] if conds else "an unconditional return"), F.loc(n))
    if n_err < 3:
        raise AnchorMissing("R19.6: expected at least 3 explicit error returns in the solvers, found %d" % n_err)


@rule("R19.7", props=["C19", "C07", "C08"], scope_all=True, floor=10, title="the solvers' counters keep full width: no cast narrows a count or an index below the type it is computed in")
def r19_7(ctx, rr):
    """weights (equations per variable) and priorities (variables per equation) are counts of arbitrary size; a
    truncating `as u8`/`as u16`/`as u32` is exact only below 256/65536/2^32 and corrupts the lazy bookkeeping above."""
    F = ctx.F()
    WIDTH = {"u8": 8, "u16": 16, "u32": 32, "u64": 64, "usize": 64, "u128": 128, "i8": 8, "i16": 16, "i32": 32, "i64": 64, "isize": 64, "bool": 1}
    n_casts = 0
    for b in F.fns():
        if not b.file.endswith("utils/mod2_sys.rs") or is_derived(b) or "tests" in b.key:
            continue
        for n in walk(b.body):
            if n.get("k") != "Cast" or "e" not in n:
                continue
            dst, src = F.ty(n), F.ty(n["e"])
            if dst not in WIDTH or src not in WIDTH:
                continue
            n_casts += 1
            rr.instances += 1
            ok = WIDTH[dst] >= WIDTH[src] or n["e"].get("k") == "Lit"
            key = "%s:no-narrowing-cast" % b.name
            rr.ob(ok, key=key)
            if not ok:
                rr.violate(key, "%s narrows `%s` from %s to %s: counts of variables/equations are unbounded, the cast is exact only below 2^%d" % (b.key, show(F, n)[:60], src, dst, WIDTH[dst]), F.loc(n))
    if n_casts < 10:
        raise AnchorMissing("R19.7 saw %d integer casts in mod2_sys.rs" % n_casts)


@rule("R19.8", props=["C19", "C07", "C08"], scope_all=True, floor=4, title="echelon_form visits every row (outer loop up to the number of equations, inner loop from the next row to the last); every solution vector has one entry per variable")
def r19_8(ctx, rr):
    """An echelon form has at most num_vars non-zero rows, but the rows are consumed in order, vanished ones included:
    stopping the outer loop at min(len - 1, num_vars) leaves the remaining rows unreduced and unchecked (a contradiction
    among them is answered Ok; a consistent overdetermined system gets an assignment that violates them). A solution
    is indexed by variable: its length is num_vars also for a system without equations."""
    F = ctx.F()
    b = F.one(r"^utils::mod2_sys::Modulo2System::<W>::echelon_form$")
    W = Walker(F, b)
    W.run()
    fl = for_loops(b.body)
    if len(fl) < 2:
        raise AnchorMissing("echelon_form: expected the two nested row loops")

    def is_eq_len(t):
        return t[0] == "call" and t[1].split("::")[-1] == "len" and len(t[2]) == 1 and mentions(t[2][0], lambda x: x[0] == "field" and x[2] == "equations")
    outer = None
    for pat, it, body in fl:
        r = range_of(F, it)
        if r is None:
            continue
        lo, hi, incl = r
        if any(x.get("k") == "Match" and x.get("src") == "ForLoopDesugar" for x in walk(body)):
            outer = (pat, r)
        else:
            inner = (pat, r)
    if outer is None:
        raise AnchorMissing("echelon_form: the outer row loop is not a range loop")
    (_p, (lo, hi, incl)) = outer
    th = W.expand(W.T.term(hi)) if hi is not None else None
    rr.instances += 1
    minus_one = th is not None and ((th[0] == "op" and th[1] == "-" and is_eq_len(th[2]) and th[3] == ("int", 1)) or
                                    (th[0] == "call" and th[1].split("::")[-1] in ("saturating_sub", "wrapping_sub") and len(th[2]) == 2 and is_eq_len(th[2][0]) and th[2][1] == ("int", 1)))
    ok = th is not None and (is_eq_len(th) or (minus_one and not incl)) and W.T.term(lo) == ("int", 0)
    rr.check(ok, "echelon_form:outer-loop-over-all-rows", "echelon_form: the outer loop must take every row but the last as the pivot row in turn (0..equations.len() - 1); found the end `%s`: rows beyond it are neither reduced nor tested for unsolvability" % (tshow(th)[:80] if th else None), b.span)
    (_pi, (lo2, hi2, incl2)) = inner
    th2 = W.expand(W.T.term(hi2)) if hi2 is not None else None
    rr.instances += 1
    rr.check(th2 is not None and is_eq_len(th2) and not incl2, "echelon_form:inner-loop-to-last-row", "echelon_form: the inner loop must run over every later row (i + 1..equations.len()); found the end `%s`" % (tshow(th2)[:80] if th2 else None), b.span)
    # solution vectors
    for path in (r"^utils::mod2_sys::Modulo2System::<W>::gaussian_elimination$", r"^utils::mod2_sys::Modulo2System::<W>::lazy_gaussian_elimination$"):
        sb = F.one(path)
        slf = ("var", "self", sb.params[0]["id"])
        Ws = Walker(F, sb)
        sites = []

        def on_node(Wk, n, K, sites=sites):
            cn = cname(F, n) or ""
            if n.get("k") in ("Call", "MethodCall") and cn.endswith("vec::from_elem") and not Wk.debug_depth:
                # only vectors of W (values of variables): the element is W::ZERO
                a = call_args(n)
                if len(a) == 2 and "ZERO" in show(F, a[0]):
                    sites.append((n, Wk.expand(Wk.T.term(a[1]))))
        Ws.on_node = on_node
        Ws.run()
        if not sites:
            raise AnchorMissing("%s: no solution vector `vec![W::ZERO; ..]`" % sb.key)
        for n, cnt in sites:
            rr.instances += 1
            okc = cnt == ("field", slf, "num_vars")
            rr.check(okc, "%s:solution-has-num_vars-entries" % short_fn(sb.key), "%s creates a vector of values of length `%s`: a solution has one entry per variable (`self.num_vars`), also for a system without equations" % (sb.key, tshow(cnt)[:60]), F.loc(n))
