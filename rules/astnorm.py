"""AST-level canonicalisation applied to every body when the facts are loaded, so that all rules see one shape for
constructs that mean the same:

  * `match x { 0 => A, 3 => B, _ => C }` on a simple integer/bool scrutinee     ->  if x == 0 {A} else if x == 3 {B} else {C}
  * `match a.cmp(&b) { Equal => A, Greater => B, Less => C }` (simple a, b)     ->  if a == b {A} else if a > b {B} else {C}
  * `let r = &mut PLACE; .. *r op= e ..` (PLACE an index/field chain with simple, immutable indices, r bound once)
                                                                                  ->  PLACE op= e
The rewriting only serves the analysis; it never changes what is reported about the source (spans are kept)."""
import copy


def _simple(e, depth=0):
    k = e.get("k")
    if depth > 6:
        return False
    if k in ("Path", "Lit"):
        return True
    if k == "Field":
        return _simple(e["e"], depth + 1)
    if k == "Unary" and e.get("op") == "*":
        return _simple(e["e"], depth + 1)
    if k == "AddrOf":
        return _simple(e["e"], depth + 1)
    if k == "Cast":
        return _simple(e["e"], depth + 1)
    return False


def _strip_ref(e):
    while e.get("k") == "AddrOf":
        e = e["e"]
    return e


def _mk_if(c, th, el, like):
    n = {"k": "If", "c": c, "th": th}
    if el is not None:
        n["el"] = el
    for key in ("s", "t", "ta", "m"):
        if key in like:
            n[key] = like[key]
    return n


def _cmp(op, l, r, like):
    n = {"k": "Binary", "op": op, "l": copy.deepcopy(l), "r": copy.deepcopy(r)}
    if "s" in like:
        n["s"] = like["s"]
    return n


ORD = {"Equal": "==", "Greater": ">", "Less": "<"}


def _match_to_if(n):
    if n.get("k") != "Match" or n.get("src") != "Normal" or any("guard" in a for a in n["arms"]):
        return None
    arms = n["arms"]
    if len(arms) < 2:
        return None
    e = n["e"]
    # (1) literal arms on a simple scrutinee
    if _simple(e) and all(a["pat"].get("k") == "PLit" and a["pat"].get("lk") in ("int", "bool") for a in arms[:-1]):
        last = arms[-1]["pat"]
        exhaustive_bool = last.get("k") == "PLit" and last.get("lk") == "bool" and len(arms) == 2
        if last.get("k") == "PWild" or exhaustive_bool:
            el = arms[-1]["body"]
            for a in reversed(arms[:-1]):
                lit = {"k": "Lit", "lk": a["pat"]["lk"], "v": a["pat"]["v"]}
                c = _cmp("==", e, lit, n) if a["pat"]["lk"] == "int" else (copy.deepcopy(e) if str(a["pat"]["v"]).lower() == "true" else {"k": "Unary", "op": "!", "e": copy.deepcopy(e)})
                el = _mk_if(c, a["body"], el, n)
            return el
    # (2) three-way comparison
    if e.get("k") == "MethodCall" and e.get("name") in ("cmp",) and len(e.get("args", [])) == 1:
        x, y = _strip_ref(e["recv"]), _strip_ref(e["args"][0])
        names = [a["pat"].get("name") for a in arms]
        if _simple(x) and _simple(y) and all(a["pat"].get("k") in ("PLit", "PWild") for a in arms) and all((nm in ORD) for nm in names[:-1]) and (names[-1] in ORD or arms[-1]["pat"].get("k") == "PWild"):
            if arms[-1]["pat"].get("k") != "PWild" and sorted(names) != ["Equal", "Greater", "Less"]:
                return None
            el = arms[-1]["body"]
            for a in reversed(arms[:-1]):
                el = _mk_if(_cmp(ORD[a["pat"]["name"]], x, y, n), a["body"], el, n)
            return el
    return None


def _place_ok(e, mut_ids, depth=0):
    """an index/field chain rooted at a local, whose indices are literals, fields or immutable locals"""
    k = e.get("k")
    if depth > 5:
        return False
    if k == "Path":
        return e.get("res") == "local"
    if k == "Field":
        return _place_ok(e["e"], mut_ids, depth + 1)
    if k == "Index":
        i = e["i"]
        ok_i = i.get("k") == "Lit" or (i.get("k") == "Path" and i.get("res") == "local" and i.get("id") not in mut_ids)
        return ok_i and _place_ok(e["e"], mut_ids, depth + 1)
    if k == "MethodCall" and e.get("name") in ("as_mut", "as_ref") and not e.get("args"):
        return _place_ok(e["recv"], mut_ids, depth + 1)
    return False


def _walk(n):
    stack = [n]
    while stack:
        x = stack.pop()
        if isinstance(x, dict):
            yield x
            stack.extend(v for v in x.values() if isinstance(v, (dict, list)))
        elif isinstance(x, list):
            stack.extend(v for v in x if isinstance(v, (dict, list)))


def _rewrite(n, fn):
    """bottom-up rewriting of every dict node"""
    if isinstance(n, list):
        return [_rewrite(x, fn) for x in n]
    if not isinstance(n, dict):
        return n
    for k, v in list(n.items()):
        if isinstance(v, (dict, list)):
            n[k] = _rewrite(v, fn)
    r = fn(n)
    return n if r is None else r


def normalize_body(body):
    # which locals are ever assigned (or bound `mut`)
    mut_ids = set()
    assigned = {}
    for x in _walk(body):
        if x.get("k") == "PBind" and x.get("mut"):
            mut_ids.add(x.get("id"))
        if x.get("k") in ("Assign", "AssignOp") and isinstance(x.get("l"), dict) and x["l"].get("k") == "Path":
            mut_ids.add(x["l"].get("id"))
    # reference aliases of places
    alias = {}
    for x in _walk(body):
        if x.get("k") == "LetStmt" and isinstance(x.get("pat"), dict) and x["pat"].get("k") == "PBind" and not x["pat"].get("mut") and isinstance(x.get("init"), dict):
            init = x["init"]
            if init.get("k") == "AddrOf" and init["e"].get("k") in ("Index", "Field") and _place_ok(init["e"], mut_ids):
                alias[x["pat"]["id"]] = init["e"]

    def fn(n):
        k = n.get("k")
        if k == "Unary" and n.get("op") == "*" and n["e"].get("k") == "Path" and n["e"].get("res") == "local" and n["e"].get("id") in alias:
            r = copy.deepcopy(alias[n["e"]["id"]])
            for key in ("s",):
                if key in n:
                    r[key] = n[key]
            return r
        if k == "Match":
            return _match_to_if(n)
        return None
    return _rewrite(body, fn)
