"""AST-level canonicalisation applied to every body when the facts are loaded, so that all rules see one shape for
constructs that mean the same:

  * `match x { 0 => A, 3 => B, _ => C }` on a simple integer/bool scrutinee     ->  if x == 0 {A} else if x == 3 {B} else {C}
  * `match a.cmp(&b) { Equal => A, Greater => B, Less => C }` (simple a, b)     ->  if a == b {A} else if a > b {B} else {C}
  * `let r = &mut PLACE; .. *r op= e ..` (PLACE an index/field chain with simple, immutable indices, r bound once)
                                                                                  ->  PLACE op= e
The rewriting only serves the analysis; it never changes what is reported about the source (spans are kept)."""
import copy


def _simple(e, depth=0):
    k = e.get("k")
    if depth > 6:
        return False
    if k in ("Path", "Lit"):
        return True
    if k == "Field":
        return _simple(e["e"], depth + 1)
    if k == "Unary" and e.get("op") == "*":
        return _simple(e["e"], depth + 1)
    if k == "AddrOf":
        return _simple(e["e"], depth + 1)
    if k == "Cast":
        return _simple(e["e"], depth + 1)
    if k == "Index":
        return _simple(e["e"], depth + 1) and _simple(e["i"], depth + 1)
    return False


def _strip_ref(e):
    while e.get("k") == "AddrOf":
        e = e["e"]
    return e


def _mk_if(c, th, el, like):
    n = {"k": "If", "c": c, "th": th}
    if el is not None:
        n["el"] = el
    for key in ("s", "t", "ta", "m"):
        if key in like:
            n[key] = like[key]
    return n


def _cmp(op, l, r, like):
    n = {"k": "Binary", "op": op, "l": copy.deepcopy(l), "r": copy.deepcopy(r)}
    if "s" in like:
        n["s"] = like["s"]
    return n


ORD = {"Equal": "==", "Greater": ">", "Less": "<"}


def _int_chain(n):
    """`match x { 0 => A, 1..=9 => B, _ if g => C, _ => D }` on a simple integer scrutinee as an if-chain"""
    arms = n["arms"]
    e = n["e"]
    if not _simple(e) or len(arms) < 2:
        return None
    last = arms[-1]
    if last["pat"].get("k") != "PWild" or "guard" in last:
        return None
    conds = []
    for a in arms[:-1]:
        p = a["pat"]
        if p.get("k") == "PLit" and p.get("lk") == "int" and "guard" not in a:
            conds.append(_cmp("==", e, {"k": "Lit", "lk": "int", "v": p["v"]}, n))
        elif p.get("k") == "PRange" and "guard" not in a and isinstance(p.get("lo"), dict) and isinstance(p.get("hi"), dict) and p["lo"].get("lk") == "int" and p["hi"].get("lk") == "int":
            hi = _cmp("<=" if p.get("incl") else "<", e, {"k": "Lit", "lk": "int", "v": p["hi"]["v"]}, n)
            if str(p["lo"]["v"]) == "0":
                conds.append(hi)
            else:
                lo = _cmp("<=", {"k": "Lit", "lk": "int", "v": p["lo"]["v"]}, e, n)
                conds.append({"k": "Binary", "op": "&&", "l": lo, "r": hi, "s": n.get("s", "")})
        elif p.get("k") == "PWild" and "guard" in a:
            conds.append(a["guard"])
        else:
            return None
    if not any(a["pat"].get("k") == "PRange" or "guard" in a for a in arms[:-1]):
        return None     # plain literal arms are handled below
    el = last["body"]
    for a, c in reversed(list(zip(arms[:-1], conds))):
        el = _mk_if(c, a["body"], el, n)
    return el


def _matches_to_eq(n):
    """`matches!(e, Enum::Variant)` = `match e { Enum::Variant => true, _ => false }` on a unit variant is `e == Enum::Variant`"""
    arms = n["arms"]
    if len(arms) != 2 or any("guard" in a for a in arms) or not _simple(n["e"]):
        return None
    p0, p1 = arms[0]["pat"], arms[1]["pat"]
    def boollit(b, v):
        while b.get("k") == "Block" and not b.get("stmts") and "expr" in b:
            b = b["expr"]
        return b.get("k") == "Lit" and b.get("lk") == "bool" and str(b.get("v")).lower() == v
    if p0.get("k") == "PLit" and p0.get("res") == "def" and "Ctor" in str(p0.get("dk", "")) and p1.get("k") == "PWild" and boollit(arms[0]["body"], "true") and boollit(arms[1]["body"], "false"):
        rhs = {"k": "Path", "res": "def", "dk": p0.get("dk"), "def": p0.get("def"), "name": p0.get("name")}
        c = _cmp("==", n["e"], rhs, n)
        c["callee"] = None       # an overloaded `==` (PartialEq of the enum), like the one written by hand
        return c
    return None


def _match_to_if(n):
    if n.get("k") != "Match" or n.get("src") != "Normal":
        return None
    r = _matches_to_eq(n)
    if r is not None:
        return r
    r = _int_chain(n)
    if r is not None:
        return r
    if any("guard" in a for a in n["arms"]):
        return None
    arms = n["arms"]
    if len(arms) < 2:
        return None
    e = n["e"]
    # (0) `match a.checked_sub(b) { None => A, Some(d) => B }` (simple a, b)  ->  if a < b {A} else { let d = a - b; B }
    if e.get("k") == "MethodCall" and e.get("name") == "checked_sub" and e.get("cc") == "core" and len(e.get("args", [])) == 1 and len(arms) == 2 \
            and _simple(e["recv"]) and _simple(e["args"][0]):
        none = [a for a in arms if a["pat"].get("k") == "PLit" and a["pat"].get("name") == "None"]
        some = [a for a in arms if a["pat"].get("k") == "PTupleStruct" and a["pat"].get("name") == "Some" and len(a["pat"].get("ps", [])) == 1 and a["pat"]["ps"][0].get("k") in ("PBind", "PWild")]
        if len(none) == 1 and len(some) == 1:
            sp = some[0]["pat"]["ps"][0]
            body = some[0]["body"]
            if sp.get("k") == "PBind":
                diff = {"k": "Binary", "op": "-", "l": copy.deepcopy(e["recv"]), "r": copy.deepcopy(e["args"][0]), "s": e.get("s", "")}
                if "t" in sp:
                    diff["t"] = sp["t"]
                let = {"k": "LetStmt", "pat": sp, "init": diff, "s": e.get("s", "")}
                if body.get("k") == "Block" and not body.get("unsafe"):
                    body = dict(body, stmts=[let] + list(body.get("stmts", [])))
                else:
                    blk = {"k": "Block", "stmts": [let], "expr": body, "s": body.get("s", "")}
                    if "t" in body:
                        blk["t"] = body["t"]
                    body = blk
            return _mk_if(_cmp("<", e["recv"], e["args"][0], n), none[0]["body"], body, n)
    # (1) literal arms on a simple scrutinee
    if _simple(e) and all(a["pat"].get("k") == "PLit" and a["pat"].get("lk") in ("int", "bool") for a in arms[:-1]):
        last = arms[-1]["pat"]
        exhaustive_bool = last.get("k") == "PLit" and last.get("lk") == "bool" and len(arms) == 2
        if last.get("k") == "PWild" or exhaustive_bool:
            el = arms[-1]["body"]
            for a in reversed(arms[:-1]):
                lit = {"k": "Lit", "lk": a["pat"]["lk"], "v": a["pat"]["v"]}
                c = _cmp("==", e, lit, n) if a["pat"]["lk"] == "int" else (copy.deepcopy(e) if str(a["pat"]["v"]).lower() == "true" else {"k": "Unary", "op": "!", "e": copy.deepcopy(e)})
                el = _mk_if(c, a["body"], el, n)
            return el
    # (2) three-way comparison
    if e.get("k") == "MethodCall" and e.get("name") in ("cmp",) and len(e.get("args", [])) == 1:
        x, y = _strip_ref(e["recv"]), _strip_ref(e["args"][0])
        names = [a["pat"].get("name") for a in arms]
        if _simple(x) and _simple(y) and all(a["pat"].get("k") in ("PLit", "PWild") for a in arms) and all((nm in ORD) for nm in names[:-1]) and (names[-1] in ORD or arms[-1]["pat"].get("k") == "PWild"):
            if arms[-1]["pat"].get("k") != "PWild" and sorted(names) != ["Equal", "Greater", "Less"]:
                return None
            el = arms[-1]["body"]
            for a in reversed(arms[:-1]):
                el = _mk_if(_cmp(ORD[a["pat"]["name"]], x, y, n), a["body"], el, n)
            return el
    return None


def _place_ok(e, mut_ids, depth=0):
    """an index/field chain rooted at a local, whose indices are literals, fields or immutable locals"""
    k = e.get("k")
    if depth > 5:
        return False
    if k == "Path":
        return e.get("res") == "local"
    if k == "Field":
        return _place_ok(e["e"], mut_ids, depth + 1)
    if k == "Index":
        i = e["i"]
        ok_i = i.get("k") == "Lit" or (i.get("k") == "Path" and i.get("res") == "local" and i.get("id") not in mut_ids) or \
            (i.get("k") == "Field" and _simple(i) and ("field:" + str(i.get("name"))) not in mut_ids)
        return ok_i and _place_ok(e["e"], mut_ids, depth + 1)
    if k == "MethodCall" and e.get("name") in ("as_mut", "as_ref") and not e.get("args"):
        return _place_ok(e["recv"], mut_ids, depth + 1)
    return False


def _walk(n):
    stack = [n]
    while stack:
        x = stack.pop()
        if isinstance(x, dict):
            yield x
            stack.extend(v for v in x.values() if isinstance(v, (dict, list)))
        elif isinstance(x, list):
            stack.extend(v for v in x if isinstance(v, (dict, list)))


def _rewrite(n, fn):
    """bottom-up rewriting of every dict node"""
    if isinstance(n, list):
        return [_rewrite(x, fn) for x in n]
    if not isinstance(n, dict):
        return n
    for k, v in list(n.items()):
        if isinstance(v, (dict, list)):
            n[k] = _rewrite(v, fn)
    r = fn(n)
    return n if r is None else r


def normalize_body(body):
    # which locals are ever assigned (or bound `mut`)
    mut_ids = set()
    assigned = {}
    for x in _walk(body):
        if x.get("k") == "PBind" and x.get("mut"):
            mut_ids.add(x.get("id"))
        if x.get("k") in ("Assign", "AssignOp") and isinstance(x.get("l"), dict) and x["l"].get("k") == "Path":
            mut_ids.add(x["l"].get("id"))
        if x.get("k") in ("Assign", "AssignOp") and isinstance(x.get("l"), dict) and x["l"].get("k") == "Field":
            mut_ids.add("field:" + str(x["l"].get("name")))
    # reference aliases of places
    alias = {}
    for x in _walk(body):
        if x.get("k") == "LetStmt" and isinstance(x.get("pat"), dict) and x["pat"].get("k") == "PBind" and not x["pat"].get("mut") and isinstance(x.get("init"), dict):
            init = x["init"]
            if init.get("k") == "AddrOf" and init["e"].get("k") in ("Index", "Field") and _place_ok(init["e"], mut_ids):
                alias[x["pat"]["id"]] = init["e"]
            # `let w = words.get_unchecked_mut(i)`: *w is the place *words.get_unchecked_mut(i)
            if init.get("k") == "MethodCall" and init.get("name") == "get_unchecked_mut" and len(init.get("args", [])) == 1 and _place_ok(init["recv"], mut_ids):
                i = init["args"][0]
                pure_i = all(y.get("k") in ("Path", "Lit", "Binary", "Field", "Cast") and not (y.get("k") == "Path" and y.get("res") == "local" and y.get("id") in mut_ids) for y in _walk(i))
                if pure_i:
                    alias[x["pat"]["id"]] = {"k": "Unary", "op": "*", "e": init, "s": init.get("s", "")}

    def fn(n):
        k = n.get("k")
        if k == "Unary" and n.get("op") == "*" and n["e"].get("k") == "Path" and n["e"].get("res") == "local" and n["e"].get("id") in alias:
            r = copy.deepcopy(alias[n["e"]["id"]])
            for key in ("s",):
                if key in n:
                    r[key] = n[key]
            return r
        # the alias used as a receiver (auto-deref): `r.seek(..)` is `PLACE.seek(..)`
        if k == "MethodCall" and isinstance(n.get("recv"), dict) and n["recv"].get("k") == "Path" and n["recv"].get("res") == "local" and n["recv"].get("id") in alias:
            r = copy.deepcopy(alias[n["recv"]["id"]])
            for key in ("s", "t", "ta"):
                if key in n["recv"]:
                    r.setdefault(key, n["recv"][key])
            n["recv"] = r
            return n
        if k == "Match":
            return _match_to_if(n)
        if k in ("AssignOp", "Assign") and isinstance(n.get("r"), dict) and isinstance(n.get("l"), dict) and _simple(n["l"]):
            r = n["r"]
            # `x op= { S; e }` is `{ S; x op= e }` (x a plain place)
            if r.get("k") == "Block" and r.get("stmts") and "expr" in r:
                inner = fn(dict(n, r=r["expr"])) or dict(n, r=r["expr"])
                return {"k": "Block", "stmts": list(r["stmts"]) + [inner], "s": r.get("s", n.get("s", ""))}
            # `x += if c {a} else {b}` / `x += match e { P => a, .. }`: the update moves into the branches
            if r.get("k") == "If" and "el" in r and r["c"].get("k") != "Let":
                def push(br):
                    return {"k": "Block", "stmts": [dict(n, r=_tail_value(br))], "s": br.get("s", n.get("s", ""))}
                if _tail_value(r["th"]) is not None and _tail_value(r["el"]) is not None:
                    return _mk_if(r["c"], push(r["th"]), fn_if_else(r["el"], n), n)
            if r.get("k") == "Match" and r.get("src") == "Normal" and all(a["body"].get("k") != "Block" or "expr" in a["body"] for a in r["arms"]):
                def push_arm(body):
                    if body.get("k") == "Block":
                        inner = fn(dict(n, r=body["expr"])) or dict(n, r=body["expr"])
                        return {"k": "Block", "stmts": list(body.get("stmts", [])) + [inner], "s": body.get("s", n.get("s", ""))}
                    inner = fn(dict(n, r=body)) or dict(n, r=body)
                    return {"k": "Block", "stmts": [inner], "s": body.get("s", n.get("s", ""))}
                m = dict(r)
                m["arms"] = [dict(a, body=push_arm(a["body"])) for a in r["arms"]]
                return m
            # `x += 0`, `x |= 0`, `x ^= 0`, `x -= 0` do nothing
            if k == "AssignOp" and n.get("op") in ("+=", "-=", "|=", "^=") and r.get("k") == "Lit" and r.get("lk") == "int" and str(r.get("v")) == "0":
                return {"k": "Block", "stmts": [], "s": n.get("s", "")}
        return None

    def fn_if_else(el, asg):
        if el.get("k") == "If" and "el" in el and el["c"].get("k") != "Let" and _tail_value(el["th"]) is not None:
            return _mk_if(el["c"], {"k": "Block", "stmts": [dict(asg, r=_tail_value(el["th"]))], "s": el.get("s", "")}, fn_if_else(el["el"], asg), el)
        return {"k": "Block", "stmts": [dict(asg, r=_tail_value(el))], "s": el.get("s", asg.get("s", ""))}
    return _rewrite(body, fn)


def _tail_value(br):
    """the value expression of a branch: the branch itself, or the tail of a statement-free block"""
    if br.get("k") == "Block":
        if br.get("stmts") or "expr" not in br:
            return None
        return _tail_value(br["expr"])
    return br


# ---------------------------------------------------------------------------------------------------------------
# inlining of helpers that the reference tree does not have

def _has_ret(body):
    return any(x.get("k") == "Ret" for x in _walk(body))


def _rename_ids(node, suffix, keep):
    for x in _walk(node):
        if x.get("k") in ("PBind",) and "id" in x and x["id"] not in keep:
            x["id"] = "%s~%s" % (x["id"], suffix)
        if x.get("k") == "Path" and x.get("res") == "local" and "id" in x and x["id"] not in keep:
            x["id"] = "%s~%s" % (x["id"], suffix)
    return node


def _subst_local(node, lid, expr):
    def fn(n):
        if n.get("k") == "Path" and n.get("res") == "local" and n.get("id") == lid:
            r = copy.deepcopy(expr)
            return r
        return None
    return _rewrite(node, fn)


def inline_new_helpers(facts, known):
    """For every call of a crate function that is not in `known` (and is small, has no explicit `return`, is not
    recursive): replace the call by a block binding the parameters and evaluating the helper's body."""
    by_path = {}
    for b in facts.bodies:
        if b.dk in ("Fn", "AssocFn"):
            by_path.setdefault(b.path, []).append(b)
    # paths are compared without the names of generic parameters (renaming a type parameter renames no function)
    from ir import canon_generics
    known_c = set(canon_generics(k) for k in known)
    # a function that carries the name of a known one (a helper moved to another impl, a trait method turned into a
    # free function) is that helper in another place, not an extraction: it stays a call
    # (only a known function that is *gone* can have moved: a new function that merely shares its last name with
    # functions that are all still in place is an extraction like any other)
    cur_c = set(canon_generics(p) for p in by_path)
    known_last = set(k.rsplit("::", 1)[-1] for k in known_c if k not in cur_c)
    new = {p: bs[0] for p, bs in by_path.items() if p not in known and canon_generics(p) not in known_c and len(bs) == 1 and canon_generics(p).rsplit("::", 1)[-1] not in known_last}
    if not new:
        return 0
    ok_helpers = {}
    for p, h in new.items():
        body = h.body
        if body.get("k") != "Block":
            continue
        if _has_ret(body) or sum(1 for _ in _walk(body)) > 400:
            continue
        if any(x.get("k") in ("Call", "MethodCall") and x.get("callee") is not None and facts.paths[x["callee"]] == p for x in _walk(body)):
            continue
        if not all(q.get("k") == "PBind" for q in h.params):
            continue
        ok_helpers[p] = h
    if not ok_helpers:
        return 0
    counter = [0]
    used = set()
    facts.new_helpers_inlined = used

    def expand_in(body, depth=0):
        def fn(n):
            if n.get("k") not in ("Call", "MethodCall") or n.get("callee") is None:
                return None
            p = facts.paths[n["callee"]]
            h = ok_helpers.get(p)
            if h is None:
                return None
            args = ([n["recv"]] if n.get("k") == "MethodCall" else []) + list(n.get("args", []))
            if len(args) != len(h.params):
                return None
            counter[0] += 1
            used.add(p)
            suffix = "h%d" % counter[0]
            hb = _rename_ids(copy.deepcopy(h.body), suffix, set())
            stmts = []
            for q, a in zip(h.params, args):
                pid = "%s~%s" % (q["id"], suffix)
                a0 = a
                # auto-ref'd receivers and simple places are substituted; anything else is bound once
                if _simple(a0) and not q.get("mut"):
                    hb = _subst_local(hb, pid, a0)
                else:
                    pat = copy.deepcopy(q)
                    pat["id"] = pid
                    stmts.append({"k": "LetStmt", "pat": pat, "init": a0, "s": n.get("s", "")})
            blk = {"k": "Block", "stmts": stmts + list(hb.get("stmts", [])), "inlined": p}
            if "expr" in hb:
                blk["expr"] = hb["expr"]
            for key in ("s", "t", "ta"):
                if key in n:
                    blk[key] = n[key]
            if hb.get("unsafe") or h.unsafe:
                blk["unsafe"] = True
            return blk
        return _rewrite(body, fn)
    n_sites = 0
    for b in facts.bodies:
        if b.path in ok_helpers and False:
            continue
        for _round in range(2):
            before = counter[0]
            b.body = expand_in(b.body)
            if counter[0] == before:
                break
        n_sites = counter[0]
    return n_sites


def inline_delegating_constructors(facts):
    """A function whose value is a call `T::ctor(args)` of a constructor of the same file whose whole body is a struct
    literal over its parameters (`from_raw_parts`) builds the structure exactly like the literal written in place (the
    fields are private: only code of that file could write it): the call is replaced by the literal, so that the rules on
    constructed fields see one form. Only the value (tail) of the function is rewritten; other uses stay calls."""
    ctors = {}
    for b in facts.bodies:
        if b.dk in ("Fn", "AssocFn") and isinstance(b.body, dict) and b.body.get("k") == "Block" and not b.body.get("stmts") \
                and isinstance(b.body.get("expr"), dict) and b.body["expr"].get("k") == "Struct" and "base" not in b.body["expr"] \
                and b.params and all(q.get("k") == "PBind" for q in b.params):
            st = b.body["expr"]
            # every field is a parameter or a pure expression of parameters; no parameter is dropped
            pids = set(q["id"] for q in b.params)
            used = set(x.get("id") for x in _walk(st) if x.get("k") == "Path" and x.get("res") == "local")
            if used == pids:
                ctors.setdefault(b.path, []).append(b)
    ctors = {p: bs[0] for p, bs in ctors.items() if len(bs) == 1}
    if not ctors:
        return 0
    count = [0]
    for b in facts.bodies:
        if b.dk not in ("Fn", "AssocFn") or b.path in ctors or not isinstance(b.body, dict):
            continue
        # descend to the tail expression
        holder, key = b, None
        node = b.body
        parent = None
        while isinstance(node, dict) and node.get("k") == "Block" and isinstance(node.get("expr"), dict):
            parent = node
            node = node["expr"]
        if parent is None or node.get("k") != "Call" or node.get("callee") is None:
            continue
        h = ctors.get(facts.paths[node["callee"]])
        if h is None or h.file != b.file or len(node.get("args", [])) != len(h.params):
            continue
        count[0] += 1
        suffix = "c%d" % count[0]
        lit = _rename_ids(copy.deepcopy(h.body["expr"]), suffix, set())
        stmts = []
        for q, a in zip(h.params, node["args"]):
            pid = "%s~%s" % (q["id"], suffix)
            if _simple(a) and not q.get("mut"):
                lit = _subst_local(lit, pid, a)
            else:
                pat = copy.deepcopy(q)
                pat["id"] = pid
                stmts.append({"k": "LetStmt", "pat": pat, "init": a, "s": node.get("s", "")})
        lit["s"] = node.get("s", lit.get("s", ""))
        lit["ctor_of"] = h.path
        parent["stmts"] = list(parent.get("stmts", [])) + stmts
        parent["expr"] = lit
    return count[0]


def int_classes(n, evalf=None):
    """The partition of an integer scrutinee made by an if-chain `if x <= a {A} else if x <= b {B} else {C}` (as
    produced from a range match, or written by hand): [(lo, hi, body), ..., (None, None, else-body)], None if n is not
    such a chain. Conditions understood: x <= K, x < K, K >= x, K > x, x == K, lo <= x && x <= hi."""
    def lit(e):
        if e.get("k") == "Lit" and e.get("lk") == "int":
            return int(e["v"])
        # a constant expression (named constant, 1 << 16): its value, when the caller can evaluate it
        if evalf is not None and e.get("k") in ("Path", "Binary", "Cast") and not (e.get("k") == "Path" and e.get("res") == "local"):
            return evalf(e)
        return None

    def bound(c):
        # -> (lo or None, hi) for the condition, and the scrutinee node
        if c.get("k") == "Binary" and c["op"] == "&&":
            a, b = bound(c["l"]), bound(c["r"])
            if a and b and repr(_key(a[2])) == repr(_key(b[2])):
                los = [x for x in (a[0], b[0]) if x is not None]
                his = [x for x in (a[1], b[1]) if x is not None]
                return (max(los) if los else None, min(his) if his else None, a[2])
            return None
        if c.get("k") != "Binary":
            return None
        op, l, r = c["op"], c["l"], c["r"]
        if lit(r) is not None and _simple(l):
            k = lit(r)
            return {"<=": (None, k, l), "<": (None, k - 1, l), "==": (k, k, l), ">=": (k, None, l), ">": (k + 1, None, l)}.get(op)
        if lit(l) is not None and _simple(r):
            k = lit(l)
            return {">=": (None, k, r), ">": (None, k - 1, r), "==": (k, k, r), "<=": (k, None, r), "<": (k + 1, None, r)}.get(op)
        return None

    def _key(e):
        return {k: (v if not isinstance(v, (dict, list)) else _key(v) if isinstance(v, dict) else [_key(x) if isinstance(x, dict) else x for x in v]) for k, v in e.items() if k in ("k", "name", "id", "res", "e", "op")}
    out = []
    cur = n
    prev_hi = -1
    scrut = None
    while isinstance(cur, dict) and cur.get("k") == "If" and "el" in cur and cur["c"].get("k") != "Let":
        b = bound(cur["c"])
        if b is None or b[1] is None:
            break
        if scrut is None:
            scrut = repr(_key(b[2]))
        elif repr(_key(b[2])) != scrut:
            break
        lo = b[0] if b[0] is not None else prev_hi + 1
        out.append((lo, b[1], cur["th"]))
        prev_hi = b[1]
        cur = cur["el"]
        while isinstance(cur, dict) and cur.get("k") == "Block" and not cur.get("stmts") and "expr" in cur and cur["expr"].get("k") == "If":
            cur = cur["expr"]
    if len(out) < 1:
        return None
    out.append((None, None, cur))
    return out



def defer_let_branches(body):
    """(used by the sibling skeletons only) `let x = match e { P => { S; v }, .. }` / `let x = if c { S; v } else { .. }`
    written as a declaration followed by the branching statement assigning x in every branch -- the form in which each
    branch's value is a statement of its own. Returns a rewritten deep copy."""
    body = copy.deepcopy(body)

    def assign_into(br, pat):
        if br.get("k") == "Block":
            if "expr" not in br:
                return None
            inner = assign_into(br["expr"], pat)
            if inner is None:
                return None
            stmts = list(br.get("stmts", []))
            return {"k": "Block", "stmts": stmts + ([inner] if inner.get("k") != "Block" or inner.get("stmts") else []), "s": br.get("s", "")}
        if br.get("k") == "If" and "el" in br and br["c"].get("k") != "Let":
            a, b = assign_into(br["th"], pat), assign_into(br["el"], pat)
            if a is None or b is None:
                return None
            return _mk_if(br["c"], a if a.get("k") == "Block" else {"k": "Block", "stmts": [a]}, b if b.get("k") == "Block" else {"k": "Block", "stmts": [b]}, br)
        if br.get("k") == "Match" and br.get("src") == "Normal":
            arms = []
            for a in br["arms"]:
                x = assign_into(a["body"], pat)
                if x is None:
                    return None
                arms.append(dict(a, body=x if x.get("k") == "Block" else {"k": "Block", "stmts": [x]}))
            return dict(br, arms=arms)
        if br.get("k") in ("Ret", "Break", "Continue"):
            return br
        if br.get("k") == "Call" and str(br.get("f", {}).get("name", "")).startswith("unreachable"):
            return br
        if pat.get("k") == "PTuple":
            # `(a, b) = (x, y)` leaf by leaf
            if br.get("k") != "Tup" or len(br.get("es", [])) != len(pat["ps"]):
                return None
            asg = [{"k": "Assign", "l": {"k": "Path", "res": "local", "id": q["id"], "name": q["name"]}, "r": e, "s": e.get("s", "")} for q, e in zip(pat["ps"], br["es"]) if q.get("k") == "PBind"]
            return {"k": "Block", "stmts": asg, "s": br.get("s", "")}
        return {"k": "Assign", "l": {"k": "Path", "res": "local", "id": pat["id"], "name": pat["name"]}, "r": br, "s": br.get("s", "")}

    def fn(n):
        if n.get("k") != "Block":
            return None
        out = []
        changed = False
        for st in n.get("stmts", []):
            tuple_ok = st.get("k") == "LetStmt" and st["pat"].get("k") == "PTuple" and all(q.get("k") in ("PBind", "PWild") for q in st["pat"].get("ps", []))
            if st.get("k") == "LetStmt" and (st["pat"].get("k") == "PBind" or tuple_ok) and isinstance(st.get("init"), dict) and st["init"].get("k") in ("Match", "If") and "els" not in st:
                init = st["init"]
                if init.get("k") == "If" and ("el" not in init or init["c"].get("k") == "Let"):
                    out.append(st)
                    continue
                # a plain two-way value (`if c { a } else { b }`, no statements in the branches) stays an expression
                if st["pat"].get("k") == "PBind" and init.get("k") == "If" and not any(x.get("k") == "Block" and x.get("stmts") for x in _walk(init)) and not any(x.get("k") == "Match" for x in _walk(init)):
                    out.append(st)
                    continue
                branching = assign_into(init, st["pat"])
                if branching is not None:
                    if st["pat"].get("k") == "PTuple":
                        for q in st["pat"]["ps"]:
                            if q.get("k") == "PBind":
                                out.append({"k": "LetStmt", "pat": q, "s": st.get("s", "")})
                    else:
                        decl = {k_: v_ for k_, v_ in st.items() if k_ != "init"}
                        out.append(decl)
                    out.append(branching)
                    changed = True
                    continue
            out.append(st)
        if changed:
            n["stmts"] = out
        return None
    return _rewrite(body, fn)
