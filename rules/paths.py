"""Path enumeration for small loop-free bodies: each path is the list of events met from entry to an exit.

events: ("cond", node, polarity)   an `if` condition decided
        ("iflet", node, matched)   an `if let` decided
        ("arm", match_node, arm)   a match arm taken
        ("let", node)              a let statement
        ("expr", node)             an expression statement (call, assignment, ...)
        ("ret", value_node|None)   the exit and the value returned there (tail expression or `return e`)
Conditions inside `&&`/`||` are not split; a loop raises Unsupported."""


class Unsupported(Exception):
    pass


def enum_paths(body, limit=2000):
    out = []

    def ev_node(n, ev):
        """-> list of (events, value, done)"""
        k = n.get("k")
        if k == "Block":
            states = [(ev, None, False)]
            for st in n.get("stmts", []):
                nxt = []
                for e, _v, done in states:
                    if done:
                        nxt.append((e, _v, True))
                    else:
                        nxt.extend(ev_node(st, e))
                states = nxt
                if len(states) > limit:
                    raise Unsupported("too many paths")
            if "expr" in n:
                nxt = []
                for e, _v, done in states:
                    if done:
                        nxt.append((e, _v, True))
                    else:
                        nxt.extend(ev_node(n["expr"], e))
                states = nxt
            else:
                states = [(e, (v if done else None), done) for e, v, done in states]
            return states
        if k == "LetStmt":
            res = []
            inits = ev_node(n["init"], ev) if "init" in n and n["init"].get("k") in ("If", "Match", "Block") else [(ev, n.get("init"), False)]
            for e, v, done in inits:
                res.append((e, v, True) if done else (e + [("let", n, v)], None, False))
            return res
        if k == "If":
            c = n["c"]
            res = []
            if c.get("k") == "Let":
                res += ev_node(n["th"], ev + [("iflet", n, True)])
                res += ev_node(n["el"], ev + [("iflet", n, False)]) if "el" in n else [(ev + [("iflet", n, False)], None, False)]
            else:
                res += ev_node(n["th"], ev + [("cond", c, True)])
                res += ev_node(n["el"], ev + [("cond", c, False)]) if "el" in n else [(ev + [("cond", c, False)], None, False)]
            return res
        if k == "Match":
            res = []
            for a in n["arms"]:
                res += ev_node(a["body"], ev + [("arm", n, a)])
            return res
        if k == "Ret":
            return [(ev + [("ret", n.get("e")), ("explicit-return", n)], n.get("e"), True)]
        if k == "Loop":
            raise Unsupported("loop")
        return [(ev + [("expr", n)], n, False)]

    for e, v, done in ev_node(body, []):
        if not done:
            e = e + [("ret", v)]
        out.append(e)
    return out
