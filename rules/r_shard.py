"""C16: every ShardEdge implementation maps a signature to three distinct in-range cells, the same
at build time (local_edge of local_sig, shifted by the shard's base) and at query time (edge)."""
import re
from framework import rule
from guards import is_derived
from r_guards import short_fn
from sym import *  # noqa
from ir import *  # noqa

SHARD_TRAIT = "func::shard_edge::ShardEdge"


class DeepInliner:
    """Symbolically executes crate functions (straight-line bodies, mutable locals, if-expressions)
    and returns the term of their result; used to see through the one-line ShardEdge methods and the
    edge_* helpers."""

    def __init__(self, F, keep_narrowing=True, max_depth=5):
        self.F = F
        self.depth = 0
        self.max_depth = max_depth
        self.keep_narrowing = keep_narrowing
        self.by_path = {}
        for b in F.fns():
            self.by_path.setdefault(b.path, []).append(b)
        self.impl_methods = {}
        for b in F.fns():
            if b.impl_trait and b.impl_trait_ref:
                self.impl_methods[(norm_ws(b.impl_trait_ref), b.name)] = b

    def resolve(self, n):
        F = self.F
        c = F.callee(n)
        if c is None or n.get("cc") != "sux":
            return None
        tr = F.ctrait(n)
        if tr is not None and n.get("ga"):
            ga = n["ga"]
            self_ty = ga[0]
            while self_ty.startswith("&"):
                self_ty = self_ty[1:].replace("mut ", "", 1).strip()
            rest = [g for g in ga[1:]]
            ref = "<%s as %s%s>" % (self_ty, tr, ("<" + ", ".join(rest) + ">") if rest else "")
            name = strip_generics(c).split("::")[-1]
            b = self.impl_methods.get((norm_ws(ref), name))
            if b is not None:
                return b
            # trait default method
            ds = [x for x in self.by_path.get(c, []) if x.in_trait]
            if len(ds) == 1:
                return ds[0]
            return None
        hits = self.by_path.get(c, [])
        if len(hits) == 1:
            return hits[0]
        return None

    def try_inline(self, cn, args, n, T):
        if self.depth >= self.max_depth:
            return None
        b = self.resolve(n)
        if b is None or len(b.params) != len(args):
            return None
        return self.eval_body(b, args)

    def eval_body(self, b, args):
        F = self.F
        W = Walker(F, b, inline=self)
        W.T.keep_narrowing = self.keep_narrowing
        for p, a in zip(b.params, args):
            if p.get("k") == "PBind":
                W.T.env[p["id"]] = a
        self.depth += 1
        try:
            W.run()
            tail = b.body
            while tail.get("k") == "Block" and "expr" in tail:
                # the environment after the whole body is what W.run left; evaluate the tail there
                tail = tail["expr"]
                break
            if tail is b.body:
                return None
            t = W.expand(W.T.term(tail))
            return t
        finally:
            self.depth -= 1


def norm_ws(s):
    return re.sub(r"\s+", "", s)


def impls_of_shard_edge(F):
    groups = {}
    for b in F.fns():
        if b.impl_trait == SHARD_TRAIT and not is_derived(b):
            groups.setdefault(b.impl_trait_ref, {})[b.name] = b
    return groups


def factors(t):
    """Flatten products: `a * b`, `x << s` (as x * 2^s) into a sorted multiset of factor reprs."""
    t = strip_casts(t)
    if t[0] == "op" and t[1] == "*":
        return factors(t[2]) + factors(t[3])
    if t[0] == "op" and t[1] == "<<":
        return factors(t[2]) + [("pow2", repr(strip_casts(t[3])))]
    if t == ("int", 1):
        return []
    return [repr(t)]


def _strip_casts(t):
    if not isinstance(t, tuple) or not t:
        return t
    if t[0] == "cast" and t[1] in INT_WIDTH:
        return _strip_casts(t[2])
    return tuple(_strip_casts(x) if isinstance(x, tuple) else x for x in t)


def strip_casts(t):
    return normalize(_strip_casts(t))


def same_product(a, b):
    return sorted(map(str, factors(a))) == sorted(map(str, factors(b)))


def term_width(t, default=64):
    """Bit width of the value denoted by t when it is a (possibly narrowed) signature word."""
    if t[0] == "cast" and t[1] in INT_WIDTH:
        return INT_WIDTH[t[1]]
    if t[0] == "op" and t[1] == ">>" and t[3][0] == "int":
        return term_width(t[2], default) - t[3][1]
    if t[0] == "call" and t[1] in ("int::rotate_right", "int::rotate_left"):
        return term_width(t[2][0], default)
    return default


def decode_fpi(t):
    """t == ((x * n) >> w) [as usize]  ->  (x, n, w)"""
    t0 = t
    while t[0] == "cast":
        t = t[2]
    if t[0] == "op" and t[1] == ">>" and t[3][0] == "int":
        w = t[3][1]
        m = t[2]
        while m[0] == "cast":
            m = m[2]
        if m[0] == "op" and m[1] == "*":
            return m[2], m[3], w
    return None


def split_sum(t):
    """t == a + b (+ ...)  -> list of addends"""
    t = t
    while t[0] == "cast" and t[1] in INT_WIDTH:
        t = t[2]
    if t[0] == "op" and t[1] == "+":
        return split_sum(t[2]) + split_sum(t[3])
    return [t]


def is_sigword(t, sig):
    """t is derived only from the signature words (index of sig, shifts, rotations, casts, xor of such)."""
    if t == sig:
        return True
    if t[0] == "index" and t[1] == sig:
        return True
    if t[0] in ("cast",):
        return is_sigword(t[2], sig)
    if t[0] == "op" and t[1] in (">>", "^"):
        return is_sigword(t[2], sig) and (t[1] == ">>" or is_sigword(t[3], sig))
    if t[0] == "call" and t[1] in ("int::rotate_right", "int::rotate_left"):
        return is_sigword(t[2][0], sig)
    return False


def analyze_local_edge(LE, NV, sig):
    """Segment-domain argument for a fuse-style local edge. Returns (ok, reason, facts)."""
    if LE[0] != "arr" or len(LE) != 4:
        return False, "local_edge does not evaluate to an array of three vertices: %s" % tshow(LE)[:200], {}
    v0, v1, v2 = LE[1], LE[2], LE[3]
    # num_vertices == (l + 2) << s
    nv = strip_casts(NV)
    if not (nv[0] == "op" and nv[1] == "<<"):
        return analyze_mwhc(LE, NV, sig)
    s = nv[3]
    lp2 = nv[2]
    if not (lp2[0] == "op" and lp2[1] == "+" and lp2[3] == ("int", 2)):
        return False, "num_vertices is not (l + 2) << log2_seg_size: %s" % tshow(NV), {}
    l = lp2[2]
    seg = mk_op("<<", ("int", 1), s)
    mask = mk_op("-", seg, ("int", 1))
    # v0 = FPI(x, l << s) with x a w-bit signature word and the shift equal to w
    f = decode_fpi(v0)
    if f is None:
        return False, "v0 is not a fixed-point inversion ((x * n) >> w): %s" % tshow(v0)[:200], {}
    x, n, w = f
    for a, b in ((x, n), (n, x)):
        if is_sigword(strip_to_word(a), sig):
            x, n = a, b
            break
    else:
        return False, "v0 does not scale a signature word: %s" % tshow(v0)[:200], {}
    if not same_product(n, mk_op("<<", l, s)):
        return False, "v0 is scaled into %s, not into the l << log2_seg_size cells of the first l segments" % tshow(strip_casts(n)), {}
    xw = term_width(x if x[0] == "cast" else unwrap_widen(x))
    if xw > w:
        return False, "v0 = (x * n) >> %d with a %d-bit x can exceed n: the fixed-point inversion must shift by the width of x" % (w, xw), {}
    # v1 = (v0 + seg) ^ (y & mask)
    for name, vk, prev in (("v1", v1, v0), ("v2", v2, v1)):
        vk_ = strip_casts(vk)
        ok = False
        if vk_[0] == "op" and vk_[1] == "^":
            for a, b in ((vk_[2], vk_[3]), (vk_[3], vk_[2])):
                if a == mk_op("+", strip_casts(prev), seg) and b[0] == "op" and b[1] == "&" and mask in (b[2], b[3]):
                    other = b[3] if b[2] == mask else b[2]
                    if is_sigword(strip_to_word(other), sig):
                        ok = True
        if not ok:
            return False, "%s is not `(previous vertex + 2^s) ^ (signature bits & (2^s - 1))` with s = log2_seg_size of num_vertices: %s" % (name, tshow(vk_)[:240]), {}
    return True, "v0 in segments [0,l), v1 in [1,l+1), v2 in [2,l+2) of (l+2) segments of 2^s cells", {"l": tshow(l), "s": tshow(s)}


def unwrap_widen(t):
    return t


def strip_to_word(t):
    while t[0] == "cast":
        t = t[2]
    return t


def analyze_mwhc(LE, NV, sig):
    nv = strip_casts(NV)
    # num_vertices == seg * 3
    if not (nv[0] == "op" and nv[1] == "*" and ("int", 3) in (nv[2], nv[3])):
        return False, "num_vertices is neither (l + 2) << s nor seg_size * 3: %s" % tshow(NV), {}
    seg = nv[3] if nv[2] == ("int", 3) else nv[2]
    for k in range(3):
        vk = LE[1 + k]
        adds = split_sum(strip_casts(vk)) if False else split_sum(vk)
        fp = [a for a in adds if decode_fpi(a) is not None]
        rest = [strip_casts(a) for a in adds if decode_fpi(a) is None]
        if len(fp) != 1:
            return False, "v%d is not fixed-point inversion + k * seg_size: %s" % (k, tshow(vk)[:200]), {}
        x, n, w = decode_fpi(fp[0])
        for a, b in ((x, n), (n, x)):
            if is_sigword(strip_to_word(a), sig):
                x, n = a, b
                break
        if strip_casts(n) != seg:
            return False, "v%d is scaled into %s, not into seg_size" % (k, tshow(strip_casts(n))), {}
        if term_width(x) > w:
            return False, "v%d = (x * n) >> %d with a %d-bit x can exceed n" % (k, w, term_width(x)), {}
        # rest sums to k * seg
        tot = ("int", 0)
        for r in rest:
            tot = mk_op("+", tot, r)
        want = {0: [("int", 0)], 1: [seg], 2: [mk_op("*", ("int", 2), seg), mk_op("+", seg, seg)]}[k]
        if not any(same_sum(tot, w_) for w_ in want):
            return False, "v%d is offset by %s instead of %d * seg_size" % (k, tshow(tot), k), {}
    return True, "v_k in [k*seg, (k+1)*seg) of 3 segments", {"seg": tshow(seg)}


def same_sum(a, b):
    return sorted(repr(x) for x in split_sum(a)) == sorted(repr(x) for x in split_sum(b)) or a == b


def subst(t, old, new):
    return normalize(rewrite_term(t, old, new))


@rule("R16.1", props=["C16", "C07", "C12", "C08"], floor=4, title="edge(sig) == local_edge(local_sig(sig)) shifted by shard(sig) * num_vertices(); vertices distinct and below num_vertices (segment domain)", configs=("default", "mwhc"))
def r16_1(ctx, rr):
    for cfg in sorted(ctx.facts.keys()):
        F = ctx.F(cfg)
        groups = impls_of_shard_edge(F)
        if cfg == "default" and len(groups) < 4:
            raise AnchorMissing("expected at least 4 impls of ShardEdge, found %d" % len(groups))
        if cfg == "mwhc" and len(groups) < 6:
            raise AnchorMissing("expected 6 impls of ShardEdge with feature mwhc, found %d" % len(groups))
        for ref, ms in sorted(groups.items()):
            nm = re.sub(r"^<|>$", "", ref).replace("func::shard_edge::", "").replace("fuse::", "").replace("mwhc::", "")
            if cfg == "mwhc" and "Mwhc" not in nm:
                continue
            need = ("edge", "local_edge", "local_sig", "shard", "num_vertices", "shard_high_bits")
            for m in need:
                if m not in ms and m != "num_shards":
                    raise AnchorMissing("%s: method %s not found" % (ref, m))
            DI = DeepInliner(F)
            slf = ("var", "self")
            sig = ("var", "sig")
            E = DI.eval_body(ms["edge"], [slf, sig])
            LS = DI.eval_body(ms["local_sig"], [slf, sig])
            LE = DI.eval_body(ms["local_edge"], [slf, LS]) if LS is not None else None
            S = DI.eval_body(ms["shard"], [slf, sig])
            NV = DI.eval_body(ms["num_vertices"], [slf])
            rr.instances += 1
            if None in (E, LS, LE, S, NV) or E[0] != "arr" or LE[0] != "arr":
                rr.violate("%s:evaluable" % nm, "%s: could not evaluate edge/local_edge/local_sig/shard/num_vertices symbolically (edge=%s)" % (ref, tshow(E)[:120] if E else None), ms["edge"].span)
                continue
            # (a) same cells at build and query time: E[k] with shard := 0 equals LE[k]
            for k in range(3):
                ek0 = subst(E[1 + k], S, ("int", 0)) if S != ("int", 0) else normalize(E[1 + k])
                lek = normalize(LE[1 + k])
                key = "%s:edge[%d]=local_edge[%d]+base" % (nm, k, k)
                ok = strip_casts(ek0) == strip_casts(lek)
                rr.ob(ok, key=key, sample={"impl": nm, "vertex": k, "edge_at_shard_0": tshow(ek0)[:160], "local_edge": tshow(lek)[:160]})
                if not ok:
                    rr.violate(key, "%s: vertex %d of edge(sig) with the shard set to 0 is `%s` but local_edge(local_sig(sig)) gives `%s`: build and query address different cells" % (ref, k, tshow(ek0)[:200], tshow(lek)[:200]), ms["edge"].span)
            # (b) the shard base is shard * num_vertices for every vertex
            if S != ("int", 0):
                for k in range(3):
                    adds_e = split_sum(strip_casts(E[1 + k])) if strip_casts(E[1 + k])[0] != "op" or strip_casts(E[1 + k])[1] != "^" else None
                    base_terms = [x for x in subterms(strip_casts(E[1 + k])) if mentions(x, lambda y: y == strip_casts(S)) and x[0] == "op" and x[1] in ("*", "<<")]
                    # the maximal product containing the shard
                    base_terms.sort(key=lambda x: -len(repr(x)))
                    ok = bool(base_terms) and same_product(base_terms[0], mk_op("*", strip_casts(S), strip_casts(NV)))
                    key = "%s:base=shard*num_vertices[%d]" % (nm, k)
                    rr.ob(ok, key=key, sample={"impl": nm, "base": tshow(base_terms[0])[:120] if base_terms else None, "num_vertices": tshow(NV)[:80]})
                    if not ok:
                        rr.violate(key, "%s: the shard offset in vertex %d is `%s`, which is not shard(sig) * num_vertices() = %s * %s: shards overlap or leave the backend" % (ref, k, tshow(base_terms[0])[:160] if base_terms else None, tshow(S)[:80], tshow(NV)[:80]), ms["edge"].span)
            # (c) segment domain on the local edge
            ok, why, facts = analyze_local_edge(LE, NV, sig)
            key = "%s:segments" % nm
            rr.ob(ok, key=key, sample={"impl": nm, "argument": why, **facts})
            if not ok:
                rr.violate(key, "%s: cannot establish that the three vertices are pairwise distinct and below num_vertices(): %s" % (ref, why), ms["local_edge"].span)
            # (d) local_sig is built from the signature only
            rr.instances += 1
            # (e) R16.3 sort key
            if "sort_key" in ms and "num_sort_keys" in ms:
                SK = DI.eval_body(ms["sort_key"], [slf, sig])
                NK = DI.eval_body(ms["num_sort_keys"], [slf])
                key = "%s:sort_key<num_sort_keys" % nm
                ok = False
                why = ""
                if SK == ("int", 0):
                    ok = NK[0] == "int" and NK[1] >= 1
                    why = "constant 0"
                else:
                    f = decode_fpi(SK)
                    if f:
                        x, n, w = f
                        for a, b in ((x, n), (n, x)):
                            if is_sigword(strip_to_word(a), sig):
                                x, n = a, b
                                break
                        ok = strip_casts(n) == strip_casts(NK) and term_width(x) <= w
                        why = "fixed-point inversion into %s with %d-bit input and shift %d" % (tshow(strip_casts(n)), term_width(x), w)
                rr.ob(ok, key=key, sample={"impl": nm, "sort_key": tshow(SK)[:160], "num_sort_keys": tshow(NK)[:80]})
                if not ok:
                    rr.violate(key, "%s: sort_key(sig) = %s is not provably below num_sort_keys() = %s (%s)" % (ref, tshow(SK)[:200], tshow(NK)[:80], why), ms["sort_key"].span)


def strip_sig(LS, sig):
    """the variable playing the role of the local signature inside local_edge's result"""
    return LS


@rule("R16.4", props=["C16", "C18", "C07", "C08"], floor=3, title="shard(sig) and Sig::high_bits select the same top bits of sig[0]; shard_high_bits is 63 - shard_bits_shift")
def r16_4(ctx, rr):
    F = ctx.F()
    DI = DeepInliner(F)
    groups = impls_of_shard_edge(F)
    slf = ("var", "self")
    sig = ("var", "sig")
    for ref, ms in sorted(groups.items()):
        nm = re.sub(r"^<|>$", "", ref).replace("func::shard_edge::", "").replace("fuse::", "")
        S = DI.eval_body(ms["shard"], [slf, sig])
        H = DI.eval_body(ms["shard_high_bits"], [slf])
        rr.instances += 1
        if S == ("int", 0):
            rr.check(H == ("int", 0), "%s:unsharded" % nm, "%s: shard() is constantly 0, so shard_high_bits() must be 0 (found %s)" % (ref, tshow(H)), ms["shard"].span)
            continue
        # S == (sig[0] >> shift) >> 1 ; H == 63 - shift  => bits [64 - H, 64)
        s_ = strip_casts(S)
        ok = False
        found = tshow(s_)
        if s_[0] == "op" and s_[1] == ">>" and s_[3] == ("int", 1) and s_[2][0] == "op" and s_[2][1] == ">>" and s_[2][2] == ("index", sig, ("int", 0)):
            shift = s_[2][3]
            h = strip_casts(H)
            ok = h == mk_op("-", ("int", 63), shift)
            found += " with shard_high_bits = %s" % tshow(h)
        rr.check(ok, "%s:shard=top-bits" % nm, "%s: shard(sig) must be the top shard_high_bits() bits of sig[0], i.e. `sig[0] >> shift >> 1` with shard_high_bits() = 63 - shift; found %s" % (ref, found), ms["shard"].span)
    # Sig::high_bits: rotate_left(h) & mask for both signature types
    hb = [b for b in F.fns() if b.name == "high_bits" and (b.impl_trait or "").endswith("sig_store::Sig")]
    if len(hb) < 2:
        raise AnchorMissing("expected Sig::high_bits for [u64; 1] and [u64; 2]")
    for b in hb:
        W = Walker(F, b)
        W.run()
        t = W.T.term(b.body.get("expr"))
        s = ("var", "self", b.params[0]["id"])
        h = ("var", b.params[1]["name"], b.params[1]["id"])
        m = ("var", b.params[2]["name"], b.params[2]["id"])
        want = mk_op("&", ("call", "int::rotate_left", (("index", s, ("int", 0)), h)), m)
        rr.instances += 1
        rr.check(t == want, "%s:high_bits" % short_fn(b.key), "%s must be `self[0].rotate_left(high_bits) & mask` (the top high_bits bits of the first word); found %s" % (b.key, tshow(t)), b.span)


@rule("R16.5", props=["C16", "C12"], floor=2, title="set_up_graphs bounds the vertex count by Vertex::MAX + 1 when Vertex is narrower than usize")
def r16_5(ctx, rr):
    F = ctx.F()
    groups = impls_of_shard_edge(F)
    # Vertex type per impl is not in the facts; the assertion is required for the impls that have one today
    for ref, ms in sorted(groups.items()):
        b = ms.get("set_up_graphs")
        if b is None:
            continue
        nm = re.sub(r"^<|>$", "", ref).replace("func::shard_edge::", "").replace("fuse::", "")
        # follow forwards (FullSigs -> Shards, NoShards -> inherent)
        seen = 0
        body = b
        asserts = []
        bounded = []
        while body is not None and seen < 3:
            for n in walk(body.body):
                if n.get("k") == "If" and diverges(F, n["th"]) and not is_debug_only(F, n):
                    c = show(F, n["c"])
                    if "MAX" in c or "max_vertices" in c:
                        asserts.append(c)
                        # the quantity that is bounded: `!(Q <= bound)` / `Q > bound`
                        cn = n["c"]
                        neg = False
                        while cn.get("k") == "Unary" and cn.get("op") == "!":
                            cn = cn["e"]
                            neg = not neg
                        if cn.get("k") == "Binary" and cn["op"] in ("<=", "<", ">", ">="):
                            q = cn["l"] if (cn["op"] in ("<=", "<")) == neg else cn["r"]
                            slf_b = ("var", "self", body.params[0]["id"])
                            bounded.append(rewrite_term(strip_casts_t(Termizer(F, body).term(q)), slf_b, ("var", "self")))
            nxt = None
            for n in walk(body.body):
                if n.get("k") in ("Call", "MethodCall") and (cname(F, n) or "").endswith("set_up_graphs"):
                    r = DeepInliner(F).resolve(n)
                    if r is not None and r is not body:
                        nxt = r
            body = nxt
            seen += 1
        rr.instances += 1
        rr.check(bool(asserts), "%s:vertex-bound-asserted" % nm, "%s::set_up_graphs must assert that the number of vertices fits the Vertex type (<= Vertex::MAX + 1)" % ref, b.span)
        # ... and what it bounds is the number of vertices itself (all l + 2 segments), as num_vertices() computes it
        nv = ms.get("num_vertices")
        if asserts and nv is not None and nv.params:
            seenv = 0
            while nv is not None and seenv < 3:
                fw = [n for n in walk(nv.body) if n.get("k") in ("Call", "MethodCall") and (cname(F, n) or "").endswith("num_vertices")]
                r = DeepInliner(F).resolve(fw[0]) if fw else None
                if r is None or r is nv:
                    break
                nv = r
                seenv += 1
            tv = rewrite_term(strip_casts_t(Termizer(F, nv).term(nv.body)), ("var", "self", nv.params[0]["id"]), ("var", "self"))
            # through a forwarding wrapper the fields are those of the inner value
            norm = lambda t: rewrite_where_t(t, lambda x: x[0] == "field" and x[2] == "0" and x[1] == ("var", "self"), ("var", "self"))
            rr.instances += 1
            # (an implementation may instead bound the requested number of cells before rounding it to segments, in
            # a wider type: only a bound stated on the geometry fields is compared with num_vertices())
            on_fields = [q for q in bounded if mentions(q, lambda x: x[0] == "field")]
            okq = not on_fields or any(norm(q) == norm(tv) for q in on_fields) or not mentions(tv, lambda x: x[0] == "field")
            rr.check(okq, "%s:vertex-bound-is-num-vertices" % nm, "%s::set_up_graphs bounds `%s` by the range of the Vertex type, but the number of vertices is `%s`: vertices of the uncovered segments do not fit the type they are stored in by the builder" % (ref, "`, `".join(tshow(q)[:60] for q in bounded) or "nothing recognisable", tshow(tv)[:60]), b.span)


@rule("R16.7", props=["C16", "C11"], floor=10, title="vertex arithmetic (num_vertices, edge helpers) is carried out in 64-bit or wider types", configs=("default", "mwhc"))
def r16_7(ctx, rr):
    """`(l + 2) << s`, `shard * (l + 2) << s`, `x * n >> w` overflow silently when computed in the
    32-bit type of the fields: every arithmetic node on the way to a vertex must be usize/u64/u128."""
    for cfg in sorted(ctx.facts.keys()):
        F = ctx.F(cfg)
        bodies = []
        for ref, ms in impls_of_shard_edge(F).items():
            if cfg == "mwhc" and "Mwhc" not in ref:
                continue
            for nm in ("num_vertices", "edge", "local_edge", "sort_key", "shard"):
                if nm in ms:
                    bodies.append(ms[nm])
        if cfg == "default":
            bodies += [b for b in F.fns() if re.search(r"shard_edge::(fuse|mwhc)::(edge_1|edge_2|edge_2_big|edge)$", b.path)]
        for b in bodies:
            narrow = []
            for n in walk(b.body):
                if n.get("k") == "Binary" and n["op"] in ("<<", "*", "+", "-") and F.ty(n) in INT_WIDTH and INT_WIDTH[F.ty(n)] < 64:
                    narrow.append(n)
                    continue
            rr.instances += 1
            key = "%s:wide-arithmetic" % short_fn(b.key)
            rr.ob(not narrow, key=key, nontrivial=bool(narrow))
            if narrow:
                n = narrow[0]
                rr.violate(key, "%s computes `%s` in the %d-bit type %s: for large key sets the result exceeds the type and is silently truncated, so num_vertices()/the edge no longer agree with each other" % (b.key, show(F, n)[:120], INT_WIDTH[F.ty(n)], F.ty(n)), F.loc(n))


def strip_casts_t(t):
    if not isinstance(t, tuple) or not t:
        return t
    if t[0] == "cast":
        return strip_casts_t(t[2])
    return tuple(strip_casts_t(x) if isinstance(x, tuple) else x for x in t)


def rewrite_where_t(t, pred, new):
    if not isinstance(t, tuple) or not t:
        return t
    if isinstance(t[0], str) and pred(t):
        return new
    return tuple(rewrite_where_t(x, pred, new) if isinstance(x, tuple) else x for x in t)


@rule("R16.8", props=["C16", "C07", "C08"], floor=6, title="the builder takes the vertices of a key from local_edge() only: edge() adds the shard's offset, which is the caller's business at query time and the chunk's at build time")
def r16_8(ctx, rr):
    """Every shard is solved in its own chunk of the backend, addressed from 0: the graph, the peeling order and the
    assignment all use `local_edge(local_sig(sig))`. `edge(sig)` is the same triple plus `shard(sig) * num_vertices()`
    (R16.1) -- identical for a single shard, outside the chunk for every other one."""
    F = ctx.F()
    n_local = 0
    for b in F.fns():
        if not b.file.endswith("func/vbuilder.rs") or b.dk not in ("Fn", "AssocFn"):
            continue
        for n in walk(b.body):
            cn = cname(F, n) or ""
            if n.get("k") in ("Call", "MethodCall") and cn.endswith("ShardEdge::local_edge"):
                n_local += 1
                rr.instances += 1
                rr.ob(True, key="vbuilder:local_edge", nontrivial=False)
            elif n.get("k") in ("Call", "MethodCall") and cn.endswith("ShardEdge::edge"):
                rr.instances += 1
                key = "%s:global-edge-in-builder" % short_fn(b.key)
                rr.ob(False, key=key, sample={"fn": b.key, "call": show(F, n)[:80]})
                rr.violate(key, "%s calls `%s`: the builder works on one shard at a time, in a chunk addressed from 0, and must use local_edge(local_sig(sig)); edge() already includes the offset of the shard, so for every shard but the first the vertices fall outside the chunk (or into another shard's cells)" % (b.key, show(F, n)[:80]), F.loc(n))
    if n_local < 6:
        raise AnchorMissing("R16.8: expected at least 6 uses of local_edge in the builder, found %d" % n_local)
