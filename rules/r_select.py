import os
"""C02: sibling agreement of the four adaptive selectors (R02.3) and writer/reader addressing (R02.4)."""
import re
from framework import rule, load_table
from guards import is_derived
from r_guards import short_fn
from sym import *  # noqa
from ir import *  # noqa

L1, L2, L16 = ("sym", "L1"), ("sym", "L2"), ("sym", "L16")
ONE = ("int", 1)


def pow2(x):
    return mk_op("<<", ONE, x)


def maskof(x):
    return mk_op("-", pow2(x), ONE)


NAME_MAP = {
    "LOG2_ONES_PER_INVENTORY": L1, "LOG2_ZEROS_PER_INVENTORY": L1, "log2_ones_per_inventory": L1,
    "LOG2_U64_PER_SUBINVENTORY": L2, "log2_u64_per_subinventory": L2,
    "LOG2_ONES_PER_SUB16": L16, "log2_ones_per_sub16": L16,
    "ONES_PER_INVENTORY": pow2(L1), "ones_per_inventory": pow2(L1),
    "ONES_PER_INVENTORY_MASK": maskof(L1), "ones_per_inventory_mask": maskof(L1),
    "ONES_PER_SUB16_MASK": maskof(L16), "ones_per_sub16_mask": maskof(L16),
    "ones_per_sub16": pow2(L16),
}
CALL_MAP = {"SelectZeroHinted::select_zero_hinted": "SelectHinted::select_hinted", "int::count_zeros": "int::count_ones",
            "BitCount::count_zeros": "BitCount::count_ones", "NumBits::num_zeros": "NumBits::num_ones"}


def canon(t):
    if not isinstance(t, tuple) or not t:
        return t
    h = t[0]
    if h == "def":
        nm = t[1].split("::")[-1]
        if nm in NAME_MAP:
            return NAME_MAP[nm]
        return ("def", nm)
    if h == "field" and t[2] in NAME_MAP and t[1][0] == "var" and t[1][1] == "self":
        return NAME_MAP[t[2]]
    if h == "var":
        base = str(t[2]).split("#")[0] if len(t) > 2 else None
        if base is not None and base in _CTX["roles"]:
            r = _CTX["roles"][base]
            return r if isinstance(r, tuple) else ("var", r)
        if t[1] in NAME_MAP:
            return NAME_MAP[t[1]]
        if len(t) > 2 and "#" in str(t[2]) and t[1] in ("v", "snap"):
            # the value of a local after a join / a loop (a version of it): one name for all such unknowns, whether the
            # walker snapshotted it or merged branch assignments
            return ("var", "snap")
        return ("var", _CTX["ren"].get(t[1], t[1]))
    def is_bits(x):
        # the bit vector handed to a constructor: its first parameter (whatever it is called)
        return x[0] == "var" and len(x) > 2 and _CTX["roles"].get(str(x[2]).split("#")[0]) == "p1"
    if h == "call" and t[1] in ("BitCount::count_ones", "BitCount::count_zeros") and len(t[2]) == 1 and is_bits(t[2][0]):
        return ("var", "NUM_ONES")
    if h == "index" and is_bits(t[1]) and t[2][0] == "var":
        return ("var", "WORD")
    if h == "call":
        nm = CALL_MAP.get(t[1], t[1])
        args = tuple(canon(a) for a in t[2])
        if nm.endswith("::log2_ones_per_sub32"):
            return ("call", "log2_ones_per_sub32", args[:1])
        nm = re.sub(r"^Select(Zero)?Adapt(Const)?::", "SelectAdapt::", nm)
        nm = re.sub(r"^SelectZeroSmall::", "SelectSmall::", nm)
        if nm.split("::")[-1] == "linear_partition_point":
            nm = "linear_partition_point"     # a private extension trait's method or a free function of that name
        return ("call", nm, args)
    if h == "un" and t[1] == "!" and t[2][0] == "index":
        return canon(t[2])
    if h == "unk":
        # a value the term language does not express (a match on an enum ..) is the same unknown as a local that
        # was assigned in the arms of that match
        return ("var", "snap")
    return tuple(canon(x) if isinstance(x, tuple) else x for x in t)


def field_roles(F, b):
    """binding id -> canonical symbol, for the parameters/locals that a struct literal of the body stores
    unchanged in a field with a canonical name (`log2_ones_per_inventory: log2_ones_per_inventory`): the
    role of such a binding is the field it ends up in, whatever it is called and however it was computed."""
    roles = {}
    for n in walk(b.body):
        if n.get("k") == "Struct" and range_of(F, n) is None:
            for f in n["fields"]:
                e = f["e"]
                if e.get("k") == "Path" and e.get("res") == "local" and f["name"] in NAME_MAP:
                    roles[e["id"]] = NAME_MAP[f["name"]]
    return roles


_CTX = {"roles": {}, "ren": {}}
_PARENTS = {}


def clear_low(t):
    """`x & (MAX << b)` written as `(x >> b) << b` (clearing the low b bits), bottom-up"""
    if not isinstance(t, tuple) or not t:
        return t
    t = tuple(clear_low(x) if isinstance(x, tuple) else x for x in t)
    if t[0] == "op" and len(t) == 4 and t[1] == "&":
        for a_, b_ in ((t[2], t[3]), (t[3], t[2])):
            if b_[0] == "op" and len(b_) == 4 and b_[1] == "<<" and b_[2][0] == "def" and b_[2][1].endswith("MAX"):
                return ("op", "<<", ("op", ">>", a_, b_[3]), b_[3])
    return t
class _Bag(dict):
    def add(self, it):
        self[it] = self.get(it, 0) + 1


def sk_items(F, b, opaque, ren=None, param_terms=None, transparent=None):
    """multiset of skeleton items: (item, count) pairs so that a dropped duplicate store is seen.
    Parameters appear by position (self, p1, p2, ..), locals by name after the renaming `ren`."""
    bag = _Bag()
    items = bag
    _CTX["roles"] = param_roles(b)
    for pos, term in (param_terms or {}).items():
        # a parameter that carries what a sibling computes itself (e.g. the number of ones)
        pid = [str(p_["id"]) for p_ in b.params if p_.get("k") == "PBind" and p_["name"] != "self"][pos - 1]
        _CTX["roles"][pid] = term
    _CTX["ren"] = dict(ren or {})
    # the variables of `for` loops are positional: `for (i, word) in ..` binds lv0, lv1 whatever they are called (several
    # loops of one function may well reuse a name, and renaming one of them is not a change)
    for x in walk(b.body):
        if x.get("k") == "Match" and x.get("src") == "ForLoopDesugar":
            for a_ in x.get("arms", []):
                for y in walk(a_.get("body", {})):
                    if y.get("k") == "Match" and y.get("arms"):
                        for arm in y["arms"]:
                            if arm["pat"].get("name") == "Some":
                                for k_, (_nm, pid) in enumerate(pat_bindings(arm["pat"])):
                                    _CTX["roles"].setdefault(str(pid), "lv%d" % k_)
                        break

    def tagname(nm):
        return _CTX["ren"].get(nm, nm)

    def add(kind, t, W):
        items.add((kind, repr(normalize(canon(W.expand(t))))))

    def on_node(W, n, K):
        if W.debug_depth:
            return
        k = n.get("k")
        if k == "Binary" and n["op"] in ("<", "<=", ">", ">=", "==", "!="):
            atoms_ = cond_atoms(W.T, n, True)
            if len(atoms_) == 1 and atoms_[0][0] == "le":
                # one representative for a test and its negation (`if a < b {X} else {Y}` / `if a >= b {Y} else {X}`)
                a_ = atoms_[0]
                neg_ = ("le", a_[2], a_[1], -a_[3] - 1)
                ra = repr(normalize(canon(W.expand(a_[1])))), repr(normalize(canon(W.expand(a_[2]))))
                atoms_ = [a_ if ra[0] <= ra[1] else neg_]
            # a comparison that is the condition of a `while` is repeated until it fails: `if` in its place runs the body once
            par_ = _PARENTS.get(id(n))
            gp_ = _PARENTS.get(id(par_)) if par_ is not None else None
            ggp_ = _PARENTS.get(id(gp_)) if gp_ is not None else None
            is_loop_cond = par_ is not None and par_.get("k") == "If" and par_.get("c") is n and gp_ is not None and gp_.get("k") == "Block" and ggp_ is not None and ggp_.get("k") == "Loop" and ggp_.get("src") == "While"
            for a in atoms_:
                if a[0] in ("le", "ne"):
                    items.add(("cmp", a[0], repr(normalize(canon(W.expand(a[1])))), repr(normalize(canon(W.expand(a[2])))), a[3]))
                    if is_loop_cond:
                        items.add(("while", a[0], repr(normalize(canon(W.expand(a[1])))), repr(normalize(canon(W.expand(a[2])))), a[3]))
                else:
                    items.add(("cmp", repr(normalize(canon(W.expand(a[1])))), a[2]))
        elif k == "Binary" and n["op"] in ("<<", ">>", "&"):
            bt_ = W.T.term(n)
            # only what still is a bit operation after canonicalisation (`x >> lg(BITS)` is the division `x / BITS`),
            # and only the outermost node of a bit expression (`(x >> b) << b` and `x & (MAX << b)` are one item each)
            par = _PARENTS.get(id(n))
            nested = par is not None and par.get("k") == "Binary" and par.get("op") in ("<<", ">>", "&")
            if bt_[0] == "op" and bt_[1] in ("<<", ">>", "&") and not nested:
                add("bit", clear_low(bt_), W)
        elif k == "Index":
            add("idx", W.T.term(n["i"]), W)
        elif k == "MethodCall" and n["name"] in ("get_unchecked", "get_unchecked_mut"):
            add("idx", W.T.term(n["args"][0]), W)
        elif k in ("Assign", "AssignOp") and n["l"].get("k") != "Path":
            add("store" + n.get("op", "="), W.T.term(n["r"]), W)
        elif k == "AssignOp" and n["l"].get("k") == "Path":
            add("upd:%s:%s" % (tagname(n["l"]["name"]), n["op"]), W.T.term(n["r"]), W)
        elif k == "Assign" and n["l"].get("k") == "Path" and n["l"].get("res") == "local":
            add("set:%s" % tagname(n["l"]["name"]), W.T.term(n["r"]), W)
        elif k == "MethodCall" and n["name"] in ("push", "resize", "saturating_sub", "div_ceil"):
            items.add(("call:" + n["name"], tuple(repr(normalize(canon(W.expand(W.T.term(a))))) for a in n["args"])))
    import astnorm
    saved_body = b.body
    try:
        b.body = astnorm.defer_let_branches(b.body)
    except RecursionError:
        b.body = saved_body
    _PARENTS.clear()
    for x_, ps_ in walk_with_parents(b.body):
        if ps_:
            _PARENTS[id(x_)] = ps_[-1]
    W = Walker(F, b, on_node=on_node)
    if opaque == "all-lets":
        # every immutable local is kept as a named quantity and contributes one item (its definition)
        W.opaque_all = True
        W.transparent_names = set(transparent or ())
        W.on_let = lambda p_, term: add("let:%s" % tagname(p_["name"]), term, W)
    else:
        W.opaque_names = dict(opaque)
    W.opaque_ids = field_roles(F, b)
    try:
        W.run()
    finally:
        b.body = saved_body
    return set((it, n) if n > 1 and it[0].startswith(("store", "upd", "call:push")) else (it, 1) for it, n in bag.items())


SELECT_FNS = [
    r"^<rank_sel::select_adapt::SelectAdapt<B, I> as traits::rank_sel::SelectUnchecked>::select_unchecked$",
    r"^<rank_sel::select_adapt_const::SelectAdaptConst<B, I, LOG2_ONES_PER_INVENTORY, LOG2_U64_PER_SUBINVENTORY> as traits::rank_sel::SelectUnchecked>::select_unchecked$",
    r"^<rank_sel::select_zero_adapt::SelectZeroAdapt<B, I> as traits::rank_sel::SelectZeroUnchecked>::select_zero_unchecked$",
    r"^<rank_sel::select_zero_adapt_const::SelectZeroAdaptConst<B, I, LOG2_ZEROS_PER_INVENTORY, LOG2_U64_PER_SUBINVENTORY> as traits::rank_sel::SelectZeroUnchecked>::select_zero_unchecked$",
]
NEW_FNS = [
    r"^rank_sel::select_adapt::SelectAdapt::<B>::_new$",
    r"^rank_sel::select_adapt_const::SelectAdaptConst::<B, std::boxed::Box<\[usize\]>, LOG2_ONES_PER_INVENTORY, LOG2_U64_PER_SUBINVENTORY>::new$",
    r"^rank_sel::select_zero_adapt::SelectZeroAdapt::<B>::_new$",
    r"^rank_sel::select_zero_adapt_const::SelectZeroAdaptConst::<B, std::boxed::Box<\[usize\]>, LOG2_ZEROS_PER_INVENTORY, LOG2_U64_PER_SUBINVENTORY>::new$",
]
OPAQUE_OLD = {"log2_u64_per_subinventory": L2, "log2_ones_per_sub16": L16, "ones_per_inventory": pow2(L1), "ones_per_inventory_mask": maskof(L1),
          "ones_per_sub16": pow2(L16), "ones_per_sub16_mask": maskof(L16), "log2_ones_per_inventory": L1}
OPAQUE = {}


FIXED_NAMES = {"self", "p1", "p2", "p3", "p4", "p5", "p6", "x", "_", "@"}


def _tuplify(x):
    return tuple(_tuplify(y) for y in x) if isinstance(x, list) else x


_LAST_CHANGED = []


def unified_skeletons(F, bodies, opaque, param_terms=None, reference=None):
    """Skeletons of sibling bodies with the locals of every sibling renamed onto those of the first, and the
    locals of the first renamed onto the names it had when the table of confirmed differences was written
    (`reference`: the first sibling's skeleton as recorded then), so that renaming locals -- in one sibling or
    in all of them -- changes nothing."""
    pts = param_terms or [None] * len(bodies)
    refs = [set(_tuplify(r)) for r in reference] if reference and len(reference) == len(bodies) else [None] * len(bodies)
    # min/max are operators of the terms whatever their syntax (`a.min(b)`, `min(a, b)`): no item of their own
    refs = [set(x for x in r if not (isinstance(x, tuple) and x and isinstance(x[0], tuple) and x[0] and isinstance(x[0][0], str) and x[0][0] in ("call:min", "call:max"))) if r is not None else None for r in refs]

    def own(b, pt, ref):
        # the sibling with its locals renamed to the names they had in its recorded skeleton
        raw = sk_items(F, b, opaque, None, pt)
        ren = unify_locals(ref, raw, FIXED_NAMES) if ref else {}
        transparent = None
        if ref and opaque == "all-lets":
            # a named quantity that the recorded skeleton does not have (a sub-expression hoisted into a `let` since)
            # is not a quantity of the algorithm: it stands for its value
            def lets(items):
                return set(it[0].split(":", 1)[1] for it, _n in items if isinstance(it[0], str) and it[0].startswith("let:"))
            ref_lets = lets(ref)
            transparent = set(n for n in lets(raw) if ren.get(n, n) not in ref_lets)
            if transparent:
                raw = sk_items(F, b, opaque, None, pt, transparent)
                ren = unify_locals(ref, raw, FIXED_NAMES)
        own_transparent[id(b)] = transparent
        return (sk_items(F, b, opaque, ren, pt, transparent), ren) if ren else (raw, {})
    own_transparent = {}
    first, _ = own(bodies[0], pts[0], refs[0])
    out = [first]
    # who still has the skeleton recorded for it (in its own names)
    _LAST_CHANGED[:] = [refs[0] is not None and set(first) != refs[0]]
    for b, pt, ref in zip(bodies[1:], pts[1:], refs[1:]):
        cur, ren0 = own(b, pt, ref)
        _LAST_CHANGED.append(ref is not None and set(cur) != ref)
        ren = unify_locals(first, cur, FIXED_NAMES)
        if ren:
            # compose: source name -> own reference name -> first sibling's name
            comp = {src: ren.get(dst, dst) for src, dst in ren0.items()}
            for src, dst in ren.items():
                if src not in ren0.values():
                    comp.setdefault(src, dst)
            cur = sk_items(F, b, opaque, comp, pt, own_transparent.get(id(b)))
        out.append(cur)
    return out


# SelectAdapt::_new / SelectZeroAdapt::_new receive the number of ones (zeros) as their second parameter; the
# const variants compute it from the bit vector
NEW_PARAM_TERMS = [{2: ("var", "NUM_ONES")}, None, {2: ("var", "NUM_ONES")}, None]


def compare_siblings(ctx, rr, paths, what, allowed):
    F = ctx.F()
    bodies = [F.one(p) for p in paths]
    sks = unified_skeletons(F, bodies, OPAQUE, NEW_PARAM_TERMS if what == "constructor" else None, load_table("select_siblings.json").get("_reference", {}).get(what))
    names = [strip_generics(b.key).split("::")[-2].replace("<", "").split(" as ")[0].split("::")[-1] if " as " in b.key else strip_generics(b.key).split("::")[-2] for b in bodies]
    names = ["SelectAdapt", "SelectAdaptConst", "SelectZeroAdapt", "SelectZeroAdaptConst"]
    # which siblings no longer have the skeleton recorded for them (who was edited): used to say which properties a
    # disagreement concerns
    changed = [names[i] for i, c in enumerate(_LAST_CHANGED) if c] if len(_LAST_CHANGED) == len(names) else []
    union = set().union(*sks)
    common = set.intersection(*sks)
    rr.instances += len(bodies)
    for it in sorted(union, key=repr):
        have = [names[i] for i, s in enumerate(sks) if it in s]
        it_show = it
        base_repr = repr(it[0]) if it[1] == 1 else repr(it)
        key_it = "%s:%s" % (what, base_repr[:200])
        if len(have) == len(bodies):
            rr.ob(True, key="%s:common" % what, nontrivial=False)
            continue
        missing = [n for n in names if n not in have]
        ok = False
        for a in allowed:
            if re.search(a["item"], base_repr) and sorted(a["only_in"]) == sorted(have):
                ok = True
                rr.assumed += 1
                rr.assumptions.append("%s: %s" % (what, a["reason"]))
        rr.ob(ok, key=key_it[:120], sample={"item": base_repr[:200], "present_in": have, "missing_in": missing})
        if not ok:
            dev = missing if len(missing) < len(have) else have
            rr.violate("%s:deviant:%s:%s" % (what, ",".join(sorted(dev)), short_item(it)), "the sibling implementations of %s disagree: the decision/arithmetic item %s is present in %s but not in %s (the four files are meant to be edited in parallel; the deviant is %s)" % (what, base_repr[:300], have, missing, dev), bodies[names.index(dev[0])].span)
    rr.samples.append({"siblings": names, "common_items": len(common), "all_items": len(union)})


def short_item(it):
    import hashlib
    return it[0][0] + "-" + hashlib.sha1(repr(it).encode()).hexdigest()[:8]


@rule("R02.3", props=["C02"], floor=8, title="the four adaptive selectors agree on their decision/arithmetic skeletons (fields <-> const parameters, ones <-> zeros)")
def r02_3(ctx, rr):
    tab = load_table("select_siblings.json")
    compare_siblings(ctx, rr, SELECT_FNS, "select_unchecked", tab.get("select_unchecked", []))
    compare_siblings(ctx, rr, NEW_FNS, "constructor", tab.get("constructor", []))


@rule("R02.4", props=["C02"], floor=6, title="Select9: every read of the subinventory is relative to the subinventory start of the inventory entry; writer and reader use the same start")
def r02_4(ctx, rr):
    F = ctx.F()
    b = F.one(r"^<rank_sel::select9::Select9<rank_sel::rank9::Rank9<B, C>, I> as traits::rank_sel::SelectUnchecked>::select_unchecked$")
    slf = ("var", "self", b.params[0]["id"])
    sub = ("field", slf, "subinventory")
    state = {"pos": None}
    reads = []

    def on_node(W, n, K):
        if W.debug_depth:
            return
        if n.get("k") == "LetStmt":
            return
        if n.get("k") == "MethodCall" and n["name"] == "get_unchecked":
            base = W.T.term(n["recv"])
            if base == sub:
                reads.append((n, W.expand(W.T.term(n["args"][0])), W))
    W = Walker(F, b, on_node=on_node)
    W.run()

    def starts(t):
        return [x for x in subterms(t) if x[0] == "op" and x[1] == "/" and x[3] == ("int", 4) and x[2][0] == "op" and x[2][1] == "/" and x[2][3] == ("int", 64)]
    # the subinventory start of the entry: (inventory[i] / 64) / 4, the sub-term shared by the reads
    from collections import Counter
    cands = Counter(x for _, t, _ in reads for x in set(starts(t)))
    rr.instances += 1
    pos = cands.most_common(1)[0][0] if cands else None
    ok = pos is not None and mentions(pos, lambda x: x[0] in ("index", "call") and mentions(x, lambda y: y == ("field", slf, "inventory")))
    rr.check(ok, "Select9::select_unchecked:subinv_pos", "the reads of the subinventory must start at (inventory[i] / 64) / 4, the writer's subinv_start; found %s" % (tshow(pos)[:160] if pos else None), b.span)
    if pos is None:
        pos = ("unk", "no subinventory start")
    if len(reads) < 6:
        raise AnchorMissing("Select9::select_unchecked: expected at least 6 reads of the subinventory, found %d" % len(reads))
    for n, t, Wk in reads:
        rr.instances += 1
        rel = mentions(t, lambda x: x == pos)
        key = "Select9::select_unchecked:subinventory-read-relative"
        rr.ob(rel, key=key + str(rel), sample={"read": show(F, n)[:120], "index": tshow(t)[:160]})
        if not rel:
            rr.violate(key, "Select9::select_unchecked reads the subinventory at `%s`, which is not relative to the entry's subinventory start `subinv_pos`: entries other than the first read the wrong words" % tshow(t)[:200], F.loc(n))
    # writer: subinv_start == (inventory[idx] / 64) / u64_per_subinventory (= 4) and all writes go through subinv_start
    nb = F.one(r"^rank_sel::select9::Select9::<rank_sel::rank9::Rank9<B, C>>::new$")
    writes = []
    # the local that becomes the `subinventory` field of the result
    sub_ids = set()
    for n in walk(nb.body):
        if n.get("k") == "Struct" and range_of(F, n) is None:
            for f in n["fields"]:
                if f["name"] == "subinventory":
                    sub_ids |= set(x.get("id") for x in walk(f["e"]) if x.get("k") == "Path" and x.get("res") == "local")
    if not sub_ids:
        raise AnchorMissing("Select9::new: no struct literal with a subinventory field built from a local")

    def on_new(Wk, n, K):
        if Wk.debug_depth:
            return
        if n.get("k") == "Index" and n["e"].get("k") == "Path" and n["e"].get("id") in sub_ids:
            writes.append((n, Wk.expand(Wk.T.term(n["i"]))))
    Walker(F, nb, on_node=on_new).run()
    if len(writes) < 3:
        raise AnchorMissing("Select9::new: expected at least 3 indexed accesses to the subinventory")
    for n, t in writes:
        rr.instances += 1
        okw = mentions(t, lambda x: x[0] == "op" and x[1] == "/" and x[3] == ("int", 4) and x[2][0] == "op" and x[2][1] == "/" and x[2][3] == ("int", 64))
        rr.check(okw, "Select9::new:subinventory-write-relative", "Select9::new addresses the subinventory at `%s`, not relative to (inventory[i] / 64) / 4" % tshow(t)[:200], F.loc(n))



@rule("R02.7", props=["C02", "C01"], floor=10, title="SelectSmall/SelectZeroSmall: block counters are superblock-relative -- every comparison of `.absolute` with the rank accounts for the upper count")
def r02_7(ctx, rr):
    F = ctx.F()
    bodies = F.find(r"^<rank_sel::select_small::SelectSmall<\d+, \d+, C> as traits::rank_sel::SelectUnchecked>::select_unchecked$") + \
        F.find(r"^<rank_sel::select_zero_small::SelectZeroSmall<\d+, \d+, C> as traits::rank_sel::SelectZeroUnchecked>::select_zero_unchecked$")
    if len(bodies) < 10:
        raise AnchorMissing("expected 10 select(_zero)_unchecked bodies of SelectSmall/SelectZeroSmall, found %d" % len(bodies))
    for b in bodies:
        rank = ("var", b.params[1]["name"], b.params[1]["id"])
        found = []

        def on_node(W, n, K, found=found):
            if W.debug_depth:
                return
            if n.get("k") == "Binary" and n["op"] in ("<", "<=", ">", ">="):
                l = W.expand(W.T.term(n["l"]))
                r = W.expand(W.T.term(n["r"]))
                both = ("tup", l, r)
                if mentions(both, lambda x: x[0] == "field" and x[2] == "absolute") and mentions(both, lambda x: x == rank):
                    upper = mentions(both, lambda x: x[0] == "call" and x[1].endswith("get_unchecked") and mentions(x, lambda y: y[0] == "call" and y[1].endswith("upper_counts")))
                    found.append((n, upper, tshow(l)[:120], tshow(r)[:120]))
        Walker(F, b, on_node=on_node).run()
        if not found:
            raise AnchorMissing("%s: no comparison between block counters and the rank" % b.key)
        for n, ok, l, r in found:
            rr.instances += 1
            key = "%s:absolute-vs-rank" % short_fn(b.key)
            rr.ob(ok, key=key + str(ok), sample={"fn": b.key, "lhs": l, "rhs": r})
            if not ok:
                rr.violate(key, "%s compares the superblock-relative counter with the global rank (`%s` vs `%s`) without the upper count of the 2^32-bit superblock: right only inside the first superblock" % (b.key, l, r), F.loc(n))


@rule("R02.8", props=["C02"], floor=2, title="Select9: builder and reader partition the span identically, and a class storing k-bit offsets only holds spans whose offsets fit k bits")
def r02_8(ctx, rr):
    F = ctx.F()
    nb = F.one(r"^rank_sel::select9::Select9::<rank_sel::rank9::Rank9<B, C>>::new$")
    sb = F.one(r"^<rank_sel::select9::Select9<rank_sel::rank9::Rank9<B, C>, I> as traits::rank_sel::SelectUnchecked>::select_unchecked$")

    def arms_of(b):
        import astnorm
        # the span classes: a match on ranges, or (after normalisation / when written so) an if-chain on the span
        best = None
        for n in walk(b.body):
            if n.get("k") == "If":
                cl = astnorm.int_classes(n, evalf=const_evalf(F, b))
                if cl and len(cl) >= 3 and (best is None or len(cl) > len(best)):
                    best = cl
        if best:
            return [(lo, hi, {"body": body, "pat": {"k": "PWild"} if lo is None else {"k": "PRange"}}) for lo, hi, body in best]
        for n in walk(b.body):
            if n.get("k") == "Match" and n.get("src") == "Normal" and any(a["pat"].get("k") == "PRange" for a in n["arms"]):
                out = []
                for a in n["arms"]:
                    p = a["pat"]
                    body = show(F, a["body"])
                    kind = "u16" if ("as u16" in body or "align_to::<u16>" in body or "state = 2" in body) else "u32" if ("as u32" in body or "state = 1" in body) else "other"
                    if p.get("k") == "PRange":
                        out.append((int(p["lo"]["v"]), int(p["hi"]["v"]) - (0 if p.get("incl") else 1), a))
                    elif p.get("k") == "PWild":
                        out.append((None, None, a))
                return out
        return None
    A, B = arms_of(nb), arms_of(sb)
    if not A or not B:
        raise AnchorMissing("Select9: no match on integer ranges (the span classes) found in new/select_unchecked")
    ra = [(x[0], x[1]) for x in A]
    rb = [(x[0], x[1]) for x in B]
    rr.instances += 1
    rr.check(ra == rb, "Select9:span-classes-agree", "Select9::new and select_unchecked classify the span differently: %s vs %s" % (ra, rb), nb.span)
    # classes with explicit offsets: the reader arms that reinterpret the subinventory as u16 / u32
    # span is a difference of 4-word group indices: a one can lie up to (span + 1) * 256 - 1 bits after the entry's first one
    for lo, hi, arm in B:
        if lo is None:
            continue
        body_nodes = list(walk(arm["body"]))
        tys = [F.ty(n) for n in body_nodes if n.get("k") == "MethodCall" and n["name"] == "align_to"]
        width = 16 if any("u16" in t for t in tys) else 32 if any("u32" in t for t in tys) else None
        if width is None or lo < 128:
            continue
        rr.instances += 1
        ok = (hi + 1) * 256 <= (1 << width)
        rr.check(ok, "Select9:u%d-class-bound" % width, "Select9 stores %d-bit offsets for spans up to %d groups of 256 bits, but then an offset can reach %d >= 2^%d and is truncated" % (width, hi, (hi + 1) * 256 - 1, width), F.loc(arm["body"]))



SIBLING_GROUPS = [
    {"name": "ef-scan", "props": ["C04"], "labels": ["index_of", "succ_unchecked"],
     "fns": [r"EliasFano<H, L> as traits::indexed_dict::IndexedDict>::index_of$", r"EliasFano<H, L> as traits::indexed_dict::SuccUnchecked>::succ_unchecked$"],
     "opaque": {}},
    {"name": "select-small", "props": ["C02"], "labels": ["SelectSmall", "SelectZeroSmall"],
     "fns": [r"^<rank_sel::select_small::SelectSmall<2, 9, C> as traits::rank_sel::SelectUnchecked>::select_unchecked$",
             r"^<rank_sel::select_zero_small::SelectZeroSmall<2, 9, C> as traits::rank_sel::SelectZeroUnchecked>::select_zero_unchecked$"],
     "opaque": "all-lets"},
]


def compare_group(ctx, rr, g, allowed):
    F = ctx.F()
    bodies = [F.one(p) for p in g["fns"]]
    names = g["labels"]
    sks = unified_skeletons(F, bodies, g["opaque"], None, load_table("sibling_groups.json").get("_reference", {}).get(g["name"]))
    union = set().union(*sks)
    common = set.intersection(*sks)
    rr.instances += len(bodies)
    for it in sorted(union - common, key=repr):
        have = [names[i] for i, s in enumerate(sks) if it in s]
        base_repr = repr(it[0]) if it[1] == 1 else repr(it)
        ok = any(a["item"] == base_repr and sorted(a["only_in"]) == sorted(have) for a in allowed)
        if ok:
            rr.assumed += 1
        rr.ob(ok, key="%s:%s" % (g["name"], base_repr[:100]), sample={"item": base_repr[:200], "present_in": have})
        if not ok:
            missing = [n for n in names if n not in have]
            rr.violate("%s:deviant:%s:%s" % (g["name"], ",".join(sorted(have)), short_item(it)), "the sibling implementations %s disagree: the decision/arithmetic item %s is present in %s but not in %s, and the difference is not one of the confirmed ones" % (names, base_repr[:300], have, missing), bodies[names.index(have[0])].span)
    for _ in common:
        rr.ob(True, key="%s:common" % g["name"], nontrivial=False)
    rr.samples.append({"group": g["name"], "common_items": len(common), "all_items": len(union)})


@rule("R02.9", props=["C02", "C04"], floor=2, title="further sibling pairs agree up to their confirmed differences (EF index_of/succ scans; SelectSmall/SelectZeroSmall)")
def r02_9(ctx, rr):
    tab = load_table("sibling_groups.json")
    for g in SIBLING_GROUPS:
        if getattr(ctx, "prop", None) in g["props"] or getattr(ctx, "prop", None) is None:
            compare_group(ctx, rr, g, tab.get(g["name"], []))


@rule("R02.10", props=["C02"], floor=1, title="Select9::new: the word loop that records explicit positions stops at the last word of the bit vector (the end of the last inventory entry is a sentinel beyond it)")
def r02_10(ctx, rr):
    """The inventory is closed by the sentinel ((num_words + 3) & !3) * 64. A loop bounded by the word index of
    `inventory[i + 1]` alone reads bits[num_words] for the last entry whenever num_words is not a multiple of 4."""
    F = ctx.F()
    nb = F.one(r"^rank_sel::select9::Select9::<rank_sel::rank9::Rank9<B, C>>::new$")
    p1 = nb.params[0]["id"]
    hits = []

    def on_node(W, n, K):
        # bits[word_idx] where bits is (a field of) the parameter, inside a loop, with a running index
        if n.get("k") == "Index" and W.debug_depth == 0:
            base = W.T.term(n["e"])
            if mentions(base, lambda x: x[0] == "field" and x[2] == "bits") and n["i"].get("k") == "Path" and n["i"].get("res") == "local":
                lid = n["i"]["id"]
                hits.append((n, lid))
    Wk = Walker(F, nb, on_node=on_node)
    Wk.run()
    # the running index is advanced by one and compared with an end: that end must be <= the number of words
    num_words = None
    T = Termizer(F, nb)
    checked = 0
    pm = {id(n): ps for n, ps in walk_with_parents(nb.body)}
    for n, lid in hits:
        incs = [x for x in walk(nb.body) if x.get("k") == "AssignOp" and x["op"] == "+=" and x["l"].get("k") == "Path" and x["l"].get("id") == lid]
        if not incs:
            continue
        # the test that follows the increment: `if word_idx == end { break }`
        tests = [x for x in walk(nb.body) if x.get("k") == "If" and x["c"].get("k") == "Binary" and x["c"]["op"] in ("==", ">=") and x["c"]["l"].get("k") == "Path" and x["c"]["l"].get("id") == lid and any(y.get("k") == "Break" for y in walk(x["th"]))]
        if not tests:
            continue
        checked += 1
        end = tests[0]["c"]["r"]
        # resolve the end to its defining expression
        et = None
        if end.get("k") == "Path" and end.get("res") == "local":
            lets = [x for x in walk(nb.body) if x.get("k") == "LetStmt" and x["pat"].get("k") == "PBind" and x["pat"]["id"] == end["id"] and "init" in x]
            if lets:
                et = lets[0]["init"]
        et = et if et is not None else end
        # clamped: min(.., <number of words>) at the top of the end's term (method or function form, either order)
        txt_ok = False
        from r_guards import simple_env
        TE = simple_env(F, nb)
        te = TE.term(end)

        def is_num_words(ta):
            return (ta[0] == "call" and ta[1].endswith("div_ceil") and len(ta[2]) == 2 and ta[2][1] in (("int", 64), ("def", "bits::bit_vec::BITS"))) or \
                   (ta[0] == "call" and ta[1].endswith("len") and mentions(ta, lambda x: x[0] == "field" and x[2] == "bits"))
        if te[0] == "op" and te[1] == "min" and (is_num_words(te[2]) or is_num_words(te[3])):
            txt_ok = True
        rr.instances += 1
        rr.ob(txt_ok, key="Select9::new:word-loop-bounded-by-num-words")
        if not txt_ok:
            rr.violate("Select9::new:word-loop-bounded-by-num-words", "Select9::new reads `%s` in a loop that ends at `%s`, which is not clamped to the number of words of the bit vector: for the last inventory entry the end is the sentinel ((num_words + 3) & !3) * 64 and the loop reads one word past the end when num_words is not a multiple of 4 (sparse vectors)" % (show(F, n)[:60], show(F, et)[:80]), F.loc(n))
    if checked == 0:
        raise AnchorMissing("Select9::new: no indexed read of the bit vector in a counted word loop")


@rule("R02.11", props=["C02"], floor=2, title="SelectSmall/SelectZeroSmall: the table of first inventory entries per superblock is closed by the number of inventory entries")
def r02_11(ctx, rr):
    """`inventory_begin[k]` is an index into `inventory`; the closing sentinel must be `inventory.len()`, larger
    than every valid index. Any other quantity (the number of words) is smaller than some valid indices as soon
    as there is more than one inventory entry per word."""
    F = ctx.F()
    news = [b for b in F.fns() if b.name == "_new" and b.file.endswith(("rank_sel/select_small.rs", "rank_sel/select_zero_small.rs"))]
    if len(news) < 2:
        raise AnchorMissing("expected the _new constructors of SelectSmall and SelectZeroSmall")
    seen = set()
    for b in news:
        fkey = b.file
        # the two locals that become the fields inventory / inventory_begin
        ids = {}
        for n in walk(b.body):
            if n.get("k") == "Struct" and range_of(F, n) is None:
                for f in n["fields"]:
                    if f["name"] in ("inventory", "inventory_begin"):
                        ps = [x for x in walk(f["e"]) if x.get("k") == "Path" and x.get("res") == "local"]
                        if ps:
                            ids[f["name"]] = ps[0]["id"]
        # follow `let x = y.into_boxed_slice()` style rebinding back to the growable vector
        def origin(i):
            for _ in range(4):
                ls = [x for x in walk(b.body) if x.get("k") == "LetStmt" and x["pat"].get("k") == "PBind" and x["pat"]["id"] == i and "init" in x]
                if not ls:
                    return i
                ps = [x for x in walk(ls[0]["init"]) if x.get("k") == "Path" and x.get("res") == "local"]
                if not ps or ls[0]["init"].get("k") not in ("MethodCall",) or ls[0]["init"]["name"] not in ("into_boxed_slice", "into"):
                    return i
                i = ps[0]["id"]
            return i
        if len(ids) != 2:
            raise AnchorMissing("%s: struct literal with inventory and inventory_begin not found" % b.key)
        inv, beg = origin(ids["inventory"]), origin(ids["inventory_begin"])
        pushes = [n for n in walk(b.body) if n.get("k") == "MethodCall" and n["name"] == "push" and n["recv"].get("k") == "Path" and n["recv"].get("id") == beg]
        # the last push (closing sentinel) in source order that is not inside the construction loop
        pm = {id(n): ps for n, ps in walk_with_parents(b.body)}
        closing = [n for n in pushes if not any(p.get("k") == "Loop" for p in pm[id(n)])]
        if not closing:
            raise AnchorMissing("%s: no closing push onto inventory_begin" % b.key)
        for n in closing:
            a = n["args"][0]
            ok = (a.get("k") == "MethodCall" and a["name"] == "len" and a["recv"].get("k") == "Path" and a["recv"].get("id") == inv) or (a.get("k") == "Lit" and str(a.get("v")) == "0")
            key = "%s:inventory_begin-sentinel" % short_fn(b.key)
            if (fkey, show(F, a)) in seen:
                continue
            seen.add((fkey, show(F, a)))
            rr.instances += 1
            rr.ob(ok, key=key)
            if not ok:
                rr.violate(key, "%s closes inventory_begin with `%s`; the entries are indices into the inventory, so the sentinel must be the number of inventory entries (`inventory.len()`): with more than one entry per word a valid index exceeds this value and select looks in the wrong superblock" % (b.key, show(F, a)[:80]), F.loc(n))


@rule("R02.13", props=["C02"], floor=2, title="SelectSmall/SelectZeroSmall: inventory_begin gets one entry per superblock (also for a superblock without inventory entries): its index is the superblock index the queries compare it with")
def r02_13(ctx, rr):
    """select_unchecked looks inv_idx up in inventory_begin and compares the index found with the index of the
    superblock of the rank (from upper_counts). That is only meaningful if entry k of inventory_begin belongs to
    superblock k: the loop over the superblocks must push once per iteration, not only when an inventory entry
    falls in the superblock."""
    F = ctx.F()
    news = [b for b in F.fns() if b.name == "_new" and b.file.endswith(("rank_sel/select_small.rs", "rank_sel/select_zero_small.rs"))]
    if len(news) < 2:
        raise AnchorMissing("expected the _new constructors of SelectSmall and SelectZeroSmall")
    seen = set()
    for b in news:
        if b.file in seen:
            continue
        beg = None
        for n in walk(b.body):
            if n.get("k") == "Struct" and range_of(F, n) is None:
                for f in n["fields"]:
                    if f["name"] == "inventory_begin":
                        ps = [x for x in walk(f["e"]) if x.get("k") == "Path" and x.get("res") == "local"]
                        if ps:
                            beg = ps[0]["id"]
        for _ in range(4):
            ls = [x for x in walk(b.body) if x.get("k") == "LetStmt" and x["pat"].get("k") == "PBind" and x["pat"]["id"] == beg and "init" in x]
            if not ls or ls[0]["init"].get("k") != "MethodCall" or ls[0]["init"]["name"] not in ("into_boxed_slice", "into"):
                break
            ps = [x for x in walk(ls[0]["init"]) if x.get("k") == "Path" and x.get("res") == "local"]
            if not ps:
                break
            beg = ps[0]["id"]
        if beg is None:
            raise AnchorMissing("%s: no local flows into inventory_begin" % b.key)
        pm = {id(n): ps for n, ps in walk_with_parents(b.body)}
        pushes = [n for n in walk(b.body) if n.get("k") == "MethodCall" and n["name"] == "push" and n["recv"].get("k") == "Path" and n["recv"].get("id") == beg]
        in_loop = [n for n in pushes if any(p.get("k") == "Loop" for p in pm[id(n)])]
        if not in_loop:
            raise AnchorMissing("%s: inventory_begin is not filled inside the loop over the superblocks" % b.key)
        # the superblock loop: the outermost loop around the pushes
        outer = [p for p in pm[id(in_loop[0])] if p.get("k") == "Loop"][0]
        per_superblock = [n for n in in_loop if [p for p in pm[id(n)] if p.get("k") == "Loop"] == [outer]]
        seen.add(b.file)
        rr.instances += 1
        key = "%s:inventory_begin-one-entry-per-superblock" % short_fn(b.key)
        rr.ob(bool(per_superblock), key=key, sample={"fn": b.key, "pushes_in_loops": len(in_loop), "pushes_once_per_superblock": len(per_superblock)})
        if not per_superblock:
            rr.violate(key, "%s pushes onto inventory_begin only from inside the loop that emits inventory entries: a superblock (2^32 bits) in which no entry falls gets no slot, the slots of all later superblocks shift down by one, and select compares their index with the index of the superblock of the rank (panic or wrong block on vectors longer than 2^32 bits with an empty stretch)" % b.key, F.loc(in_loop[0]))


@rule("R02.14", props=["C02"], floor=4, title="SelectSmall/SelectZeroSmall: the block search never leaves the superblock of the rank (every end of the search range is clipped to (upper_block_idx + 1) * blocks per superblock)")
def r02_14(ctx, rr):
    """The absolute counters restart at every superblock; a partition point computed over blocks of two superblocks
    compares the local rank with counters of the wrong superblock."""
    F = ctx.F()
    qs = [b for b in F.fns() if b.name in ("select_unchecked", "select_zero_unchecked") and b.file.endswith(("rank_sel/select_small.rs", "rank_sel/select_zero_small.rs"))]
    if len(qs) < 2:
        raise AnchorMissing("expected select_unchecked / select_zero_unchecked of the small selectors")
    seen = set()
    for b in qs:
        if b.file in seen:
            continue
        # the local used as the end of the slice `counts[block_idx..END]`
        ends = []
        for n in walk(b.body):
            if n.get("k") == "Index":
                r = range_of(F, n["i"]) if n["i"].get("k") == "Struct" else None
                if r and r[1] is not None and r[1].get("k") == "Path" and r[1].get("res") == "local":
                    ends.append(r[1]["id"])
        if not ends:
            continue  # a forwarder (the selector of the other kind delegates to the underlying structure)
        seen.add(b.file)
        end_id = ends[0]
        from r_guards import simple_env
        T = simple_env(F, b)
        asg = [n for n in walk(b.body) if n.get("k") == "Assign" and n["l"].get("k") == "Path" and n["l"].get("id") == end_id]
        lets = [n for n in walk(b.body) if n.get("k") == "LetStmt" and n["pat"].get("k") == "PBind" and n["pat"]["id"] == end_id and "init" in n]
        vals = [a["r"] for a in asg] + [l["init"] for l in lets]

        def leaves(e):
            if e.get("k") == "If":
                out = []
                for br in (e["th"], e.get("el")):
                    if br is None:
                        continue
                    tail = br.get("expr") if br.get("k") == "Block" else br
                    out += leaves(tail) if tail is not None else []
                return out
            if e.get("k") == "Block" and "expr" in e:
                return leaves(e["expr"])
            return [e]
        n_leaves = sum(len(leaves(v)) for v in vals)
        if n_leaves < 2:
            raise AnchorMissing("%s: expected the end of the search range to be given on two paths at least (an assignment per path, or the branches of one `if` value), found %d" % (b.key, n_leaves))
        for v in vals:
            for leaf in leaves(v):
                t = T.term(leaf)
                rr.instances += 1
                key = "%s:search-range-within-superblock" % short_fn(b.key)
                # admissible: the block of an inventory position of this superblock (mentions inventory), or an
                # expression clipped by / equal to (upper_block_idx + 1) * (SUPERBLOCK / BLOCK)
                def is_sb_end(x):
                    return x[0] == "op" and x[1] == "*" and any(y[0] == "op" and y[1] == "/" and "SUPERBLOCK_BIT_SIZE" in repr(y) and "BLOCK_BIT_SIZE" in repr(y) for y in (x[2], x[3]))
                from_inventory = mentions(t, lambda x: x[0] == "call" and x[1].endswith("get_unchecked") and "inventory" in repr(x))
                clipped = is_sb_end(t) or (t[0] == "op" and t[1] == "min" and (is_sb_end(t[2]) or is_sb_end(t[3])))
                ok = from_inventory or clipped
                rr.ob(ok, key=key, sample={"fn": b.key, "end": tshow(t)[:120]})
                if not ok:
                    rr.violate(key, "%s ends the block search at `%s`, which is neither the block of an inventory entry of the rank's superblock nor clipped to the end of that superblock ((upper_block_idx + 1) * (SUPERBLOCK_BIT_SIZE / BLOCK_BIT_SIZE)): on a vector that continues into the next superblock the search compares the local rank with counters that restarted from zero" % (b.key, tshow(t)[:100]), F.loc(leaf))
    if len(seen) < 2:
        raise AnchorMissing("R02.14: expected a `counts[a..b]` block search in both small selectors, found it in %d file(s)" % len(seen))


@rule("R02.12", props=["C02", "C01"], floor=10, title="broadword comparisons: a subtraction whose minuend has the lane MSBs forced to one has the lane MSBs cleared in its subtrahend")
def r02_12(ctx, rr):
    """`((y | MSBS) - (x & !MSBS))` keeps every lane's borrow inside the lane. With the subtrahend unmasked a lane
    whose top bit is set borrows from its neighbour and the parallel `x <= y` is wrong for counters >= 2^(k-1)."""
    F = ctx.F()
    bodies = [b for b in F.fns() if not is_derived(b) and b.file.startswith("src/rank_sel/") and b.name in ("complete_select", "select_unchecked", "select_zero_unchecked", "rank_unchecked")]
    CE = None

    def is_msbs(n):
        if n.get("k") == "Path" and n.get("res") == "def" and "MSBS_STEP" in (n.get("name") or ""):
            return n["name"]
        return None
    for b in bodies:
        for n in walk(b.body):
            if n.get("k") == "Binary" and n["op"] == "-":
                l, r = n["l"], n["r"]
                while l.get("k") == "Block" and "expr" in l and not l["stmts"]:
                    l = l["expr"]
                while r.get("k") == "Block" and "expr" in r and not r["stmts"]:
                    r = r["expr"]
                if l.get("k") == "Binary" and l["op"] == "|":
                    m = is_msbs(l["l"]) or is_msbs(l["r"])
                    if not m:
                        continue
                    rr.instances += 1
                    ok = False
                    if r.get("k") == "Binary" and r["op"] == "&":
                        for side in (r["l"], r["r"]):
                            if side.get("k") == "Unary" and side.get("op") == "!" and is_msbs(side["e"]) == m:
                                ok = True
                    key = "%s:lane-borrow-confined" % short_fn(b.key)
                    rr.ob(ok, key=key + m)
                    if not ok:
                        rr.violate(key, "%s subtracts `%s` from a word whose lane MSBs are forced to one (`| %s`) without clearing the lane MSBs of the subtrahend (`& !%s`): a lane with its top bit set borrows from the next lane and the parallel comparison is wrong for counters >= half the lane range" % (b.key, show(F, r)[:80], m, m), F.loc(n))
