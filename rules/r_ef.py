"""Elias-Fano agreement rules: split/merge (R03.2), allocation formula (R03.3), float-to-shift
taint (R03.4), exact-size iterators (R03.6)."""
import re
from framework import rule
from guards import is_derived
from r_guards import short_fn
from sym import *  # noqa
from ir import *  # noqa


def struct_literal_fields(F, b, W=None, inline=None):
    """{field: term} of the (single) struct literal returned by a constructor body."""
    out = []

    def on_node(Wk, n, K):
        if n.get("k") == "Struct" and range_of(F, n) is None and "ops::Range" not in (F.defpath(n) or ""):
            out.append({f["name"]: Wk.T.term(f["e"]) for f in n["fields"]})
    Walker(F, b, on_node=on_node, inline=inline).run()
    return out


def low_mask(l):
    return mk_op("-", mk_op("<<", ("int", 1), l), ("int", 1))


def _same_masked(a, b):
    """equal up to the equivalent spellings of a low mask and the order of the operands of `&`"""
    ca, cb = canon_masks(a), canon_masks(b)
    if ca == cb:
        return True
    def ops(t):
        return sorted(map(repr, (t[2], t[3]))) if t[0] == "op" and t[1] == "&" else None
    return ops(ca) is not None and ops(ca) == ops(cb)


@rule("R03.2", props=["C03"], floor=4, title="Elias-Fano writers and readers agree on the split (low = v & (2^l - 1) at i, high bit at (v >> l) + i)")
def r03_2(ctx, rr):
    F = ctx.F()
    # writer (sequential): push_unchecked
    sb = F.one(r"^dict::elias_fano::EliasFanoBuilder::push_unchecked$")
    slf = ("var", "self", sb.params[0]["id"])
    val = ("var", sb.params[1]["name"], sb.params[1]["id"])
    l = ("field", slf, "l")
    cnt = ("field", slf, "count")
    writes = []

    def on_node(W, n, K):
        if n.get("k") == "MethodCall" and n["recv"].get("k") == "Field" and n["recv"]["name"] in ("low_bits", "high_bits"):
            writes.append((n["recv"]["name"], cname(F, n), [W.T.term(a) for a in n["args"]], n))
    Walker(F, sb, on_node=on_node).run()
    lows = [w for w in writes if w[0] == "low_bits"]
    highs = [w for w in writes if w[0] == "high_bits"]
    if len(lows) != 1 or len(highs) != 1:
        raise AnchorMissing("push_unchecked: expected one write to low_bits and one to high_bits, found %d/%d" % (len(lows), len(highs)))
    rr.instances += 1
    want_low = mk_op("&", val, low_mask(l))
    rr.check(lows[0][2][0] == cnt and _same_masked(lows[0][2][1], want_low), "push_unchecked:low", "push_unchecked must store `value & ((1 << l) - 1)` at position count; found position %s, value %s" % (tshow(lows[0][2][0]), tshow(lows[0][2][1])), F.loc(lows[0][3]))
    rr.instances += 1
    want_high = mk_op("+", mk_op(">>", val, l), cnt)
    rr.check(highs[0][2][0] == want_high and highs[0][2][1] == ("bool", True), "push_unchecked:high", "push_unchecked must set the high bit at `(value >> l) + count`; found %s" % tshow(highs[0][2][0]), F.loc(highs[0][3]))
    # reader: get_unchecked == ((select(i) - i) << l) | low(i)
    gb = F.one(r"^<dict::elias_fano::EliasFano<H, L> as traits::indexed_dict::IndexedSeq>::get_unchecked$")
    W = Walker(F, gb)
    W.run()
    t = W.T.term(gb.body.get("expr")) if gb.body.get("expr") is not None else ("unk", "?")
    s = ("var", "self", gb.params[0]["id"])
    i = ("var", gb.params[1]["name"], gb.params[1]["id"])
    hb = ("field", s, "high_bits")
    lb = ("field", s, "low_bits")
    want = mk_op("|", mk_op("<<", mk_op("-", ("call", "SelectUnchecked::select_unchecked", (hb, i)), i), ("field", s, "l")),
                 ("call", "BitFieldSlice::get_unchecked", (lb, i)))
    rr.instances += 1
    rr.check(t == want, "EliasFano::get_unchecked:merge", "get_unchecked must be `((select(i) - i) << l) | low(i)`; found %s" % tshow(t)[:300], gb.span)
    # iterator: (pos - index) << l | next low
    nb = F.one(r"^<dict::elias_fano::EliasFanoIterator<'_, H, L> as std::iter::Iterator>::next$")
    merges = []
    s2 = ("var", "self", nb.params[0]["id"])

    def on_merge(Wk, n, K):
        if n.get("k") == "Binary" and n["op"] == "|" and Wk.debug_depth == 0:
            merges.append((n, Wk.expand(Wk.T.term(n))))
    Walker(F, nb, on_node=on_merge).run()
    if not merges:
        raise AnchorMissing("EliasFanoIterator::next: no `high << l | low` merge expression")
    for n, t in merges:
        ok = False
        if t[0] == "op" and t[1] == "|":
            for a, bb in ((t[2], t[3]), (t[3], t[2])):
                if a[0] == "op" and a[1] == "<<" and a[3] == ("field", ("field", s2, "ef"), "l") and bb[0] == "call" and bb[1] == "UncheckedIterator::next_unchecked":
                    hi = a[2]
                    ok = hi[0] == "op" and hi[1] == "-" and hi[3] == ("field", s2, "index") and \
                        mentions(hi[2], lambda x: x[0] == "op" and x[1] == "*" and mentions(x, lambda y: y == ("field", s2, "word_idx")))
        rr.instances += 1
        rr.check(ok, "EliasFanoIterator::next:merge", "EliasFanoIterator::next must yield `((word_idx * BITS + bit - index) << ef.l) | next low bits`; found %s" % tshow(t)[:300], F.loc(n))


@rule("R03.3", props=["C03", "C11", "C13", "C04", "C12"], floor=4, title="both Elias-Fano builders compute l and size the low/high parts by the same documented formula")
def r03_3(ctx, rr):
    F = ctx.F()
    seq = F.one(r"^dict::elias_fano::EliasFanoBuilder::new$")
    con = F.one(r"^dict::elias_fano::EliasFanoConcurrentBuilder::new$")
    lits = {}
    for b in (seq, con):
        sl = struct_literal_fields(F, b)
        if len(sl) != 1:
            raise AnchorMissing("%s: expected exactly one struct literal" % b.key)
        ren = param_roles(b, ["n", "u"])
        lits[b.key] = {k: rename_vars(v, ren) for k, v in sl[0].items()}
    A, B = lits[seq.key], lits[con.key]
    n, u = ("var", "n"), ("var", "u")
    for fld in ("n", "u"):
        for nm, L in ((seq.key, A), (con.key, B)):
            rr.instances += 1
            rr.check(L.get(fld) == ("var", fld), "%s:field-%s" % (short_fn(nm), fld), "%s must store its parameter `%s` in the field of the same name; found %s" % (nm, fld, tshow(L.get(fld, ("unk", "missing")))), seq.span)
    # same l in both builders: identical terms, or equal values on the grid of R11.8
    GRID = [(n_, u_) for n_ in (0, 1, 2, 3, 7, 64, 1000, 10 ** 6) for u_ in (0, 1, 2, 5, 63, 64, 1000, 1 << 20, (1 << 28) + 5, 1 << 40, (1 << 63) + 12345, (1 << 64) - 1)]

    def l_values(t):
        return [_ieval(t, {"n": n_, "u": u_}) for n_, u_ in GRID]
    la, lb = A.get("l", ("unk", "?")), B.get("l", ("unk", "?"))
    same = la == lb or (None not in l_values(la) and l_values(la) == l_values(lb))
    rr.instances += 1
    rr.check(same, "EliasFanoBuilder::new~ConcurrentBuilder::new:l", "the two builders compute the number of lower bits differently: %s vs %s" % (tshow(la)[:200], tshow(lb)[:200]), con.span)
    for nm, L, bkey in ((seq.key, A, seq), (con.key, B, con)):
        l = L.get("l", ("unk", "?"))
        # l = floor(lg(u / n)) for u >= n > 0, 0 for u < n (n = 0 is settled by the space bound, R11.8), computed on
        # integers (no float conversion anywhere in the term): decided by value on the grid, whatever the shape
        vals = l_values(l)
        fam_ok = not mentions(l, lambda x: x[0] == "float" or (x[0] == "cast" and x[1] in ("f64", "f32")))
        bad_pt = None
        for (n_, u_), v in zip(GRID, vals):
            if v is None:
                fam_ok = False
                bad_pt = (n_, u_, "not evaluable")
                break
            if n_ > 0:
                want = ((u_ // n_).bit_length() - 1) if u_ >= n_ else 0
                if v != want:
                    fam_ok = False
                    bad_pt = (n_, u_, "l = %d, expected %d" % (v, want))
                    break
        rr.instances += 1
        rr.check(fam_ok, "%s:l-formula" % short_fn(nm), "%s: the number of lower bits must be floor(lg(u / n)) for u >= n > 0 and 0 for u < n, computed on integers; found %s (%s)" % (nm, tshow(l)[:300], bad_pt), bkey.span)
        # low bits: new(l, n); high bits: new(n + (u >> l) + c), 1 <= c <= 2
        low = L.get("low_bits", ("unk", "?"))
        rr.instances += 1
        rr.check(low[0] == "call" and low[1].endswith("::new") and low[2] == (l, n), "%s:low-size" % short_fn(nm), "%s must allocate the low bits as new(l, n); found %s" % (nm, tshow(low)[:200]), bkey.span)
        high = L.get("high_bits", ("unk", "?"))
        ok = False
        c = None
        if high[0] == "call" and high[1].endswith("::new") and len(high[2]) == 1:
            base, off = lin(high[2][0])
            c = off
            ok = base == mk_op("+", n, mk_op(">>", u, l)) and 1 <= off <= 2
        rr.instances += 1
        rr.check(ok, "%s:high-size" % short_fn(nm), "%s must allocate `n + (u >> l) + c` high bits with 1 <= c <= 2 (n ones and (u >> l) + 1 zeros); found %s" % (nm, tshow(high)[:200]), bkey.span)
    ha, hb = A.get("high_bits"), B.get("high_bits")
    if ha and hb and ha[0] == "call" and hb[0] == "call":
        rr.instances += 1
        same_h = ha[2] == hb[2]
        if not same_h and len(ha[2]) == 1 and len(hb[2]) == 1:
            va = [_ieval(ha[2][0], {"n": n_, "u": u_}) for n_, u_ in GRID]
            vb = [_ieval(hb[2][0], {"n": n_, "u": u_}) for n_, u_ in GRID]
            same_h = None not in va and va == vb
        rr.check(same_h, "EliasFanoBuilder::new~ConcurrentBuilder::new:high-size", "the two builders size the high bits differently: %s vs %s" % (tshow(ha[2][0]), tshow(hb[2][0])), con.span)
    # build(): fields carried over unchanged
    for path in (r"^dict::elias_fano::EliasFanoBuilder::build$", r"^dict::elias_fano::EliasFanoConcurrentBuilder::build$"):
        b = F.one(path)
        sl = struct_literal_fields(F, b)
        slf = ("var", "self", b.params[0]["id"])
        rr.instances += 1
        ok = len(sl) == 1 and all(sl[0].get(f) == ("field", slf, f) for f in ("n", "u", "l"))
        rr.check(ok, "%s:carries-n-u-l" % short_fn(b.key), "%s must copy n, u and l unchanged into the EliasFano it returns" % b.key, b.span)
        if len(sl) == 1:
            for f in ("low_bits", "high_bits"):
                t = sl[0].get(f, ("unk", "?"))
                rr.instances += 1
                rr.check(t == ("field", slf, f), "%s:carries-%s" % (short_fn(b.key), f), "%s must convert %s only by the layout-preserving From conversions; found %s" % (b.key, f, tshow(t)[:200]), b.span)


def is_floaty(t):
    return (t[0] == "cast" and t[1] in ("f64", "f32")) or t[0] == "float" or (t[0] == "call" and (t[1].startswith("f64::") or t[1].startswith("f32::")))


@rule("R03.4", props=["C03", "C11"], floor=4, title="no float-derived value becomes a shift amount, bit width or allocation size in Elias-Fano")
def r03_4(ctx, rr):
    F = ctx.F()
    bodies = [b for b in F.fns() if b.file.endswith("dict/elias_fano.rs") and not is_derived(b)]
    for b in bodies:
        hits = []

        def on_node(W, n, K):
            k = n.get("k")
            if k == "Binary" and n["op"] in ("<<", ">>"):
                t = W.T.term(n["r"])
                if mentions(t, is_floaty):
                    hits.append((n, "shift amount", t))
            elif k in ("Call", "MethodCall"):
                cn = cname(F, n) or ""
                if cn.endswith("::new") or cn.endswith("with_capacity"):
                    for a in call_args(n):
                        t = W.T.term(a)
                        if mentions(t, is_floaty):
                            hits.append((n, "argument of %s" % cn, t))
            elif k == "Struct":
                for f in n["fields"]:
                    if f["name"] == "l":
                        t = W.T.term(f["e"])
                        if mentions(t, is_floaty):
                            hits.append((n, "field l (a shift amount)", t))
        Walker(F, b, on_node=on_node).run()
        rr.instances += 1
        key = "%s:float-free" % short_fn(b.key)
        rr.ob(not hits, key=key, nontrivial=bool(hits))
        for n, what, t in hits[:2]:
            rr.violate(key, "%s: a value computed through floating point (`%s`) is used as %s; rounding makes it exceed the word size or go negative for extreme (n, u) (e.g. n = 1, u = usize::MAX gives 64)" % (b.key, tshow(t)[:200], what), F.loc(n))


@rule("R03.6", props=["C03", "C09"], floor=3, title="exact-size iterators: len == total - index, size_hint == (len, Some(len)), one increment per Some")
def r03_6(ctx, rr):
    F = ctx.F()
    specs = [
        (r"^<dict::elias_fano::EliasFanoIterator<'_, H, L> as std::iter::ExactSizeIterator>::len$", r"^<dict::elias_fano::EliasFanoIterator<'_, H, L> as std::iter::Iterator>::size_hint$",
         r"^<dict::elias_fano::EliasFanoIterator<'_, H, L> as std::iter::Iterator>::next$", lambda s: ("field", ("field", s, "ef"), "n")),
        (r"^<dict::rear_coded_list::Lend<'_, D, P> as lender::ExactSizeLender>::len$", r"^<dict::rear_coded_list::Lend<'_, D, P> as lender::Lender>::size_hint$",
         r"^<dict::rear_coded_list::Lend<'_, D, P> as lender::Lender>::next$", lambda s: ("field", ("field", s, "rca"), "len")),
    ]
    inl = ctx.memo("inliner", lambda: make_inliner(F))
    for len_p, hint_p, next_p, total in specs:
        lb = F.one(len_p)
        s = ("var", "self", lb.params[0]["id"])
        T = Termizer(F, lb, inline=inl)
        t = T.term(lb.body)
        want = mk_op("-", total(s), ("field", s, "index"))
        rr.instances += 1
        rr.check(t == want, "%s:formula" % short_fn(lb.key), "%s must be `total - index`; found %s" % (lb.key, tshow(t)), lb.span)
        hb = F.one(hint_p)
        hs = ("var", "self", hb.params[0]["id"])
        ht = Termizer(F, hb).term(hb.body)
        # the remaining count of *this iterator*: `self.len()`, not the length of what it iterates over
        own_len = ht[0] == "tup" and len(ht) == 3 and ht[1][0] == "call" and ht[1][1].endswith("::len") and ht[1][2] == (hs,)
        ok = own_len and ht[2][0] in ("call", "callv") and mentions(ht[2], lambda x: x == ht[1])
        rr.instances += 1
        rr.check(bool(ok), "%s:hint" % short_fn(hb.key), "%s must be (self.len(), Some(self.len())); found %s" % (hb.key, tshow(ht)), hb.span)
        nb = F.one(next_p)
        incs = [n for n in walk(nb.body) if n.get("k") == "AssignOp" and n["l"].get("k") == "Field" and n["l"]["name"] == "index" and n["op"] == "+=" and n["r"].get("v") == "1"]
        rr.instances += 1
        rr.check(len(incs) == 1, "%s:one-increment" % short_fn(nb.key), "%s must advance `index` exactly once per returned element (found %d increments)" % (nb.key, len(incs)), nb.span)


class Inliner:
    """Inlines calls to crate functions whose body is a single simple expression (accessor-like)."""

    def __init__(self, F):
        self.F = F
        self.simple = {}
        for b in F.fns():
            if is_derived(b) or b.unsafe:
                continue
            e = b.body
            while e.get("k") == "Block" and "expr" in e and all(is_debug_only(F, st) or (st.get("k") == "If" and st["c"].get("k") == "Lit" and "cfg" in F.mac(st["c"])) for st in e["stmts"]):
                e = e["expr"]
            if e.get("k") in ("Field", "Path", "Lit") or (e.get("k") in ("Call", "MethodCall") and all(a.get("k") in ("Path", "Field") for a in call_args(e))):
                self.simple.setdefault(b.name, []).append((b, e))
            elif e.get("k") in ("Tup", "Binary", "MethodCall") and self._pure_arith(e):
                # a helper returning a pair/expression of plain arithmetic on fields and parameters
                self.simple.setdefault(b.name, []).append((b, e))
            elif self._pure_block(b.body):
                # a private helper made of immutable `let`s and a tail expression of arithmetic / comparisons /
                # if-else / tuples (what "extract a helper" produces)
                self.simple.setdefault(b.name, []).append((b, b.body))
        self.depth = 0

    def _pure_block(self, body):
        if body.get("k") != "Block" or "expr" not in body:
            return False
        F = self.F
        n_nodes = sum(1 for _ in walk(body))
        if n_nodes > 90:
            return False
        for st in body["stmts"]:
            if is_debug_only(F, st) or (st.get("k") == "If" and st["c"].get("k") == "Lit" and "cfg" in F.mac(st["c"])):
                continue
            if st.get("k") == "LetStmt" and st["pat"].get("k") == "PBind" and not st["pat"].get("mut") and "init" in st and "els" not in st and self._pure_expr(st["init"]):
                continue
            return False
        return self._pure_expr(body["expr"])

    def _pure_expr(self, e, depth=0):
        k = e.get("k")
        if depth > 10:
            return False
        if k in ("Path", "Lit"):
            return True
        if k in ("Field", "Cast", "Unary", "AddrOf"):
            return all(self._pure_expr(c, depth + 1) for c in kids(e))
        if k == "Tup":
            return all(self._pure_expr(c, depth + 1) for c in e["es"])
        if k == "Binary":
            return self._pure_expr(e["l"], depth + 1) and self._pure_expr(e["r"], depth + 1)
        if k == "If" and "el" in e and e["c"].get("k") != "Let":
            return self._pure_expr(e["c"], depth + 1) and self._pure_expr(e["th"], depth + 1) and self._pure_expr(e["el"], depth + 1)
        if k == "Block" and not e.get("stmts") and "expr" in e:
            return self._pure_expr(e["expr"], depth + 1)
        if k == "MethodCall" and e["name"] in ("ilog2", "div_ceil", "min", "max", "saturating_sub", "count_ones", "trailing_zeros", "leading_zeros", "pow", "is_empty", "len", "next_multiple_of", "wrapping_add", "wrapping_sub", "wrapping_mul", "abs_diff", "rotate_left", "rotate_right", "to_le_bytes"):
            return all(self._pure_expr(c, depth + 1) for c in call_args(e))
        if k == "MethodCall" and e["name"] in ("expect", "unwrap") and e["recv"].get("k") == "MethodCall" and e["recv"]["name"] in ("checked_mul", "checked_add", "checked_sub"):
            return all(self._pure_expr(c, depth + 1) for c in call_args(e["recv"]))
        if k == "Call" and e.get("f", {}).get("k") == "Path" and (self.F.callee(e) or "").startswith(("core::cmp::", "std::cmp::")):
            return all(self._pure_expr(c, depth + 1) for c in e["args"])
        return False

    def _pure_arith(self, e, depth=0):
        k = e.get("k")
        if depth > 6:
            return False
        if k in ("Field", "Path", "Lit"):
            return all(self._pure_arith(c, depth + 1) for c in kids(e)) if k == "Field" else True
        if k == "Tup":
            return all(self._pure_arith(c, depth + 1) for c in e["es"])
        if k == "Binary" and e["op"] in ("+", "-", "*", "/", "%", "<<", ">>", "&", "|"):
            return self._pure_arith(e["l"], depth + 1) and self._pure_arith(e["r"], depth + 1)
        if k in ("Cast", "Unary", "AddrOf"):
            return all(self._pure_arith(c, depth + 1) for c in kids(e))
        if k == "Block" and not e["stmts"] and "expr" in e:
            return self._pure_arith(e["expr"], depth + 1)
        # `a.checked_mul(b).expect(..)`: the same product over ideal integers (the rules reason over those)
        if k == "MethodCall" and e["name"] in ("expect", "unwrap") and e["recv"].get("k") == "MethodCall" and e["recv"]["name"] in ("checked_mul", "checked_add", "checked_sub"):
            return all(self._pure_arith(c, depth + 1) for c in call_args(e["recv"]))
        return False

    def try_inline(self, cn, args, n, T):
        F = self.F
        c = F.callee(n)
        if c is None or n.get("cc") != "sux" or self.depth >= 3:
            return None
        name = strip_generics(c).split("::")[-1]
        cands = self.simple.get(name, [])
        tr = F.ctrait(n)
        target = None
        if tr is not None and n.get("ga"):
            self_ty = n["ga"][0].lstrip("&").replace("mut ", "")
            adt = strip_generics(self_ty)
            hits = [(b, e) for b, e in cands if b.impl_trait == tr and b.impl_self is not None and strip_generics(b.impl_self) == adt]
            if len(hits) == 1:
                target = hits[0]
        else:
            hits = [(b, e) for b, e in cands if b.path == c]
            if len(hits) == 1:
                target = hits[0]
        if target is None:
            return None
        b, e = target
        if len(b.params) != len(args):
            return None
        sub = Termizer(F, b, inline=self)
        for p, a in zip(b.params, args):
            if p.get("k") == "PBind":
                sub.env[p["id"]] = a
        self.depth += 1
        try:
            if e is b.body and e.get("k") == "Block":
                t = sub._closure_body_term(e)
                return t
            return sub.term(e)
        finally:
            self.depth -= 1


def make_inliner(F):
    inl = getattr(F, "_default_inliner", None)
    if inl is None:
        inl = Inliner(F)
        F._default_inliner = inl
    return inl


import sym as _sym
_sym.DEFAULT_INLINER_FACTORY = make_inliner


@rule("R03.7", props=["C03", "C04", "C06"], floor=5, title="word scans: a bit position is taken (trailing_zeros/leading_zeros) only from a window known to be non-zero")
def r03_7(ctx, rr):
    """`while window == 0 { advance; reload }` establishes window != 0 before `trailing_zeros()`; an `if`
    in its place skips only one empty word and then decodes a position from an empty window."""
    F = ctx.F()
    bodies = [b for b in F.fns() if not is_derived(b) and b.file.endswith(("dict/elias_fano.rs", "bits/bit_vec.rs")) and any(n.get("k") == "MethodCall" and n["name"] in ("trailing_zeros", "leading_zeros") for n in walk(b.body))]
    for b in bodies:
        sites = []

        def on_node(W, n, K, sites=sites):
            if n.get("k") == "MethodCall" and n["name"] in ("trailing_zeros", "leading_zeros") and W.debug_depth == 0:
                t = W.T.term(n["recv"])
                ok = K.entails(atom_ne(t, ("int", 0))) or K.entails(atom_le(("int", 1), t))
                sites.append((n, ok, tshow(t)[:80], K.show()[:5]))
        Walker(F, b, on_node=on_node).run()
        for n, ok, t, known in sites:
            rr.instances += 1
            key = "%s:nonzero-window" % short_fn(b.key)
            rr.ob(ok, key=key + str(ok), sample={"fn": b.key, "site": show(F, n)[:80], "established": known})
            if not ok:
                rr.violate(key, "%s takes a bit position from `%s` (`%s`) without `!= 0` established on every path (established: %s): an empty word yields position 64" % (b.key, t, show(F, n)[:80], "; ".join(known) or "nothing"), F.loc(n))


@rule("R03.8", props=["C03", "C05", "C09", "C18"], floor=4, title="every exact-size iterator reports `total - cursor`, where cursor is the field its next() advances by one")
def r03_8(ctx, rr):
    F = ctx.F()
    lens = [b for b in F.fns() if b.name == "len" and (b.impl_trait or "").endswith(("ExactSizeIterator", "ExactSizeLender"))]
    if len(lens) < 4:
        raise AnchorMissing("expected at least 4 ExactSizeIterator/ExactSizeLender impls, found %d" % len(lens))
    for lb in lens:
        # the matching next(): same impl self type
        nexts = [b for b in F.fns() if b.name == "next" and b.impl_self == lb.impl_self and (b.impl_trait or "").endswith(("Iterator", "Lender"))]
        if not nexts:
            continue
        nb = nexts[0]
        cursors = set()
        for n in walk(nb.body):
            if n.get("k") == "AssignOp" and n["op"] == "+=" and n["l"].get("k") == "Field" and n["l"]["e"].get("k") == "Path" and n["l"]["e"].get("name") == "self" and n["r"].get("v") == "1":
                cursors.add(n["l"]["name"])
        s = ("var", "self", lb.params[0]["id"])
        t = Termizer(F, lb).term(lb.body)
        rr.instances += 1
        key = "%s:total-minus-cursor" % short_fn(lb.key)
        if t[0] == "call" and t[1].endswith("::len") and t[2] and t[2][0][0] == "field":
            # forwards to an inner exact-size iterator
            rr.ob(True, key=key, nontrivial=False)
            continue
        ok = t[0] == "op" and t[1] == "-" and t[3][0] == "field" and t[3][1] == s and t[3][2] in cursors
        rr.ob(ok, key=key, sample={"fn": lb.key, "len": tshow(t), "cursor_fields_advanced_by_next": sorted(cursors)})
        if not ok:
            rr.violate(key, "%s must be `total - self.<cursor>` with the cursor that next() advances by one per item (%s); found %s" % (lb.key, sorted(cursors), tshow(t)), lb.span)
        # size_hint of the same iterator: (remaining, Some(remaining)) -- its own len(), or the same expression
        hints = [b for b in F.fns() if b.name == "size_hint" and b.impl_self == lb.impl_self and (b.impl_trait or "").endswith(("Iterator", "Lender"))]
        for hb in hints[:1]:
            hs = ("var", "self", hb.params[0]["id"])
            ht = Termizer(F, hb).term(hb.body)
            lt = rewrite_term(t, s, hs)
            okh = False
            if ht[0] == "tup" and len(ht) == 3:
                lo = ht[1]
                own = (lo[0] == "call" and lo[1].endswith("::len") and lo[2] == (hs,)) or lo == lt
                okh = own and ht[2][0] in ("call", "callv") and mentions(ht[2], lambda x: x == lo) and "Some" in repr(ht[2])
            rr.instances += 1
            hkey = "%s:remaining" % short_fn(hb.key)
            rr.ob(okh, key=hkey)
            if not okh:
                rr.violate(hkey, "%s must report the number of items this iterator has left, `(self.len(), Some(self.len()))`; found %s (adaptors such as skip() derive their own length from it)" % (hb.key, tshow(ht)[:200]), hb.span)


@rule("R03.9", props=["C03", "C12"], floor=1, title="EliasFanoBuilder::build refuses a builder that has not received n values")
def r03_9(ctx, rr):
    """The selection structures attached by build_with_* assume that the high bits contain n ones; with fewer
    values pushed, get(i) for i >= count scans past the end of the high bits. build must establish count == n."""
    F = ctx.F()
    b = F.one(r"^dict::elias_fano::EliasFanoBuilder::build$")
    slf = ("var", "self", b.params[0]["id"])
    lits = []

    def on_node(W, n, K):
        if n.get("k") == "Struct" and range_of(F, n) is None and any(f["name"] == "high_bits" for f in n["fields"]):
            cnt, nn = ("field", slf, "count"), ("field", slf, "n")
            lits.append((n, K.entails(atom_le(cnt, nn)) and K.entails(atom_le(nn, cnt))))
    Walker(F, b, on_node=on_node).run()
    if not lits:
        raise AnchorMissing("EliasFanoBuilder::build: no EliasFano struct literal")
    for n, ok in lits:
        rr.instances += 1
        rr.ob(ok, key="EliasFanoBuilder::build:all-values-pushed")
        if not ok:
            rr.violate("EliasFanoBuilder::build:all-values-pushed", "EliasFanoBuilder::build creates the structure without establishing `count == n`: with fewer than n values pushed the result claims n elements, and every access to an index >= count selects a one that does not exist (out-of-bounds scan of the high bits)", F.loc(n))


def _ieval(t, env):
    """Integer evaluation of a term over usize semantics (None when a construct is not understood)."""
    k = t[0]
    if k == "int":
        return t[1]
    if k == "bool":
        return 1 if t[1] else 0
    if k == "var":
        return env.get(t[1])
    if k == "cast":
        return _ieval(t[2], env)
    if k == "ite":
        c = _ieval(t[1], env)
        if c is None:
            return None
        return _ieval(t[2] if c else t[3], env)
    if k == "op":
        if t[1] in ("&&", "||"):
            a = _ieval(t[2], env)
            if a is None:
                return None
            if t[1] == "&&" and not a:
                return 0
            if t[1] == "||" and a:
                return 1
            return _ieval(t[3], env)
        if t[1] == "!" and len(t) == 3:
            a = _ieval(t[2], env)
            return None if a is None else (0 if a else 1)
        a, b = _ieval(t[2], env), _ieval(t[3], env)
        if a is None or b is None:
            return None
        try:
            return {"+": lambda: a + b, "-": lambda: a - b, "*": lambda: a * b, "/": lambda: a // b, "%": lambda: a % b,
                    ">>": lambda: a >> b, "<<": lambda: a << b, "min": lambda: min(a, b), "max": lambda: max(a, b),
                    "<": lambda: int(a < b), "<=": lambda: int(a <= b), ">": lambda: int(a > b), ">=": lambda: int(a >= b),
                    "==": lambda: int(a == b), "!=": lambda: int(a != b), "&": lambda: a & b, "|": lambda: a | b}[t[1]]()
        except (KeyError, ZeroDivisionError, ValueError):
            return None
    if k == "call" and t[1] in ("int::ilog2",) and len(t[2]) == 1:
        a = _ieval(t[2][0], env)
        return None if a is None or a <= 0 else a.bit_length() - 1
    if k == "call" and t[1] in ("int::div_ceil",) and len(t[2]) == 2:
        a, b = _ieval(t[2][0], env), _ieval(t[2][1], env)
        return None if a is None or not b else -(-a // b)
    if k == "call" and t[1] in ("int::saturating_sub",) and len(t[2]) == 2:
        a, b = _ieval(t[2][0], env), _ieval(t[2][1], env)
        return None if a is None or b is None else max(0, a - b)
    return None


@rule("R11.8", props=["C11", "C03"], floor=2, title="Elias-Fano builders: n*l + (number of high bits) stays within n(2 + max(0, lg(u/n))) + a few words on a grid of (n, u), the empty sequence and u < n included")
def r11_8(ctx, rr):
    """R03.3 fixes the *shape* of l and of the two sizes; this rule evaluates them. The grid contains every
    regime: n = 0 (the bound is a constant: l must absorb u), n = 1, u < n, u = n, u a little above a power of
    two times n, u = 2^63."""
    import math
    F = ctx.F()
    grid = [(n, u) for n in (0, 1, 2, 3, 7, 64, 1000, 10 ** 6) for u in (0, 1, 2, 5, 63, 64, 1000, 1 << 20, (1 << 28) + 5, 1 << 40, (1 << 63) + 12345)]
    for path in (r"^dict::elias_fano::EliasFanoBuilder::new$", r"^dict::elias_fano::EliasFanoConcurrentBuilder::new$"):
        b = F.one(path)
        sl = struct_literal_fields(F, b)
        if len(sl) != 1:
            raise AnchorMissing("%s: expected exactly one struct literal" % b.key)
        ren = param_roles(b, ["n", "u"])
        L = {k: rename_vars(v, ren) for k, v in sl[0].items()}
        l_t = L.get("l", ("unk", "?"))
        high = L.get("high_bits", ("unk", "?"))
        low = L.get("low_bits", ("unk", "?"))
        if not (high[0] == "call" and len(high[2]) == 1 and low[0] == "call" and len(low[2]) == 2):
            raise AnchorMissing("%s: low_bits/high_bits are not constructor calls" % b.key)
        worst = None
        unevaluated = 0
        for n, u in grid:
            env = {"n": n, "u": u}
            lv = _ieval(l_t, env)
            hv = _ieval(high[2][0], env)
            wv = _ieval(low[2][0], env)
            cnt = _ieval(low[2][1], env)
            if None in (lv, hv, wv, cnt):
                unevaluated += 1
                continue
            bits = wv * cnt + hv
            bound = (n * (2 + max(0.0, math.log2(u / n) if u > 0 else 0.0)) if n > 0 else 0.0) + 192
            if bits > bound and (worst is None or bits - bound > worst[0]):
                worst = (bits - bound, n, u, lv, bits, bound)
        rr.instances += 1
        key = "%s:size-within-bound-on-grid" % short_fn(b.key)
        if unevaluated > len(grid) // 4:
            rr.violate(key + ":evaluable", "reason=anchor-missing: %s: the size formulas could not be evaluated on %d of %d grid points (l = %s)" % (b.key, unevaluated, len(grid), tshow(l_t)[:160]), b.span)
            continue
        rr.ob(worst is None, key=key, sample={"fn": b.key, "grid_points": len(grid), "unevaluated": unevaluated})
        if worst is not None:
            rr.violate(key, "%s: for n = %d, u = %d it chooses l = %d and allocates %d bits, above the documented n(2 + max(0, lg(u/n))) = %.0f bits plus three words" % (b.key, worst[1], worst[2], worst[3], worst[4], worst[5] - 192), b.span)
