"""E1 rules: checked wrappers establish the domain of the unchecked callee on every path
(R01.1, R02.1, R03.1, R03.5, R04.1, R04.3, R05.1, R06.2) and the unsafe-site census (R12.1, R12.2)."""
import re
from framework import rule, load_table
from guards import *  # noqa
from sym import *  # noqa
from ir import *  # noqa


def get_census(ctx):
    return ctx.memo("census", lambda: census(ctx.F()))


def site_sample(F, s):
    return {"fn": s.body.key, "at": s.loc, "call": s.args_show, "required": goal_show(s.goal),
            "established": s.known[:6], "discharged": s.ok}


def wrapper_sites(ctx, rr, fn_regex, callee, min_sites=1, label=None, props=None, checked_alt=None):
    """All census sites of `callee` inside functions matching fn_regex must be discharged. `checked_alt`: the checked
    counterpart of the callee (`slice::get`); a function that reaches the data only through it has nothing to discharge."""
    F = ctx.F()
    S = [s for s in get_census(ctx) if path_matches(fn_regex, s.body.key) and s.cname == callee and not s.debug_only]
    fns = sorted(set(s.body.key for s in S))
    if len(S) < min_sites and checked_alt:
        alt = [(b, n) for b in F.find(fn_regex) for n in walk(b.body) if cname(F, n) == checked_alt]
        if alt:
            for b, n in alt:
                rr.instances += 1
                rr.ob(True, key="%s:%s:checked" % (short_fn(b.key), checked_alt.split("::")[-1]), nontrivial=False)
            return S
    if len(S) < min_sites:
        raise AnchorMissing("no call of %s found in a safe function matching /%s/ (found %d sites, expected >= %d)" % (callee, fn_regex, len(S), min_sites))
    for s in S:
        rr.instances += 1
        key = "%s:%s:%s" % (short_fn(s.body.key), callee.split("::")[-1], s.descr)
        rr.ob(s.ok, key=key, sample=site_sample(F, s))
        if not s.ok:
            rr.violate(key, "%s: the call `%s` is not dominated by `%s` on every path (established: %s)" % (
                s.body.key, s.args_show, goal_show(s.goal), "; ".join(s.known[:6]) or "nothing"), s.loc,
                {"required": goal_show(s.goal), "established": s.known[:12], "callee": callee}, props=props)
    return S


def short_fn(key):
    """Stable short key of a function: Type::method or Trait::method (generics stripped)."""
    k = strip_generics(key)
    m = re.match(r"^<(.+) as (.+)>::(\w+)(#\d+)?$", k)
    if m:
        ty = m.group(1).split("::")[-1]
        tr = m.group(2).split("::")[-1]
        return "%s as %s::%s%s" % (ty, tr, m.group(3), m.group(4) or "")
    parts = k.split("::")
    return "::".join(parts[-2:])


# ---------------------------------------------------------------------------------------------
@rule("R01.1", props=["C01", "C12"], floor=4, title="rank()/rank_zero() clamp to len/num_ones before rank_unchecked")
def r01_1(ctx, rr):
    F = ctx.F()
    wrapper_sites(ctx, rr, r"^traits::rank_sel::Rank::rank$", "RankUnchecked::rank_unchecked")
    b = F.one(r"^traits::rank_sel::Rank::rank$")
    # the other exit returns num_ones() (as the tail of a branch or through an early return)
    ok = False

    def on_exit(W, n, K):
        nonlocal ok
        if cname(F, n) == "NumBits::num_ones" and W.debug_depth == 0:
            ps = pm.get(id(n), ())
            # in return position: every ancestor up to the body is a block tail, a branch of an if, or a `return`
            child = n
            good = True
            for p in reversed(ps):
                k = p.get("k")
                if k == "Ret":
                    break
                if k == "Block" and p.get("expr") is child:
                    child = p
                    continue
                if k == "If" and (p["th"] is child or p.get("el") is child):
                    child = p
                    continue
                if k in ("LetStmt",) or (k == "Block" and p.get("expr") is not child):
                    good = False
                    break
                child = p
            ok = ok or good
    pm = {id(n): ps for n, ps in walk_with_parents(b.body)}
    Walker(F, b, on_node=on_exit).run()
    rr.instances += 1
    rr.check(ok, "Rank::rank:other-exit", "Rank::rank: the exit not calling rank_unchecked must return self.num_ones()", b.span)
    # rank_zero(pos) == pos - rank(pos)
    b = F.one(r"^traits::rank_sel::RankZero::rank_zero$")
    t = Termizer(F, b).term(b.body)
    pos = ("var", b.params[1]["name"], b.params[1]["id"])
    slf = ("var", "self", b.params[0]["id"])
    want = mk_op("-", pos, ("call", "Rank::rank", (slf, pos)))
    rr.instances += 1
    rr.check(t == want, "RankZero::rank_zero:formula", "RankZero::rank_zero must be `pos - self.rank(pos)`; found %s" % tshow(t), b.span)
    # num_zeros == len - num_ones ; count_zeros == len - count_ones
    for path, acc in ((r"^traits::rank_sel::NumBits::num_zeros$", "NumBits::num_ones"), (r"^traits::rank_sel::BitCount::count_zeros$", "BitCount::count_ones")):
        b = F.one(path)
        t = Termizer(F, b).term(b.body)
        slf = ("var", "self", b.params[0]["id"])
        want = mk_op("-", ("call", "BitLength::len", (slf,)), ("call", acc, (slf,)))
        rr.instances += 1
        rr.check(t == want, "%s:formula" % short_fn(b.key), "%s must be `self.len() - self.%s()`; found %s" % (b.key, acc.split("::")[-1], tshow(t)), b.span)


@rule("R02.1", props=["C02", "C12"], floor=2, title="select()/select_zero() test rank < num_ones/num_zeros before *_unchecked")
def r02_1(ctx, rr):
    F = ctx.F()
    wrapper_sites(ctx, rr, r"^traits::rank_sel::Select::select$", "SelectUnchecked::select_unchecked")
    wrapper_sites(ctx, rr, r"^traits::rank_sel::SelectZero::select_zero$", "SelectZeroUnchecked::select_zero_unchecked")
    for path, unchecked in ((r"^traits::rank_sel::Select::select$", "SelectUnchecked::select_unchecked"), (r"^traits::rank_sel::SelectZero::select_zero$", "SelectZeroUnchecked::select_zero_unchecked")):
        b = F.one(path)
        # the checked exit wraps the unchecked result in Some(..); the other exit is None (its exactness is R12.4)
        somes = [n for n in walk(b.body) if n.get("k") == "Call" and n.get("ctor") and n["args"] and any(cname(F, x) == unchecked for x in walk(n["args"][0]))]
        nones = [n for n in walk(b.body) if is_none_ctor(F, n)] if "is_none_ctor" in globals() else [1]
        rr.instances += 1
        rr.check(len(somes) >= 1 and len(nones) >= 1, "%s:exits" % short_fn(b.key), "%s must return None out of range and Some(unchecked(rank)) otherwise" % b.key, b.span)


@rule("R03.1", props=["C03", "C12"], floor=3, title="EliasFanoBuilder::push validates count/bound/order before push_unchecked")
def r03_1(ctx, rr):
    F = ctx.F()
    wrapper_sites(ctx, rr, r"^dict::elias_fano::EliasFanoBuilder::push$", "EliasFanoBuilder::push_unchecked", min_sites=3)
    # push_unchecked updates count (+1) and last_value (= value): the invariants the guards rely on
    b = F.one(r"^dict::elias_fano::EliasFanoBuilder::push_unchecked$")
    slf_ = ("var", "self", b.params[0]["id"])
    val_ = ("var", b.params[1]["name"], b.params[1]["id"])
    Tp = Termizer(F, b)
    incs = [n for n in walk(b.body) if n.get("k") == "AssignOp" and n["op"] == "+=" and Tp.term(n["l"]) == ("field", slf_, "count")]
    sets = [n for n in walk(b.body) if n.get("k") == "Assign" and Tp.term(n["l"]) == ("field", slf_, "last_value")]
    rr.instances += 1
    rr.check(len(incs) == 1 and Tp.term(incs[0]["r"]) == ("int", 1), "push_unchecked:count", "push_unchecked must increment self.count exactly by one", b.span)
    rr.check(len(sets) == 1 and Tp.term(sets[0]["r"]) == val_, "push_unchecked:last_value", "push_unchecked must record self.last_value = value", b.span)
    # From<A>: pre-scan establishes monotonicity and max; builder created with (len, max)
    b = F.one(r"^<dict::elias_fano::EliasFano as std::convert::From<A>>::from$")
    W = []
    panics_on_decrease = False
    for n in walk(b.body):
        if n.get("k") == "If" and diverges(F, n["th"]) and not is_debug_only(F, n):
            c = show(F, n["c"])
            W.append(c)
    txt = " ".join(W)
    rr.instances += 1
    rr.check(re.search(r"<|>", txt) is not None and len(W) >= 1, "From<A>:prescan", "From<A> for EliasFano must reject non-monotone input before push_unchecked (no diverging order test found)", b.span, {"tests": W})
    # the order test covers every consecutive pair: accepted idioms are
    #   (A) for &v in values { if v < prev { panic }; ..; prev = v }   (B) values.windows(2) with w[1] < w[0] => panic
    idiom = None
    for n in walk(b.body):
        if n.get("k") == "Match" and n.get("src") == "ForLoopDesugar":
            it = n["e"]["args"][0] if n["e"].get("k") == "Call" and n["e"].get("args") else n["e"]
            chain = [c[0] for c in method_chain(F, it)]
            body_txt = None
            def _cmp_of(x):
                c_ = x["c"]
                while c_.get("k") == "Unary" and c_.get("op") == "!":
                    c_ = c_["e"]
                while c_.get("k") == "Block" and not c_.get("stmts") and "expr" in c_:
                    c_ = c_["expr"]
                return c_ if c_.get("k") == "Binary" and c_["op"] in ("<", ">", "<=", ">=") else None
            tests = [x for x in walk(n) if x.get("k") == "If" and diverges(F, x["th"]) and not is_debug_only(F, x) and _cmp_of(x) is not None]
            if not tests:
                continue
            if "windows" in chain:
                idiom = "B"
            elif all(c in ("iter", "copied", "cloned", "as_ref", "into_iter") for c in chain):
                # (A): the compared `prev` local is assigned from the loop variable in the same body
                c = _cmp_of(tests[0])
                ids = [x.get("id") for x in (c["l"], c["r"]) if x.get("k") == "Path" and x.get("res") == "local"]
                asg = [x for x in walk(n) if x.get("k") == "Assign" and x["l"].get("k") == "Path" and x["l"].get("id") in ids and x["r"].get("k") == "Path" and x["r"].get("id") in ids]
                if len(ids) == 2 and asg:
                    idiom = "A"
    if idiom is None:
        # (C) `values.windows(2).find/any/position(|p| p[1] < p[0])` whose hit leads to the panic
        for n in walk(b.body):
            if n.get("k") == "MethodCall" and n["name"] in ("find", "any", "position", "all") and n.get("args") and n["args"][0].get("k") == "Closure":
                chain = [c[0] for c in method_chain(F, n["recv"])] + ([n["recv"].get("name")] if n["recv"].get("k") == "MethodCall" else [])
                if "windows" not in chain:
                    continue
                w2 = [x for x in walk(n["recv"]) if x.get("k") == "MethodCall" and x["name"] == "windows" and x.get("args") and str(x["args"][0].get("v")) == "2"]
                cl = n["args"][0]
                cmpn = [x for x in walk(cl["body"]) if x.get("k") == "Binary" and x["op"] in ("<", ">", "<=", ">=")]
                def lit_idx(e):
                    while e.get("k") in ("Unary", "AddrOf"):
                        e = e["e"]
                    return int(e["i"]["v"]) if e.get("k") == "Index" and e["i"].get("k") == "Lit" else None
                adjacent = any({lit_idx(x["l"]), lit_idx(x["r"])} == {0, 1} for x in cmpn)
                if w2 and adjacent:
                    idiom = "C"
    rr.instances += 1
    rr.check(idiom is not None, "From<A>:prescan-all-pairs", "From<A> for EliasFano must compare every consecutive pair of the input (a loop over all elements carrying the previous one, or windows(2)); chunked or strided scans let a descent between chunks through to push_unchecked", b.span)
    news = [n for n in walk(b.body) if callee_is(F, n, "EliasFanoBuilder::new")]
    rr.check(len(news) == 1, "From<A>:builder", "From<A> must create exactly one EliasFanoBuilder::new(len, max)", b.span)


@rule("R03.10", props=["C03", "C04", "C12"], floor=1, title="From<slice> for EliasFano: the upper bound given to the builder covers every value (maximum over all the elements, or the last one)")
def r03_10(ctx, rr):
    F = ctx.F()
    b = F.one(r"^<dict::elias_fano::EliasFano as std::convert::From<A>>::from$")
    news = [n for n in walk(b.body) if callee_is(F, n, "EliasFanoBuilder::new")]
    if len(news) != 1:
        raise AnchorMissing("From<A> for EliasFano: expected one EliasFanoBuilder::new")
    # the bound handed to the builder covers *every* value (push_unchecked does not test it): a maximum accumulated over
    # a loop on all the elements themselves, or the last element / the maximum of the slice
    if len(news) == 1 and len(call_args(news[0])) >= 2:
        ub = call_args(news[0])[-1]
        rr.instances += 1
        PLAIN = ("iter", "copied", "cloned", "as_ref", "into_iter", "enumerate", "by_ref")
        ok_bound = False
        why = "its value could not be traced to all the elements"

        def whole_slice_max(e):
            names = [x["name"] for x in walk(e) if x.get("k") == "MethodCall"]
            return "last" in names or ("max" in names and "iter" in names and not any(m in names for m in ("windows", "chunks", "skip", "take", "step_by", "rev")))
        if whole_slice_max(ub):
            ok_bound = True
        elif ub.get("k") == "Path" and ub.get("res") == "local":
            mid = ub["id"]
            inits = [l for l in walk(b.body) if l.get("k") == "LetStmt" and l["pat"].get("k") == "PBind" and l["pat"]["id"] == mid and "init" in l]
            if inits and whole_slice_max(inits[0]["init"]):
                ok_bound = True
            for pat, it, body in for_loops(b.body):
                chain = [c[0] for c in method_chain(F, it)]
                plain = all(c in PLAIN for c in chain)
                lvars = set(pid for _nm, pid in pat_bindings(pat))
                for a in walk(body):
                    if a.get("k") in ("Assign", "AssignOp") and a["l"].get("k") == "Path" and a["l"].get("id") == mid:
                        uses = set(x.get("id") for x in walk(a["r"]) if x.get("k") == "Path" and x.get("res") == "local")
                        if plain and (uses & lvars):
                            ok_bound = True
                        elif not plain:
                            why = "it is accumulated over `%s`, which does not visit every element as the accumulated value (the last element of a windows(2) scan is never the first of a pair; a singleton has no pair)" % show(F, it)[:50]
        rr.check(ok_bound, "From<A>:bound-covers-every-value", "From<A> for EliasFano creates the builder with the upper bound `%s`, but %s: values above the bound are stored by push_unchecked without a test and become invisible to (or corrupt) the queries" % (show(F, ub)[:40], why), F.loc(news[0]))


def strict_arg(n):
    ga = [g for g in (n.get("ga") or []) if g in ("true", "false")]
    return ga[0] if len(ga) == 1 else None


@rule("R04.1", props=["C04", "C12"], floor=8, title="succ/succ_strict/pred/pred_strict existence guards and strictness flag")
def r04_1(ctx, rr):
    F = ctx.F()
    for fn, callee, strict in ((r"^traits::indexed_dict::Succ::succ$", "SuccUnchecked::succ_unchecked", "false"),
                               (r"^traits::indexed_dict::Succ::succ_strict$", "SuccUnchecked::succ_unchecked", "true"),
                               (r"^traits::indexed_dict::Pred::pred$", "PredUnchecked::pred_unchecked", "false"),
                               (r"^traits::indexed_dict::Pred::pred_strict$", "PredUnchecked::pred_unchecked", "true")):
        S = wrapper_sites(ctx, rr, fn, callee, min_sites=2)
        for s in S[:1]:
            got = strict_arg(s.node)
            rr.instances += 1
            rr.check(got == strict, "%s:STRICT" % short_fn(s.body.key), "%s must call %s::<%s>, found <%s>" % (s.body.key, callee, strict, got), s.loc)
    # the boundary element is read only from a non-empty structure: on an empty one the documented answer is
    # None, not the panic of get()
    for fn in (r"^traits::indexed_dict::Succ::succ$", r"^traits::indexed_dict::Succ::succ_strict$", r"^traits::indexed_dict::Pred::pred$", r"^traits::indexed_dict::Pred::pred_strict$"):
        b = F.one(fn)
        s_ = ("var", "self", b.params[0]["id"])
        gets = []

        def on_get(W, n, K, gets=gets):
            if cname(F, n) == "IndexedSeq::get" and W.debug_depth == 0:
                gets.append((n, K.entails(("b", ("call", "IndexedSeq::is_empty", (s_,)), False)) or K.entails(atom_ne(("call", "IndexedSeq::len", (s_,)), ("int", 0)))))
        Walker(F, b, on_node=on_get).run()
        for n, ok in gets:
            rr.instances += 1
            key = "%s:boundary-read-needs-nonempty" % short_fn(b.key)
            rr.ob(ok, key=key)
            if not ok:
                rr.violate(key, "%s reads the boundary element with `%s` before the structure is known to be non-empty: on an empty dictionary the call panics (index out of bounds) where the documented answer is None" % (b.key, show(F, n)[:60]), F.loc(n))
    # nobody overrides the checked defaults
    for tr in ("traits::indexed_dict::Succ", "traits::indexed_dict::Pred"):
        for im in F.impls:
            if im.get("trait") == tr and not im.get("m") and not re.match(r"^(&|std::boxed::Box<)", im["self"]):
                names = [i["name"] for i in im["items"]]
                rr.instances += 1
                rr.check(not names, "%s-for-%s:no-override" % (tr.split("::")[-1], strip_generics(im.get("adt") or im["self"]).split("::")[-1]),
                         "impl %s for %s overrides %s: checked defaults must not be overridden" % (tr, im["self"], names), F_loc(F, im))


def F_loc(F, im):
    fi, l0, _ = im["s"].split(":")
    return "%s:%s" % (F.files[int(fi)], l0)


@rule("R04.3", props=["C04"], floor=4, title="STRICT selects the strict comparison in succ_unchecked/pred_unchecked")
def r04_3(ctx, rr):
    """Decided per instantiation: the body is analysed once with STRICT = true and once with STRICT = false. Every
    exit that returns an element found by the scan (a pair whose second component is the decoded element `res`) must
    have `value < res` (succ, strict) / `value <= res` (succ) / `res < value` / `res <= value` (pred) established,
    and nothing stronger on the non-strict side (the comparison that decides the exit is the non-strict one)."""
    F = ctx.F()
    for path, kind in ((r"EliasFano<H, L> as traits::indexed_dict::SuccUnchecked>::succ_unchecked$", "succ"), (r"EliasFano<H, L> as traits::indexed_dict::PredUnchecked>::pred_unchecked$", "pred")):
        b = F.one(path)
        vparam = [p for p in b.params if p.get("k") == "PBind" and p["name"] != "self"][0]
        val = ("var", vparam["name"], vparam["id"])
        seen_const = any(x.get("k") == "Path" and x.get("name") == "STRICT" for x in walk(b.body))
        if not seen_const:
            raise AnchorMissing("no use of the const parameter STRICT in %s" % b.key)
        for strict in (True, False):
            exits = []

            def on_node(W, n, K, exits=exits):
                if n.get("k") == "Ret" and "e" in n and n["e"].get("k") == "Tup" and len(n["e"]["es"]) == 2 and W.debug_depth == 0:
                    res = W.T.term(n["e"]["es"][1])
                    exits.append((n, res, K.copy()))
            W = Walker(F, b, on_node=on_node)
            W.T.const_subst = {"STRICT": ("bool", strict)}
            W.run()
            # the exits that return a scanned element: their second component is compared with the value somewhere
            scanned = []
            for n, res, K in exits:
                rel = []
                for a in K.atoms:
                    if a[0] != "le":
                        continue
                    m1, m2 = mentions(a[1], lambda x: x == val), mentions(a[2], lambda x: x == val)
                    if m1 == m2:
                        continue
                    other = a[2] if m1 else a[1]
                    # the other side is (part of) the element returned: the decoded element or its low bits
                    if other == res or (other[0] not in ("int", "def") and mentions(res, lambda x: x == other)):
                        rel.append(a)
                if rel:
                    scanned.append((n, res, K, rel))
            rr.instances += 1
            key = "%s:strict-branch" % short_fn(b.key)
            if not scanned:
                rr.violate(key, "%s (STRICT = %s): no exit returning a scanned element under a comparison with the value was found" % (b.key, strict), b.span)
                continue
            for n, res, K, rel in scanned:
                has_strict = any(K.entails(("le", a[1], a[2], -1)) for a in rel)
                has_loose = True
                ok = has_strict if strict else (has_loose and not has_strict)
                rr.ob(ok, key=key, sample={"fn": b.key, "STRICT": strict, "exit": show(F, n)[:60], "established": K.show()[:4]})
                if not ok:
                    rr.violate(key, "%s: with STRICT = %s the element returned at `%s` must be %s the value (established: %s): the STRICT instantiation must use the strict comparison and the other one the non-strict one" % (
                        b.key, str(strict).lower(), show(F, n)[:60], {("succ", True): "> ", ("succ", False): ">= (and not only >)", ("pred", True): "<", ("pred", False): "<= (and not only <)"}[(kind, strict)], "; ".join(K.show()[:5])), F.loc(n))


@rule("R04.2", props=["C04", "C12"], floor=3, title="Elias-Fano universe guard before selecting a zero of the high bits")
def r04_2(ctx, rr):
    """Every select_zero_unchecked(f(value >> l)) in impl ... for EliasFano must be dominated by an
    upper bound on value: `value <= self.u` (established locally), or, inside succ_unchecked, by the
    caller's contract value <= last element <= u."""
    F = ctx.F()
    for path, need_local in ((r"EliasFano<H, L> as traits::indexed_dict::IndexedDict>::index_of$", True),
                             (r"EliasFano<H, L> as traits::indexed_dict::PredUnchecked>::pred_unchecked$", True),
                             (r"EliasFano<H, L> as traits::indexed_dict::SuccUnchecked>::succ_unchecked$", False)):
        b = F.one(path)
        sites = []

        def on_node(W, n, K):
            if cname(F, n) == "SelectZeroUnchecked::select_zero_unchecked" and W.debug_depth == 0:
                # find the `value` variable: the (borrowed) parameter
                vals = [x for x in subterms(W.T.term(call_args(n)[1])) if x[0] == "var"]
                slf = ("var", "self", b.params[0]["id"])
                ok = any(K.entails(atom_le(v, ("field", slf, "u"))) for v in vals)
                sites.append((n, ok, K.show(), [tshow(v) for v in vals]))
        Walker(F, b, on_node=on_node).run()
        if not sites:
            raise AnchorMissing("no select_zero_unchecked call in %s" % b.key)
        for n, ok, known, vals in sites:
            rr.instances += 1
            key = "%s:universe-guard" % short_fn(b.key)
            if need_local:
                rr.ob(ok, key=key, sample={"fn": b.key, "call": show(F, n), "established": known[:6], "needs": "value <= self.u"})
                if not ok:
                    rr.violate(key, "%s: `%s` is reached without an upper bound `value <= self.u` (values above the universe select a zero that does not exist)" % (b.key, show(F, n)), F.loc(n), {"established": known})
            else:
                rr.ob(True, key=key, nontrivial=False)
                rr.assumed += 1
                rr.assumptions.append("succ_unchecked: value <= last element <= u is the caller's obligation (Succ::succ establishes it, R04.1)")


@rule("R04.5", props=["C04"], floor=1, title="pred of a value above the bound u is the non-strict predecessor of u")
def r04_5(ctx, rr):
    F = ctx.F()
    b = F.one(r"EliasFano<H, L> as traits::indexed_dict::PredUnchecked>::pred_unchecked$")
    slf = ("var", "self", b.params[0]["id"])
    hits = []

    def on_node(W, n, K):
        if cname(F, n) == "PredUnchecked::pred_unchecked" and W.debug_depth == 0:
            args = [W.T.term(a) for a in call_args(n)]
            above = any(a[0] == "le" and a[3] <= -1 and a[1] == ("field", slf, "u") for a in K.atoms)
            hits.append((n, args, above, [g for g in (n.get("ga") or []) if g in ("true", "false", "STRICT")]))
    Walker(F, b, on_node=on_node).run()
    rec = [h for h in hits if h[2]]
    rr.instances += 1
    ok = len(rec) == 1 and rec[0][1][1] == ("field", slf, "u") and rec[0][3] == ["false"]
    rr.check(ok, "EliasFano::pred_unchecked:above-u", "for a value above u, pred_unchecked (strict or not) must answer with the NON-strict predecessor of u (`self.pred_unchecked::<false>(self.u)`): every element is <= u < value; found %s" % [(tshow(h[1][1]), h[3]) for h in rec], b.span)


@rule("R03.5", props=["C03", "C09", "C12"], floor=6, title="iterator start protocol: *_from(from) rejects from > len and touches storage only when from < len")
def r03_5(ctx, rr):
    F = ctx.F()
    C = get_census(ctx)
    targets = [
        (r"^bits::bit_field_vec::BitFieldVectorUncheckedIterator::<'a, W, B>::new$", "vec", "index", "fwd"),
        (r"^bits::bit_field_vec::BitFieldVectorReverseUncheckedIterator::<'a, W, B>::new$", "vec", "index", "rev"),
        (r"^bits::bit_field_vec::BitFieldVecIterator::<'a, W, B>::new$", "vec", "from", "fwd"),
        (r"^traits::bit_field_slice::BitFieldSliceIterator::<'a, \w+, B>::new$", "slice", "from", "fwd"),
        (r"^dict::elias_fano::EliasFanoIterator::<'a, H, L>::new_from$", "ef", "start_index", "fwd"),
        (r"^dict::rear_coded_list::Lend::<'a, D, P>::new_from$", "rca", "from", "fwd"),
    ]
    for path, recv_name, idx_name, direction in targets:
        b = F.one(path)
        params = {p.get("name"): p for p in b.params if p.get("k") == "PBind"}
        if len(b.params) < 2:
            raise AnchorMissing("%s: expected (structure, start) parameters" % b.key)
        recv_p, idx_p = b.params[0], b.params[1]
        recv = ("var", recv_p["name"], recv_p["id"])
        idx = ("var", idx_p["name"], idx_p["id"])
        lens = len_candidates(recv) + [("call", "EliasFano::len", (recv,)), ("call", "RearCodedList::len", (recv,))]
        touched = []

        def storage_access(n):
            k = n.get("k")
            if n.get("cu") and cname(F, n) not in ("UncheckedIterator::next_unchecked",):
                m = F.mac(n)
                return not ("format" in m or "panic" in m)
            if k == "Index" and F.ty(n["i"]) in INT_TYPES:
                return True
            return False

        def on_node(W, n, K):
            if W.debug_depth:
                return
            if storage_access(n):
                if direction == "fwd":
                    ok = any(K.entails(atom_le(idx, L, True)) for L in lens)
                else:
                    ok = K.entails(atom_le(("int", 1), idx)) and any(K.entails(atom_le(idx, L)) for L in lens)
                touched.append((n, ok, K.show()))
        W = Walker(F, b, on_node=on_node)
        W.run()
        rr.instances += 1
        for n, ok, known in touched:
            key = "%s:start<len" % short_fn(b.key)
            rr.ob(ok, key=key, sample={"fn": b.key, "access": show(F, n)[:120], "established": known[:6]})
            if not ok:
                rr.violate(key, "%s: storage access `%s` is reachable with a start position that is not %s (established: %s)" % (
                    b.key, show(F, n)[:120], "< len" if direction == "fwd" else "in 1..=len", "; ".join(known[:6]) or "nothing"), F.loc(n), {"established": known})
        if not touched:
            rr.ob(True, key="%s:no-storage" % short_fn(b.key), nontrivial=False)
    # reject from > len by panic: for the constructors with a public checked entry
    for path, idx_i in ((r"^bits::bit_field_vec::BitFieldVecIterator::<'a, W, B>::new$", 1),
                        (r"^dict::elias_fano::EliasFanoIterator::<'a, H, L>::new_from$", 1),
                        (r"^traits::bit_field_slice::BitFieldSliceIterator::<'a, \w+, B>::new$", 1)):
        b = F.one(path)
        ok = False
        idx_t = ("var", b.params[idx_i]["name"], b.params[idx_i]["id"])
        # some panic exit is taken exactly with `len < start` established (whatever the syntax of the guard:
        # `if start > len { panic!() }`, `assert!(start <= len)`, a match ...)
        for n, K, W in rejecting_exits(F, b, lambda W, n: is_panic_call(F, n)):
            for a in K.atoms:
                if a[0] == "le" and a[3] <= -1 and a[2] == idx_t and ((a[1][0] == "call" and (a[1][1] == "len" or a[1][1].endswith("::len"))) or (a[1][0] == "field" and a[1][2] in ("len", "n"))):
                    ok = True
        rr.instances += 1
        rr.check(ok, "%s:rejects-above-len" % short_fn(b.key), "%s must panic when the start position exceeds the length" % b.key, b.span)


@rule("R05.1", props=["C05", "C12", "C13"], floor=9, title="BitFieldVec/BitFieldSlice checked accessors validate index and value before *_unchecked")
def r05_1(ctx, rr):
    F = ctx.F()
    specs = [
        (r"^traits::bit_field_slice::BitFieldSlice::get$", "BitFieldSlice::get_unchecked", None),
        (r"^traits::bit_field_slice::BitFieldSliceMut::set$", "BitFieldSliceMut::set_unchecked", 2),
        (r"^traits::bit_field_slice::AtomicBitFieldSlice::get_atomic$", "AtomicBitFieldSlice::get_atomic_unchecked", None),
        (r"^traits::bit_field_slice::AtomicBitFieldSlice::set_atomic$", "AtomicBitFieldSlice::set_atomic_unchecked", 2),
        (r"^<bits::bit_field_vec::BitFieldVec<W, B> as traits::bit_field_slice::BitFieldSliceMut<W>>::set$", "BitFieldSliceMut::set_unchecked", 2),
        (r"^<bits::bit_field_vec::AtomicBitFieldVec<W, T> as traits::bit_field_slice::AtomicBitFieldSlice<W>>::set_atomic$", "AtomicBitFieldSlice::set_atomic_unchecked", 2),
        (r"^bits::bit_field_vec::BitFieldVec::<W, B>::get_unaligned$", "BitFieldVec::get_unaligned_unchecked", None),
        (r"^traits::indexed_dict::IndexedSeq::get$", "IndexedSeq::get_unchecked", None),
        (r"^<traits::bit_field_slice::BitFieldSliceIterator<'_, \w+, B> as std::iter::Iterator>::next$", "BitFieldSlice::get_unchecked", None),
    ]
    # the atomic setters are also C13's entry points (a writer that cannot store a legal value, or stores an
    # unvalidated one, breaks "every written element holds the value its writer stored")
    def scope(fn):
        return ["C05", "C12", "C13"] if "set_atomic" in fn else ["C05", "C12"]
    for fn, callee, val_arg in specs:
        wrapper_sites(ctx, rr, fn, callee, props=scope(fn))
    # value validation: `value & mask == value` dominates the unchecked store, and mask is the structure's mask
    val_specs = [
        (r"^traits::bit_field_slice::BitFieldSliceMut::set$", "BitFieldSliceMut::set_unchecked", 2),
        (r"^traits::bit_field_slice::AtomicBitFieldSlice::set_atomic$", "AtomicBitFieldSlice::set_atomic_unchecked", 2),
        (r"^<bits::bit_field_vec::BitFieldVec<W, B> as traits::bit_field_slice::BitFieldSliceMut<W>>::set$", "BitFieldSliceMut::set_unchecked", 2),
        (r"^<bits::bit_field_vec::AtomicBitFieldVec<W, T> as traits::bit_field_slice::AtomicBitFieldSlice<W>>::set_atomic$", "AtomicBitFieldSlice::set_atomic_unchecked", 2),
        (r"^bits::bit_field_vec::BitFieldVec::<W>::push$", "BitFieldSliceMut::set_unchecked", 2),
        (r"^bits::bit_field_vec::BitFieldVec::<W>::resize$", "BitFieldSliceMut::set_unchecked", 2),
    ]
    for fn, callee, vi in val_specs:
        b = F.one(fn)
        sites = []

        def on_node(W, n, K, b=b):
            if cname(F, n) == callee and W.debug_depth == 0:
                v = W.T.term(call_args(n)[vi])
                ok, how = value_fits(W, K, v, b)
                sites.append((n, ok, how, K.show()))
        Walker(F, b, on_node=on_node).run()
        if not sites:
            raise AnchorMissing("no %s call in %s" % (callee, b.key))
        for n, ok, how, known in sites:
            rr.instances += 1
            key = "%s:value-fits" % short_fn(b.key)
            rr.ob(ok, key=key, sample={"fn": b.key, "call": show(F, n), "established": known[:6], "mask": how})
            if not ok:
                rr.violate(key, "%s: `%s` is reachable with a value that was not validated against the bit-width mask (`value & mask == value`); %s" % (b.key, show(F, n), how), F.loc(n), {"established": known}, props=scope(fn))


def value_fits(W, K, v, b):
    """Looks for facts `(m & v) == v` (as two <= atoms) where m is the structure's mask:
    field `mask` of self, or `if bit_width == 0 {0} else {MAX >> (BITS - bit_width)}`."""
    F = W.F
    for a in K.atoms:
        if a[0] != "le" or a[3] != 0:
            continue
        A, B = a[1], a[2]
        if B == v and A[0] == "op" and A[1] == "&" and v in (A[2], A[3]):
            other = A[3] if A[2] == v else A[2]
            # the reverse atom must be present too (equality)
            if ("le", B, A, 0) in K.atoms or K.entails(("le", B, A, 0)):
                good, how = mask_term_ok(F, other, b)
                if good:
                    return True, how
                return False, "the mask used for validation is `%s`, not the structure's mask" % tshow(other)
    # `value <= mask` is the same test for a low mask
    for a in K.atoms:
        if a[0] == "le" and a[3] == 0 and a[1] == v:
            good, how = mask_term_ok(F, a[2], b)
            if good:
                return True, "value <= " + how
    return False, "no `value & mask == value` fact"


def simple_env(F, b):
    """Termizer whose environment holds every immutable `let x = e` of the body (in order)."""
    T = Termizer(F, b)
    for n in walk(b.body):
        if n.get("k") == "LetStmt" and "init" in n and n["pat"].get("k") == "PBind" and not n["pat"].get("mut"):
            T.env[n["pat"]["id"]] = T.term(n["init"])
    return T


def is_width_mask(F, T, n):
    """n is `if w == 0 { 0 } else { MAX >> (BITS - w) }` for some width term w; returns w or None."""
    if n.get("k") != "If" or "el" not in n:
        return None
    c = T.term(n["c"])
    if not (c[0] == "op" and c[1] == "==" and ("int", 0) in (c[2], c[3])):
        return None
    w = c[3] if c[2] == ("int", 0) else c[2]
    th = T.term(n["th"])
    el = T.term(n["el"])
    if not (th == ("int", 0) or (th[0] == "def" and th[1].endswith("ZERO"))):
        return None
    if not (el[0] == "op" and el[1] == ">>" and el[2][0] == "def" and el[2][1].endswith("MAX")):
        return None
    sh = el[3]
    if not (sh[0] == "op" and sh[1] == "-" and sh[2][0] == "def" and sh[2][1].endswith("BITS") and sh[3] == w):
        return None
    return w


def width_mask_of(m):
    """m == (if w == 0 {0} else {MAX >> (BITS - w)}) -> w, else None."""
    if m[0] != "ite":
        return None
    c, th, el = m[1], m[2], m[3]
    if not (c[0] == "op" and c[1] == "==" and ("int", 0) in (c[2], c[3])):
        return None
    w = c[3] if c[2] == ("int", 0) else c[2]
    if not (th == ("int", 0) or (th[0] == "def" and th[1].endswith("ZERO"))):
        return None
    if not (el[0] == "op" and el[1] == ">>" and el[2][0] == "def" and el[2][1].endswith("MAX")):
        return None
    sh = el[3]
    if not (sh[0] == "op" and sh[1] == "-" and sh[2][0] == "def" and sh[2][1].endswith("BITS") and sh[3] == w):
        return None
    return w


def mask_term_ok(F, m, b):
    if m[0] == "field" and m[2] == "mask":
        return True, "self.mask"
    w = width_mask_of(m)
    if w is not None:
        if w == ("call", "BitFieldSliceCore::bit_width", (("var", "self", b.params[0]["id"]),)) or (w[0] == "field" and w[2] == "bit_width"):
            return True, "if w == 0 {0} else {MAX >> (BITS - w)} with w = %s" % tshow(w)
        return False, "validation mask is built from `%s`, not from the structure's bit width" % tshow(w)
    return False, "validation mask `%s` is neither self.mask nor `if w == 0 {0} else {MAX >> (BITS - w)}`" % tshow(m)[:200]


@rule("R06.2", props=["C06", "C12", "C14"], floor=6, title="BitVec iterators index the backend only below its length and yield only positions < len")
def r06_2(ctx, rr):
    F = ctx.F()
    for fn in (r"^bits::bit_vec::OnesIterator::<'a, B>::new$", r"^bits::bit_vec::ZerosIterator::<'a, B>::new$",
               r"^<bits::bit_vec::OnesIterator<'_, B> as std::iter::Iterator>::next$", r"^<bits::bit_vec::ZerosIterator<'_, B> as std::iter::Iterator>::next$",
               r"^dict::elias_fano::EliasFanoIterator::<'a, H, L>::new$"):
        # a constructor may also take its first word through a checked API (`first()`): then there is nothing to discharge
        wrapper_sites(ctx, rr, fn, "slice::get_unchecked", min_sites=0 if fn.endswith("::new$") else 1, checked_alt="slice::get")
    for fn in (r"^bits::bit_vec::BitVec::<B>::get$", r"^bits::bit_vec::AtomicBitVec::<B>::get$"):
        wrapper_sites(ctx, rr, fn, fn.split("::")[2].split("<")[0].replace("\\", "") + "::get_unchecked")
    wrapper_sites(ctx, rr, r"^bits::bit_vec::BitVec::<B>::set$", "BitVec::set_unchecked")
    wrapper_sites(ctx, rr, r"^bits::bit_vec::AtomicBitVec::<B>::set$", "AtomicBitVec::set_unchecked")
    wrapper_sites(ctx, rr, r"^bits::bit_vec::AtomicBitVec::<B>::swap$", "AtomicBitVec::swap_unchecked")
    # positions returned by the ones/zeros iterators are < len: every `Some(res)` is under res < self.len
    for fn in (r"^<bits::bit_vec::OnesIterator<'_, B> as std::iter::Iterator>::next$", r"^<bits::bit_vec::ZerosIterator<'_, B> as std::iter::Iterator>::next$"):
        b = F.one(fn)
        slf = ("var", "self", b.params[0]["id"])
        found = []

        def on_node(W, n, K):
            if n.get("k") == "Call" and n.get("ctor") and show(F, n).startswith("v1::Some("):
                t = W.T.term(n["args"][0])
                found.append((n, K.entails(atom_le(t, ("field", slf, "len"), True)), K.show()))
        Walker(F, b, on_node=on_node).run()
        if not found:
            raise AnchorMissing("no Some(..) exit in %s" % b.key)
        for n, ok, known in found:
            rr.instances += 1
            rr.check(ok, "%s:pos<len" % short_fn(b.key), "%s returns `%s` without `pos < self.len` established" % (b.key, show(F, n)), F.loc(n), {"established": known})
    # BitIterator / AtomicBitIterator stop at len
    for fn in (r"^<bits::bit_vec::BitIterator<'_, B> as std::iter::Iterator>::next$", r"^<bits::bit_vec::AtomicBitIterator<'_, B> as std::iter::Iterator>::next$"):
        b = F.one(fn)
        slf = ("var", "self", b.params[0]["id"])
        found = []

        def on_node(W, n, K):
            if cname(F, n) == "slice::get_unchecked" and W.debug_depth == 0:
                ok = K.entails(atom_ne(("field", slf, "next_bit_pos"), ("field", slf, "len"))) or K.entails(atom_le(("field", slf, "next_bit_pos"), ("field", slf, "len"), True))
                found.append((n, ok, K.show()))
        Walker(F, b, on_node=on_node).run()
        if not found:
            raise AnchorMissing("no backend access in %s" % b.key)
        for n, ok, known in found:
            rr.instances += 1
            rr.check(ok, "%s:stops-at-len" % short_fn(b.key), "%s reads the backend without `next_bit_pos != len` established" % b.key, F.loc(n), {"established": known})


# an unchecked accessor reached without its precondition is also the behavioural property of its family that fails
# (an out-of-order push accepted, a value stored unmasked, a rank past the end ...)
CALLEE_FAMILY = [
    ("EliasFanoBuilder::push_unchecked", ["C03"]), ("EliasFanoConcurrentBuilder::set", ["C03", "C13"]),
    ("IndexedSeq::get_unchecked", ["C03"]),
    ("SuccUnchecked::succ_unchecked", ["C04"]), ("PredUnchecked::pred_unchecked", ["C04"]),
    ("RankUnchecked::rank_unchecked", ["C01"]), ("RankZeroUnchecked::rank_zero_unchecked", ["C01"]), ("RankHinted::rank_hinted", ["C01"]),
    ("SelectUnchecked::select_unchecked", ["C02"]), ("SelectZeroUnchecked::select_zero_unchecked", ["C02"]),
    ("SelectHinted::select_hinted", ["C02"]), ("SelectZeroHinted::select_zero_hinted", ["C02"]),
    ("BitFieldSlice::get_unchecked", ["C05"]), ("BitFieldSliceMut::set_unchecked", ["C05"]),
    ("AtomicBitFieldSlice::get_atomic_unchecked", ["C05", "C13"]), ("AtomicBitFieldSlice::set_atomic_unchecked", ["C05", "C13"]),
    ("BitVec::get_unchecked", ["C06"]), ("BitVec::set_unchecked", ["C06"]),
    ("AtomicBitVec::get_unchecked", ["C06", "C13"]), ("AtomicBitVec::set_unchecked", ["C06", "C13"]), ("AtomicBitVec::swap_unchecked", ["C06", "C13"]),
]


@rule("R12.1", props=["C12", "C01", "C02", "C03", "C04", "C05", "C06", "C13"], floor=150, title="unsafe-site census: every unsafe call in a safe function is discharged or rests on a tabled invariant")
def r12_1(ctx, rr):
    F = ctx.F()
    S = [s for s in get_census(ctx) if not s.debug_only]
    table = load_table("assumed_sites.json")["entries"]
    allowed = {}
    for e in table:
        allowed[(canon_generics(e["fn"]), e["callee"], e["obligation"])] = e
    groups = {}
    for s in S:
        rr.instances += 1
        if s.ok:
            rr.ob(True, key="%s:%s:%s" % (short_fn(s.body.key), s.cname, s.descr), sample=site_sample(F, s))
        else:
            groups.setdefault((s.body.key, s.cname, s.descr), []).append(s)
    # entries of functions that no longer exist under that name (renamed, or folded into their callers): their
    # sites may reappear elsewhere; each such entry can be claimed once by a group with the same callee and obligation
    present = set(canon_generics(b_.key) for b_ in F.fns()) | set(canon_generics(b_.path) for b_ in F.fns())
    vanished = {}
    for e_ in table:
        if canon_generics(e_["fn"]) not in present:
            vanished.setdefault((e_["callee"], e_["obligation"]), []).append(e_)
    for k, sites in sorted(groups.items()):
        # table entries name functions as printed on the tree they were confirmed on; compare without the
        # names of generic type parameters
        e = allowed.get((canon_generics(k[0]), k[1], k[2]))
        if e is None and vanished.get((k[1], k[2])):
            cand = [x for x in vanished[(k[1], k[2])] if x["count"] >= len(sites)]
            if cand:
                e = cand[0]
                vanished[(k[1], k[2])].remove(e)
        n_allowed = e["count"] if e else 0
        key = "%s:%s:%s" % (short_fn(k[0]), k[1].split("::")[-1], k[2])
        if len(sites) <= n_allowed:
            for s in sites:
                rr.ob(True, key=key, nontrivial=False)
                rr.assumed += 1
            rr.assumptions.append("%s -> %s: %s" % (short_fn(k[0]), k[1], e["reason"]))
        else:
            for s in sites[: max(0, n_allowed)]:
                rr.ob(True, key=key, nontrivial=False)
                rr.assumed += 1
            for s in sites[n_allowed:] if n_allowed == 0 else sites:
                rr.ob(False, key=key, sample=site_sample(F, s))
            s = sites[-1]
            rr.violate(key, "%s: %d unsafe call(s) `%s` whose obligation `%s` is neither established on every path nor covered by a tabled construction invariant (table allows %d); sites: %s" % (
                k[0], len(sites), k[1], goal_show(s.goal), n_allowed, ", ".join("%s `%s`" % (x.loc, x.args_show[:80]) for x in sites)),
                s.loc, {"required": goal_show(s.goal), "established": s.known[:12], "sites": [x.loc for x in sites]},
                props=["C12"] + [p_ for cal, ps_ in CALLEE_FAMILY if cal == k[1] for p_ in ps_])


@rule("R12.2", props=["C12"], floor=60, title="functions with an unchecked precondition are `unsafe fn`")
def r12_2(ctx, rr):
    F = ctx.F()
    for b in F.fns():
        if is_derived(b):
            continue
        nm = b.name
        if nm.endswith("_unchecked") or nm in ("from_raw_parts", "map_high_bits", "select_hinted", "select_zero_hinted", "rank_hinted", "add_ptr"):
            rr.instances += 1
            rr.check(b.unsafe, "%s:unsafe-fn" % short_fn(b.key), "%s has an unchecked precondition by name/contract but is not an `unsafe fn`: safe callers could reach out-of-bounds accesses" % b.key, b.span)


# ---------------------------------------------------------------------------------------------
# exactness: a checked wrapper rejects (panics / returns None / takes the clamped exit) only when the
# argument really is outside the domain -- a guard that is too strong changes documented answers.

def rejecting_exits(F, b, is_exit):
    out = []

    def on_node(W, n, K):
        if W.debug_depth:
            return
        if is_exit(W, n):
            out.append((n, K.copy(), W))
    Walker(F, b, on_node=on_node).run()
    return out


def is_none_ctor(F, n):
    return n.get("k") == "Path" and n.get("res") == "def" and n.get("name") == "None" and "Ctor" in n.get("dk", "")


@rule("R12.4", props=["C01", "C02", "C03", "C04", "C05", "C06", "C12"], floor=14, title="checked wrappers reject exactly the out-of-domain arguments (no over-strong guard)")
def r12_4(ctx, rr):
    F = ctx.F()

    def run(path, exit_kind, reasons_fn, min_exits=1):
        b = F.one(path)
        P = {p["name"]: ("var", p["name"], p["id"]) for p in b.params if p.get("k") == "PBind"}
        # parameters by position (`self` apart): the rules below never rely on what a parameter is called
        k_ = 0
        for p in b.params:
            if p.get("k") == "PBind" and p["name"] != "self":
                k_ += 1
                P["#%d" % k_] = ("var", p["name"], p["id"])
        reasons = reasons_fn(P)

        def is_exit(W, n):
            if exit_kind == "panic":
                return is_panic_call(F, n)
            if exit_kind == "none":
                return is_none_ctor(F, n)
            if exit_kind.startswith("call:"):
                return cname(F, n) == exit_kind[5:]
            return False
        exits = rejecting_exits(F, b, is_exit)
        if len(exits) < min_exits:
            # reported at the function, so that it is attributed to the properties anchored in its file only
            rr.violate("%s:rejecting-exit-missing" % short_fn(b.key), "reason=anchor-missing: %s: expected at least %d rejecting exit(s) of kind %s, found %d (the guard that turns out-of-domain arguments away is gone)" % (b.key, min_exits, exit_kind, len(exits)), b.span)
            return
        for n, K, W in exits:
            rr.instances += 1
            ok = any(goal_holds(K, g) for g in reasons)
            if not ok and K.ors:
                ok = all(any(goal_holds(Kc, g) for g in reasons) for Kc in K.cases())
            key = "%s:rejects-only-out-of-domain" % short_fn(b.key)
            rr.ob(ok, key=key, sample={"fn": b.key, "exit": show(F, n)[:80], "established": K.show()[:5], "admissible_reasons": [goal_show(g) for g in reasons]})
            if not ok:
                rr.violate(key, "%s rejects its argument at `%s` although none of the documented out-of-domain conditions (%s) is established there (established: %s): the guard is stronger than the domain" % (
                    b.key, show(F, n)[:80], "; ".join(goal_show(g) for g in reasons), "; ".join(K.show()[:6]) or "nothing"), F.loc(n))

    def lens(r):
        return len_candidates(r)

    run(r"^traits::rank_sel::Rank::rank$", "call:NumBits::num_ones", lambda P: [("any", [atom_le(L, P["#1"]) for L in lens(P["self"])])])
    run(r"^traits::rank_sel::Select::select$", "none", lambda P: [atom_le(("call", "NumBits::num_ones", (P["self"],)), P["#1"])])
    run(r"^traits::rank_sel::SelectZero::select_zero$", "none", lambda P: [atom_le(("call", "NumBits::num_zeros", (P["self"],)), P["#1"])])
    run(r"^traits::indexed_dict::IndexedSeq::get$", "panic", lambda P: [("any", [atom_le(L, P["#1"]) for L in lens(P["self"])])])
    run(r"^traits::bit_field_slice::BitFieldSlice::get$", "panic", lambda P: [("any", [atom_le(L, P["#1"]) for L in lens(P["self"])])])
    run(r"^traits::bit_field_slice::AtomicBitFieldSlice::get_atomic$", "panic", lambda P: [("any", [atom_le(L, P["#1"]) for L in lens(P["self"])])])
    for path in (r"^bits::bit_vec::BitVec::<B>::get$", r"^bits::bit_vec::BitVec::<B>::set$", r"^bits::bit_vec::AtomicBitVec::<B>::get$", r"^bits::bit_vec::AtomicBitVec::<B>::set$", r"^bits::bit_vec::AtomicBitVec::<B>::swap$"):
        run(path, "panic", lambda P: [("any", [atom_le(L, P["#1"]) for L in lens(P["self"])])])

    # iterator constructors: a start position is rejected only when it lies beyond the end (`from == len` is the
    # legitimate empty suffix and must yield an exhausted iterator)
    for path in (r"^bits::bit_field_vec::BitFieldVectorUncheckedIterator::<'a, W, B>::new$",
                 r"^bits::bit_field_vec::BitFieldVectorReverseUncheckedIterator::<'a, W, B>::new$",
                 r"^bits::bit_field_vec::BitFieldVecIterator::<'a, W, B>::new$",
                 r"^traits::bit_field_slice::BitFieldSliceIterator::<'a, \w+, B>::new$",
                 r"^dict::elias_fano::EliasFanoIterator::<'a, H, L>::new_from$"):
        run(path, "panic", lambda P: [("len-below", P["#1"], P["#2"])])

    def set_reasons(P):
        out = [("any", [atom_le(L, P["#1"]) for L in lens(P["self"])])]
        out.append(("valuefit", P["#2"]))
        return out
    for path in (r"^traits::bit_field_slice::BitFieldSliceMut::set$", r"^traits::bit_field_slice::AtomicBitFieldSlice::set_atomic$",
                 r"^<bits::bit_field_vec::BitFieldVec<W, B> as traits::bit_field_slice::BitFieldSliceMut<W>>::set$",
                 r"^<bits::bit_field_vec::AtomicBitFieldVec<W, T> as traits::bit_field_slice::AtomicBitFieldSlice<W>>::set_atomic$"):
        run(path, "panic", set_reasons, min_exits=1)
    run(r"^bits::bit_field_vec::BitFieldVec::<W>::push$", "panic", lambda P: [("valuefit", P["#1"])])
    run(r"^bits::bit_field_vec::BitFieldVec::<W>::resize$", "panic", lambda P: [("valuefit", P["#2"])])
    run(r"^dict::elias_fano::EliasFanoBuilder::push$", "panic", lambda P: [
        atom_le(("field", P["self"], "n"), ("field", P["self"], "count")),
        atom_le(("field", P["self"], "u"), P["#1"], True),
        atom_le(P["#1"], ("field", P["self"], "last_value"), True)], min_exits=1)
    # from_slice: rejects only sources that really do not fit the word
    fs = F.one(r"^bits::bit_field_vec::BitFieldVec::<W>::from_slice$")
    errs = []

    widths = []

    def on_fs(W, n, K):
        if n.get("k") == "Ret" and "e" in n and W.debug_depth == 0 and show(F, n["e"]).startswith("v1::Err("):
            errs.append((n, K.copy(), [(a, W.expand(a[2])) for a in K.atoms if a[0] == "le"]))
        # the width the result is created with
        if n.get("k") == "Call" and (F.callee(n) or "").startswith("bits::bit_field_vec::BitFieldVec") and strip_generics(F.callee(n)).split("::")[-1] in ("new", "new_unaligned", "with_capacity") and n.get("args"):
            widths.append(W.expand(W.T.term(n["args"][0])))
    Walker(F, fs, on_node=on_fs).run()
    if not errs:
        raise AnchorMissing("from_slice: no `return Err(..)`")
    for n, K, les in errs:
        rr.instances += 1
        # `W::BITS < w` with w the width the values need -- the very quantity the result vector is then created with
        # (the declared width of the source may be larger than what its values need)
        ok = any(a[3] <= -1 and a[1][0] == "def" and a[1][1].endswith("BITS") and a[2][0] not in ("int", "def") and (not widths or rhs in widths) for a, rhs in les)
        rr.ob(ok, key="BitFieldVec::from_slice:rejects-only-too-wide", sample={"established": K.show()[:4]})
        if not ok:
            rr.violate("BitFieldVec::from_slice:rejects-only-too-wide", "from_slice refuses its input at `%s` although `W::BITS < needed width` is not established for the width the result is created with (established: %s): a source whose values fit -- the largest needing up to exactly W::BITS bits, whatever the declared width of the source -- must be accepted" % (show(F, n)[:60], "; ".join(K.show()[:4])), F.loc(n))

    def index_of_reasons(P):
        val = None
        for name, t in P.items():
            if name == "value":
                val = t
        return [("some-var-above", "u"), ("scan-exhausted", None), ("scanned-past", None)]
    run(r"^<dict::elias_fano::EliasFano<H, L> as traits::indexed_dict::IndexedDict>::index_of$", "none", index_of_reasons, min_exits=3)
    # Succ / Pred: None is returned only when the structure is empty or the value lies beyond the boundary
    # element (whatever the shape of the tests: one `||`, two early returns, ...)
    for path, op_strict, last in ((r"^traits::indexed_dict::Succ::succ$", True, True), (r"^traits::indexed_dict::Succ::succ_strict$", False, True),
                                  (r"^traits::indexed_dict::Pred::pred$", True, False), (r"^traits::indexed_dict::Pred::pred_strict$", False, False)):
        def sp_reasons(P, op_strict=op_strict, last=last):
            s_, v_ = P["self"], P["#1"]
            if last:
                bound = ("call", "IndexedSeq::get", (s_, mk_op("-", ("call", "IndexedSeq::len", (s_,)), ("int", 1))))
                dom = atom_le(bound, v_, op_strict)
            else:
                bound = ("call", "IndexedSeq::get", (s_, ("int", 0)))
                dom = atom_le(v_, bound, op_strict)
            return [("b", ("call", "IndexedSeq::is_empty", (s_,)), True), dom]
        run(path, "none", sp_reasons, min_exits=1)


_old_goal_holds = goal_holds


def goal_holds(K, goal):  # noqa: F811
    if goal[0] == "len-below":
        # some length of the receiver (field len/n or any `..::len(receiver)`) is established to be < the index
        r, idx = goal[1], goal[2]
        for a in K.atoms:
            if a[0] == "le" and a[3] <= -1 and a[2] == idx:
                A = a[1]
                if (A[0] == "call" and (A[1] == "len" or A[1].endswith("::len")) and A[2] == (r,)) or (A[0] == "field" and A[1] == r and A[2] in ("len", "n")):
                    return True
        return False
    if goal[0] == "valuefit":
        v = goal[1]
        for a in K.atoms:
            if a[0] == "ne" and ((a[1][0] == "op" and a[1][1] == "&" and v in (a[1][2], a[1][3]) and a[2] == v) or (a[2][0] == "op" and a[2][1] == "&" and v in (a[2][2], a[2][3]) and a[1] == v)) and a[3] == 0:
                return True
            # `mask < value` is the same condition for a low mask
            if a[0] == "le" and a[3] <= -1 and a[2] == v and ((a[1][0] == "field" and a[1][2] == "mask") or width_mask_of(a[1]) is not None):
                return True
        return False
    if goal[0] == "some-var-above":
        # `self.<field> < x` for the (borrowed copy of the) queried value x
        for a in K.atoms:
            if a[0] == "le" and a[3] <= -1 and a[1][0] == "field" and a[1][2] == goal[1] and a[2][0] in ("var",):
                return True
        return False
    if goal[0] == "scan-exhausted":
        for a in K.atoms:
            if a[0] == "le" and a[1][0] == "call" and a[1][1] == "len" and mentions(a[2], lambda x: x[0] == "var"):
                return True
        return False
    if goal[0] == "scanned-past":
        # value < decoded element: some atom `x < (high << l | low)`
        for a in K.atoms:
            if a[0] == "le" and a[3] <= -1 and a[1][0] == "var" and mentions(a[2], lambda x: x[0] == "op" and x[1] == "|"):
                return True
        return False
    return _old_goal_holds(K, goal)


_old_goal_show = goal_show


def goal_show(goal):  # noqa: F811
    if goal[0] == "valuefit":
        return "value & mask != value"
    if goal[0] == "some-var-above":
        return "self.%s < value" % goal[1]
    if goal[0] == "scan-exhausted":
        return "word index >= number of words of the high bits"
    if goal[0] == "scanned-past":
        return "value < decoded element"
    if goal[0] == "len-below":
        return "len(%s) < %s" % (tshow(goal[1]), tshow(goal[2]))
    return _old_goal_show(goal)


@rule("R04.4", props=["C04"], floor=2, title="Elias-Fano scans: stepping one word of the high bits is paired with accumulating BITS positions (pred) / advancing the word cursor (succ, index_of)")
def r04_4(ctx, rr):
    F = ctx.F()
    b = F.one(r"EliasFano<H, L> as traits::indexed_dict::PredUnchecked>::pred_unchecked$")
    loops = [n for n in walk(b.body) if n.get("k") == "Loop" and n.get("src") == "While"]
    ok = False
    found = []
    pm = {id(n): ps for n, ps in walk_with_parents(b.body)}
    for lp in loops:
        ups = [(x["op"], show(F, x["l"]), show(F, x["r"])) for x in walk(lp["body"]) if x.get("k") == "AssignOp"]
        asg = [(show(F, x["l"]), show(F, x["r"])) for x in walk(lp["body"]) if x.get("k") == "Assign" and x["l"].get("k") == "Path"]
        steps_back = [u for u in ups if u[0] == "-=" and u[2] == "1"]
        if steps_back:
            found.append((ups, asg))
            acc = [u for u in ups if u[0] == "+=" and "BITS" in u[2]]
            # no plain (non-accumulating) assignment to the accumulated variable inside the loop
            plain = [a for a in asg if acc and a[0] == acc[0][1]]
            if len(steps_back) == 1 and len(acc) == 1 and not plain:
                ok = True
            # no accumulator at all: the position is computed after the scan from the stepped word index itself
            # (`word_idx * BITS + index of the highest bit of the window`), which needs no bookkeeping in the loop
            if len(steps_back) == 1 and not acc and len(ups) == 1:
                sb = [x for x in walk(lp["body"]) if x.get("k") == "AssignOp" and x["op"] == "-="][0]
                vid = sb["l"].get("id") if sb["l"].get("k") == "Path" else None
                blk = [p for p in pm[id(lp)] if p.get("k") == "Block"]
                after = False
                for st in (blk[-1]["stmts"] + ([blk[-1]["expr"]] if "expr" in blk[-1] else [])) if blk else []:
                    if any(x is lp for x in walk(st)):
                        after = True
                        continue
                    if after and vid is not None:
                        for x in walk(st):
                            if x.get("k") == "Binary" and x["op"] in ("*", "<<"):
                                sides = [x["l"], x["r"]]
                                def strip(e):
                                    while e.get("k") in ("Cast", "Paren"):
                                        e = e["e"]
                                    return e
                                if any(strip(y).get("k") == "Path" and strip(y).get("id") == vid for y in sides) and (x["op"] == "<<" or any("BITS" in show(F, y) or show(F, y) in ("64",) for y in sides)):
                                    ok = True
    rr.instances += 1
    rr.check(ok, "EliasFano::pred_unchecked:backward-scan-accumulates", "in the backward scan of pred_unchecked every step to the previous word (`word_idx -= 1`) must add BITS to the number of skipped positions (`zeros += BITS`): an assignment instead of an accumulation is right for one empty word only; found %s" % found[:2], b.span)
    # forward scans: the word cursor advances by one per refill of the window
    for path in (r"EliasFano<H, L> as traits::indexed_dict::SuccUnchecked>::succ_unchecked$", r"EliasFano<H, L> as traits::indexed_dict::IndexedDict>::index_of$"):
        fb = F.one(path)
        okf = False
        for lp in [n for n in walk(fb.body) if n.get("k") == "Loop" and n.get("src") == "While"]:
            incs = [x for x in walk(lp["body"]) if x.get("k") == "AssignOp" and x["op"] == "+=" and x["l"].get("k") == "Path" and x["r"].get("v") == "1"]
            refills = [x for x in walk(lp["body"]) if x.get("k") == "Assign" and x["l"].get("k") == "Path"]
            for inc in incs:
                cid = inc["l"]["id"]
                if any(any(y.get("k") == "Path" and y.get("id") == cid for y in walk(r["r"])) and any(y.get("k") == "MethodCall" and y["name"] == "get_unchecked" for y in walk(r["r"])) for r in refills):
                    okf = True
        rr.instances += 1
        rr.check(okf, "%s:forward-scan-advances" % short_fn(fb.key), "%s: while the window is empty the scan must move to the next word (`word_idx += 1`) and reload the window from it" % fb.key, fb.span)


PRIM_ALIGN = {"u8": 1, "i8": 1, "u16": 2, "i16": 2, "u32": 4, "i32": 4, "f32": 4, "u64": 8, "i64": 8, "usize": 8, "isize": 8, "f64": 8, "u128": 16, "i128": 16,
              "std::sync::atomic::AtomicUsize": 8, "std::sync::atomic::AtomicU64": 8}


@rule("R12.7", props=["C12", "C15", "C01", "C02", "C06"], floor=40, title="reinterpreting storage never assumes more alignment than the element type gives: align_to towards a more aligned type uses its prefix and suffix; casted pointers to a more aligned type are read/written unaligned")
def r12_7(ctx, rr):
    """Allocations made by Vec/Box happen to be 16-byte aligned, but a structure loaded with deserialize_eps / mmap
    (or built over a caller's slice) is only as aligned as its element type. `s.align_to::<u128>().1` on u64 or
    4-byte-aligned data drops a prefix there; `*(p as *const u128)` is undefined behaviour there."""
    F = ctx.F()
    lay = F.raw.get("layouts", {})

    def align_of(ty):
        ty = ty.strip()
        if ty in PRIM_ALIGN:
            return PRIM_ALIGN[ty]
        m = re.match(r"^\[(.+); \d+\]$", ty)
        if m:
            return align_of(m.group(1))
        cands = [v["align"] for k, v in lay.items() if k == ty or k.endswith("::" + ty) or ty.endswith("::" + k.split("::")[-1]) and k.split("::")[-1] == ty.split("::")[-1].split("<")[0]]
        if len(set(cands)) == 1:
            return cands[0]
        return None  # generic parameter or unknown

    sites = 0
    for b in F.fns():
        if is_derived(b):
            continue
        pm = None
        for n in walk(b.body):
            if n.get("k") == "MethodCall" and n["name"] in ("align_to", "align_to_mut") and len(n.get("ga") or []) == 2:
                sites += 1
                rr.instances += 1
                src, dst = n["ga"]
                a_src, a_dst = align_of(src), align_of(dst)
                key = "%s:align_to:%s->%s" % (short_fn(b.key), src, dst)
                if a_dst is not None and (a_dst == 1 or (a_src is not None and a_dst <= a_src)):
                    rr.ob(True, key=key)
                    continue
                # towards a (possibly) more aligned type: prefix and suffix must be bound and used
                if pm is None:
                    pm = {id(x): ps for x, ps in walk_with_parents(b.body)}
                ps = pm.get(id(n), ())
                # skip an enclosing `unsafe { .. }` block
                par = None
                for q in reversed(ps):
                    if q.get("k") == "Block" and q.get("expr") is not None and (q["expr"] is n or any(x is n for x in walk(q["expr"]))) and not q.get("stmts"):
                        continue
                    par = q
                    break
                ok = False
                if par is not None and par.get("k") == "LetStmt" and par["pat"].get("k") == "PTuple" and len(par["pat"].get("ps", [])) == 3:
                    pre, _mid, suf = par["pat"]["ps"]
                    used = []
                    for side in (pre, suf):
                        bid = side.get("id") if side.get("k") == "PBind" else None
                        used.append(bid is not None and any(x.get("k") == "Path" and x.get("res") == "local" and x.get("id") == bid for x in walk(b.body)))
                    ok = all(used)
                rr.ob(ok, key=key, sample={"fn": b.key, "call": show(F, n)[:80], "align_src": a_src, "align_dst": a_dst})
                if not ok:
                    rr.violate(key, "%s: `%s` views [%s] (alignment %s) as [%s] (alignment %s) and ignores the prefix or the suffix: on storage that is only %s-aligned (zero-copy deserialization, mmap, a caller's slice) the prefix is not empty and its elements are skipped" % (
                        b.key, show(F, n)[:80], src, a_src if a_src else "unknown", dst, a_dst if a_dst else "unknown", src), F.loc(n))
            # aligned reads through casted pointers
            if n.get("k") in ("Call", "MethodCall") and (cname(F, n) or "").split("::")[-1] in ("read", "write", "read_volatile", "write_volatile") and ("ptr::" in (cname(F, n) or "") or "pointer" in (cname(F, n) or "")):
                casts = [x for x in walk(n) if x.get("k") == "Cast"]
                for c in casts:
                    ty = F.ty(c)
                    m = re.match(r"^\*(const|mut) (.+)$", ty or "")
                    if not m:
                        continue
                    a_dst = align_of(m.group(2))
                    ity = F.ty(c["e"]) if "e" in c else ""
                    m2 = re.match(r"^\*(const|mut) (.+)$", ity or "")
                    a_src = align_of(m2.group(2)) if m2 else None
                    sites += 1
                    rr.instances += 1
                    key = "%s:aligned-access-through-cast:%s" % (short_fn(b.key), m.group(2))
                    ok = a_dst == 1 or (a_src is not None and a_dst is not None and a_dst <= a_src)
                    rr.ob(ok, key=key)
                    if not ok:
                        rr.violate(key, "%s: `%s` is an aligned access through a pointer cast to %s (alignment %s) from %s: use read_unaligned / write_unaligned, the storage is only as aligned as its own element type" % (b.key, show(F, n)[:80], m.group(2), a_dst, ity), F.loc(n))
    if sites < 40:
        raise AnchorMissing("R12.7 saw %d reinterpretation sites" % sites)
