"""Runs the sux-facts driver over /repo's current working tree (or another source
directory) and returns the path of the fact file. Results are cached by a hash
of the analysed sources + the driver binary, so the checks of one run share one
extraction, while any edit forces a new one."""
import fcntl
import hashlib
import os
import shutil
import subprocess
import sys
import time

VERIF = os.path.dirname(os.path.dirname(os.path.abspath(__file__)))
CACHE = os.path.join(VERIF, ".cache")
DRIVER_DIR = os.path.join(VERIF, "driver")
DRIVER = os.path.join(DRIVER_DIR, "target", "release", "sux-facts")

CONFIGS = {
    "default": [],
    "mwhc": ["--features", "mwhc"],
}


class MachineryError(Exception):
    """The verification machinery itself failed (exit code 2, never a VIOLATION)."""


def tree_hash(src_root):
    h = hashlib.sha256()
    items = []
    for sub in ("src", ".cargo"):
        base = os.path.join(src_root, sub)
        for dp, dn, fn in os.walk(base):
            dn.sort()
            for f in sorted(fn):
                items.append(os.path.join(dp, f))
    for f in ("Cargo.toml", "Cargo.lock"):
        p = os.path.join(src_root, f)
        if os.path.exists(p):
            items.append(p)
    for p in items:
        h.update(os.path.relpath(p, src_root).encode())
        h.update(b"\0")
        with open(p, "rb") as fh:
            h.update(fh.read())
        h.update(b"\0")
    if os.path.exists(DRIVER):
        st = os.stat(DRIVER)
        h.update(("%d:%d" % (st.st_size, int(st.st_mtime))).encode())
    return h.hexdigest()[:20]


def nightly_sysroot():
    return subprocess.check_output(["rustc", "+nightly", "--print", "sysroot"], text=True).strip()


def build_driver():
    env = dict(os.environ, CARGO_NET_OFFLINE="true")
    r = subprocess.run(["cargo", "build", "--release", "--offline"], cwd=DRIVER_DIR, env=env,
                       stdout=subprocess.PIPE, stderr=subprocess.STDOUT, text=True)
    if r.returncode != 0 or not os.path.exists(DRIVER):
        raise MachineryError("driver build failed:\n" + r.stdout[-4000:])


def get_facts(config="default", src_root="/repo", target_dir=None, use_cache=True, quiet=True):
    """Returns (fact_file_path, info dict)."""
    os.makedirs(CACHE, exist_ok=True)
    if not os.path.exists(DRIVER):
        build_driver()
    if os.environ.get("VERIF_NO_CACHE") == "1":
        use_cache = False
    th = tree_hash(src_root)
    out = os.path.join(CACHE, "facts-%s-%s.json" % (config, th))
    lock_path = os.path.join(CACHE, "lock-%s" % (os.path.basename(target_dir) if target_dir else "main"))
    t0 = time.time()
    with open(lock_path, "w") as lock:
        fcntl.flock(lock, fcntl.LOCK_EX)
        if use_cache and os.path.exists(out) and os.path.getsize(out) > 1000:
            return out, {"cached": True, "tree_hash": th, "extract_s": 0.0, "config": config}
        tdir = target_dir or os.path.join(CACHE, "target-" + config)
        # cargo's freshness cache would skip the wrapper: drop sux's own fingerprints
        fp = os.path.join(tdir, "debug", ".fingerprint")
        if os.path.isdir(fp):
            for d in os.listdir(fp):
                if d.startswith("sux-"):
                    shutil.rmtree(os.path.join(fp, d), ignore_errors=True)
        tmp_out = out + ".new.%d" % os.getpid()
        if os.path.exists(tmp_out):
            os.remove(tmp_out)
        env = dict(os.environ)
        env.update({
            "LD_LIBRARY_PATH": nightly_sysroot() + "/lib",
            "RUSTFLAGS": "-Zmir-opt-level=0 -Awarnings",
            "RUSTC_WORKSPACE_WRAPPER": DRIVER,
            "DRV_OUT": tmp_out,
            "DRV_CRATE": "sux",
            "CARGO_TARGET_DIR": tdir,
            "CARGO_NET_OFFLINE": "true",
        })
        env.pop("RUSTC_WRAPPER", None)
        cmd = ["cargo", "+nightly", "check", "--offline", "--lib"] + CONFIGS[config]
        r = subprocess.run(cmd, cwd=src_root, env=env, stdout=subprocess.PIPE, stderr=subprocess.STDOUT, text=True)
        if r.returncode != 0:
            raise CompileError("cargo +nightly check failed on %s (config %s):\n%s" % (src_root, config, r.stdout[-6000:]))
        if not os.path.exists(tmp_out):
            raise MachineryError("driver wrote no fact file (stale cargo cache?)\n" + r.stdout[-2000:])
        os.replace(tmp_out, out)
        # keep the cache small: remove fact files of other trees for this config (keep 6 newest)
        olds = sorted((f for f in os.listdir(CACHE) if f.startswith("facts-%s-" % config) and f.endswith(".json")),
                      key=lambda f: os.path.getmtime(os.path.join(CACHE, f)))
        for f in olds[:-6]:
            try:
                os.remove(os.path.join(CACHE, f))
            except OSError:
                pass
    return out, {"cached": False, "tree_hash": th, "extract_s": round(time.time() - t0, 2), "config": config}


class CompileError(MachineryError):
    pass


if __name__ == "__main__":
    cfg = sys.argv[1] if len(sys.argv) > 1 else "default"
    src = sys.argv[2] if len(sys.argv) > 2 else "/repo"
    p, info = get_facts(cfg, src)
    print(p, info)
