"""E5: constants, geometry and layouts agree with each other and with the documented space bounds
(R11.1-R11.3, R16.6, R02.2, broadword step constants)."""
import math
import os
import re
from framework import rule
from guards import is_derived
from r_guards import short_fn
from r_shard import DeepInliner, impls_of_shard_edge, strip_casts
from sym import *  # noqa
from ir import *  # noqa


def register_pow2(F):
    """constants whose value is a power of two (an evaluable 2^k, or syntactically `1 << e`): dividing by them and
    shifting by their logarithm are the same operation (sym.POW2_DEFS)"""
    import sym as _sym
    CE = ConstEval(F)
    for b in F.bodies:
        if b.dk not in ("Const", "AssocConst"):
            continue
        try:
            t = Termizer(F, b).term(b.body)
            v = CE.ev(t)
        except Exception:
            continue
        if (isinstance(v, int) and v > 1 and v & (v - 1) == 0) or (t[0] == "op" and len(t) == 4 and t[1] == "<<" and t[2] == ("int", 1)):
            _sym.POW2_DEFS.add(strip_generics(b.path))


class ConstEval:
    def __init__(self, F):
        self.F = F
        self.consts = {}
        for b in F.bodies:
            if b.dk in ("Const", "AssocConst"):
                self.consts.setdefault(strip_generics(b.path), []).append(b)

    def lookup(self, path, depth=0):
        bs = self.consts.get(path)
        if not bs or depth > 6:
            return None
        b = bs[0]
        return self.ev(Termizer(self.F, b).term(b.body), depth + 1)

    def ev(self, t, depth=0):
        h = t[0]
        if h == "int":
            return t[1]
        if h == "float":
            return float(str(t[1]).replace("_", "").rstrip("f64").rstrip("_")) if not str(t[1]).endswith("f64") else float(str(t[1])[:-3].replace("_", ""))
        if h == "cast":
            return self.ev(t[2], depth)
        if h == "def":
            if t[1].endswith("::BITS"):
                return 64
            return self.lookup(t[1], depth)
        if h == "un" and t[1] == "!":
            a = self.ev(t[2], depth)
            return None if not isinstance(a, int) else (~a) & ((1 << 64) - 1)
        if h == "un" and t[1] == "-":
            a = self.ev(t[2], depth)
            return None if a is None else -a
        if h == "ite":
            c = t[1]
            cv = None
            if c[0] == "op" and c[1] in ("<", "<=", ">", ">=", "==", "!="):
                a, b = self.ev(c[2], depth), self.ev(c[3], depth)
                if a is not None and b is not None:
                    cv = {"<": a < b, "<=": a <= b, ">": a > b, ">=": a >= b, "==": a == b, "!=": a != b}[c[1]]
            elif c[0] == "bool":
                cv = c[1]
            return None if cv is None else self.ev(t[2] if cv else t[3], depth)
        if h == "call" and t[1].split("::")[-1] in ("unwrap", "try_into", "try_from", "expect", "into", "from") and len(t[2]) >= 1:
            return self.ev(t[2][0], depth)
        if h == "op":
            a = self.ev(t[2], depth)
            b = self.ev(t[3], depth)
            if a is None or b is None:
                return None
            op = t[1]
            try:
                return {"+": lambda: a + b, "-": lambda: a - b, "*": lambda: a * b, "/": lambda: a // b if isinstance(a, int) and isinstance(b, int) else a / b,
                        "<<": lambda: a << b, ">>": lambda: a >> b, "|": lambda: a | b, "&": lambda: a & b, "^": lambda: a ^ b,
                        "min": lambda: min(a, b), "max": lambda: max(a, b), "%": lambda: a % b}[op]()
            except Exception:
                return None
        if h == "call":
            args = [self.ev(a, depth) for a in t[2]]
            if None in args:
                return None
            nm = t[1].split("::")[-1]
            try:
                if nm == "ilog2":
                    return int(args[0]).bit_length() - 1
                if nm == "saturating_sub":
                    return max(0, args[0] - args[1])
                if nm == "ln":
                    return math.log(args[0])
                if nm == "log2":
                    return math.log2(args[0])
                if nm == "floor":
                    return math.floor(args[0])
                if nm == "ceil":
                    return math.ceil(args[0])
                if nm == "max":
                    return max(args)
                if nm == "min":
                    return min(args)
                if nm == "div_ceil":
                    return -(-args[0] // args[1])
            except Exception:
                return None
        return None


def fsubst(t, env):
    """substitute variables by name"""
    if not isinstance(t, tuple) or not t:
        return t
    if t[0] == "var" and t[1] in env:
        return env[t[1]]
    return tuple(fsubst(x, env) if isinstance(x, tuple) else x for x in t)


def eval_pieces(CE, t, env):
    """evaluate an ite-tree numerically under env (vars -> ('int'|'float') terms)"""
    if t[0] == "ite":
        c = eval_cond(CE, t[1], env)
        if c is None:
            return None
        return eval_pieces(CE, t[2] if c else t[3], env)
    return CE.ev(fsubst(t, env))


def rewrite_where(t, pred, new):
    if not isinstance(t, tuple) or not t:
        return t
    if isinstance(t[0], str) and pred(t):
        return new
    return tuple(rewrite_where(x, pred, new) if isinstance(x, tuple) else x for x in t)


def eval_cond(CE, c, env):
    if c[0] == "op" and c[1] in ("<", "<=", ">", ">=", "==", "!="):
        a = CE.ev(fsubst(c[2], env))
        b = CE.ev(fsubst(c[3], env))
        if a is None or b is None:
            return None
        return {"<": a < b, "<=": a <= b, ">": a > b, ">=": a >= b, "==": a == b, "!=": a != b}[c[1]]
    return None


def int_consts_in(t):
    return sorted(set(x[1] for x in subterms(t) if x[0] == "int"))


DOC_OVERHEAD = {"BlockCounters": 0.25, "Block32Counters<2, 9>": 0.1875, "Block32Counters<1, 9>": 0.125, "Block32Counters<1, 10>": 0.0625,
                "Block32Counters<1, 11>": 0.03125, "Block32Counters<3, 13>": 0.015625}


@rule("R11.1", props=["C11", "C01"], floor=7, title="bytes of counters per block equal the documented overhead (compiler layouts x block geometry)")
def r11_1(ctx, rr):
    F = ctx.F()
    CE = ConstEval(F)
    lay = F.raw.get("layouts", {})
    if not lay:
        raise AnchorMissing("the fact file has no type layouts")
    # WORDS_PER_BLOCK = 1 << (COUNTER_WIDTH - log2(64))
    wb = F.find(r"^rank_sel::rank_small::RankSmall::<NUM_U32S, COUNTER_WIDTH, B, C1, C2>::WORDS_PER_BLOCK$")
    if len(wb) != 1:
        raise AnchorMissing("RankSmall::WORDS_PER_BLOCK not found")
    t = Termizer(F, wb[0]).term(wb[0].body)
    ok = t[0] == "op" and t[1] == "<<" and t[2] == ("int", 1) and t[3][0] == "op" and t[3][1] == "-" and t[3][2][0] == "def" and t[3][2][1].endswith("COUNTER_WIDTH") and CE.ev(t[3][3]) == 6
    rr.instances += 1
    rr.check(ok, "RankSmall::WORDS_PER_BLOCK:formula", "RankSmall::WORDS_PER_BLOCK must be 1 << (COUNTER_WIDTH - 6) (a block of 2^COUNTER_WIDTH bits); found %s" % tshow(t), wb[0].span)
    r9 = CE.lookup("rank_sel::rank9::Rank9::WORDS_PER_BLOCK")
    for name, frac in DOC_OVERHEAD.items():
        full = [k for k in lay if k.endswith("::" + name)]
        rr.instances += 1
        if len(full) != 1:
            rr.violate("%s:layout-missing" % name, "reason=anchor-missing: no layout for %s" % name)
            continue
        size = lay[full[0]]["size"]
        if name == "BlockCounters":
            block_bits = 64 * (r9 or 0)
        else:
            w = int(re.search(r", (\d+)>", name).group(1))
            block_bits = 1 << w
        got = size * 8 / block_bits if block_bits else None
        key = "%s:overhead" % name
        ok = got is not None and abs(got - frac) < 1e-12
        rr.ob(ok, key=key, sample={"type": full[0], "size_bytes": size, "align": lay[full[0]]["align"], "block_bits": block_bits, "overhead": got, "documented": frac})
        if not ok:
            rr.violate(key, "%s occupies %d bytes per block of %d bits = %.4f%% of the bit vector; the documentation states %.4f%%" % (full[0], size, block_bits, 100 * (got or 0), 100 * frac), "")


def _num_ones_of(F, r9):
    """what Rank9's num_ones() expands to (the total kept in the sentinel counter)"""
    nb = F.find(r"^<rank_sel::rank9::Rank9<B, C> as traits::rank_sel::NumBits>::num_ones$")
    if len(nb) != 1:
        return None
    T = Termizer(F, nb[0])
    T.env[nb[0].params[0]["id"]] = r9
    return T.term(nb[0].body)


@rule("R11.2", props=["C11", "C02"], floor=3, title="Select9 allocates one inventory word per 512 ones (+1) and one subinventory word per four words")
def r11_2(ctx, rr):
    F = ctx.F()
    b = F.one(r"^rank_sel::select9::Select9::<rank_sel::rank9::Rank9<B, C>>::new$")
    W = Walker(F, b)
    W.run()
    env = {}
    for n in walk(b.body):
        if n.get("k") == "LetStmt" and n["pat"].get("k") == "PBind" and "init" in n:
            env[n["pat"]["name"]] = W.expand(W.T.env.get(n["pat"]["id"], ("unk", "?")))
    r9 = ("var", b.params[0]["name"], b.params[0]["id"])
    inv = env.get("inventory_size", ("unk", "?"))
    rr.instances += 1
    ok = inv[0] == "call" and inv[1] == "int::div_ceil" and inv[2][0] in (("call", "NumBits::num_ones", (r9,)), Termizer(F, b).mk_call("NumBits::num_ones", (r9,), None) if False else ("call", "NumBits::num_ones", (r9,)), _num_ones_of(F, r9)) and inv[2][1][0] == "def" and inv[2][1][1].endswith("ONES_PER_INVENTORY")
    rr.check(ok, "Select9::new:inventory_size", "Select9::new must size the inventory as ceil(num_ones / ONES_PER_INVENTORY); found %s" % tshow(inv), b.span)
    CE = ConstEval(F)
    rr.instances += 1
    rr.check(CE.lookup("rank_sel::select9::Select9::ONES_PER_INVENTORY") == 512, "Select9::ONES_PER_INVENTORY", "Select9::ONES_PER_INVENTORY must be 512 (one inventory word per 512 ones: 12.5%% of a dense vector)", b.span)
    sub = env.get("subinventory_size", ("unk", "?"))
    rr.instances += 1
    ok = sub[0] == "call" and sub[1] == "int::div_ceil" and sub[2][1] == ("int", 4) and sub[2][0][0] == "call" and sub[2][0][1] == "int::div_ceil" and sub[2][0][2][1] == ("int", 64)
    rr.check(ok, "Select9::new:subinventory_size", "Select9::new must allocate ceil(ceil(len/64) / 4) subinventory words (25%% of the bit vector); found %s" % tshow(sub), b.span)


def follow_setup(F, DI, b):
    """set_up_graphs may forward to an inherent/inner implementation; return the body that assigns `l`/`seg_size`"""
    seen = 0
    cur = b
    while seen < 3:
        if any(n.get("k") == "Assign" and n["l"].get("k") == "Field" and n["l"]["name"] in ("l", "seg_size") for n in walk(cur.body)):
            return cur
        nxt = None
        for n in walk(cur.body):
            if n.get("k") in ("Call", "MethodCall") and (cname(F, n) or "").endswith("set_up_graphs"):
                r = DI.resolve(n)
                if r is not None and r is not cur:
                    nxt = r
        if nxt is None:
            return None
        cur = nxt
        seen += 1
    return None


@rule("R11.3", props=["C11"], floor=4, title="function/filter geometry: l = ceil(c * max shard)/2^s - 2 (at least 1); expansion factor c within the documented bounds", configs=("default", "mwhc"))
def r11_3(ctx, rr):
    geometry_rule(ctx, rr, with_c=True)


@rule("R16.6", props=["C16", "C07", "C12", "C08"], floor=4, title="the number of first segments l is sized from the largest shard and clamped to at least 1 (third vertex inside the l + 2 segments)", configs=("default", "mwhc!"))
def r16_6(ctx, rr):
    geometry_rule(ctx, rr, with_c=False)


def geometry_rule(ctx, rr, with_c, sink=None):
    for cfg in sorted(ctx.facts.keys()):
        F = ctx.F(cfg)
        DI = DeepInliner(F, keep_narrowing=False)
        CE = ConstEval(F)
        groups = impls_of_shard_edge(F)
        for ref, ms in sorted(groups.items()):
            nm = re.sub(r"^<|>$", "", ref).replace("func::shard_edge::", "").replace("fuse::", "").replace("mwhc::", "")
            if cfg == "mwhc" and "Mwhc" not in nm:
                continue
            b0 = ms.get("set_up_graphs")
            if b0 is None:
                raise AnchorMissing("%s: no set_up_graphs" % ref)
            b = follow_setup(F, DI, b0)
            if b is None:
                raise AnchorMissing("%s: could not find the body assigning the geometry" % ref)
            # parameters by position (never by name): (self, n, max_shard) in an impl of ShardEdge; an inherent
            # helper takes (self, n, <something else>)
            is_trait_body = " as func::shard_edge::ShardEdge" in b.key
            roles = ["n", "max_shard" if is_trait_body else "aux"]
            nonself = [p for p in b.params if p.get("k") == "PBind" and p["name"] != "self"]
            P = {}
            W = Walker(F, b, inline=DI)
            for p, role in zip(nonself, roles):
                used = any(x.get("k") == "Path" and x.get("res") == "local" and x.get("id") == p["id"] for x in walk(b.body))
                if used:
                    P[role] = ("var", role)
                W.T.env[p["id"]] = ("var", role)
            assigns = {}

            def on_node(Wk, n, K, assigns=assigns):
                if n.get("k") == "Assign" and n["l"].get("k") == "Field" and n["l"]["name"] in ("l", "seg_size", "log2_seg_size"):
                    assigns.setdefault(n["l"]["name"], []).append((Wk.expand(Wk.T.term(n["r"])), n))
            W.on_node = on_node
            W.run()
            tail = b.body.get("expr")
            ret = W.expand(W.T.term(tail)) if tail is not None else ("unk", "?")
            c_t = ret[1] if ret[0] == "tup" and len(ret) == 3 else None
            sharded = "max_shard" in P and not nm.startswith("FuseLge3NoShards") and "NoShards" not in nm
            size_var = ("var", "max_shard") if sharded else ("var", "n")
            # --- l formula (fuse) / seg_size formula (mwhc)
            rr.instances += 1
            if "l" in assigns:
                lt, node = assigns["l"][-1]
                t = lt
                # strip try_into().unwrap() and casts
                while t[0] in ("call", "cast") and (t[0] == "cast" or t[1] in ("Result::unwrap", "TryInto::try_into", "TryFrom::try_from", "Option::unwrap")):
                    t = t[2][0] if t[0] == "call" else t[2]
                ok_max = t[0] == "op" and t[1] == "max" and ("int", 1) in (t[2], t[3])
                # whatever the shape: l evaluated on small and large sizes is max(1, ceil(ceil(c * size) / 2^s) - 2)
                numeric_ok = None
                if "log2_seg_size" in assigns and c_t is not None:
                    seg_t0 = assigns["log2_seg_size"][-1][0]
                    agree, evald = True, 0
                    for nn in (0, 1, 2, 3, 10, 100, 101, 1000, 10 ** 5, 10 ** 6, 10 ** 7, 10 ** 8):
                        # (the number of keys and the largest shard are told apart: a formula sized by the wrong one disagrees)
                        env0 = {"n": ("int", 4 * nn + 1 if sharded else nn), "max_shard": ("int", nn), "aux": ("int", 1 << 64)}
                        sv0 = eval_pieces(CE, seg_t0, env0)
                        cv0 = eval_pieces(CE, c_t, env0)
                        if sv0 is None or cv0 is None:
                            continue
                        lv0 = eval_pieces(CE, rewrite_where(lt, lambda x: x[0] == "field" and x[2] == "log2_seg_size", ("int", int(sv0))), env0)
                        if lv0 is None:
                            continue
                        evald += 1
                        want0 = max(1, -(-math.ceil(cv0 * nn) // (1 << int(sv0))) - 2)
                        if int(lv0) != want0:
                            agree = False
                    numeric_ok = agree if evald >= 8 else None
                if not ok_max and numeric_ok:
                    ok_max = True
                rr.check(ok_max, "%s:l>=1" % nm, "%s: the number of first segments l must be clamped to at least 1 as the *last* step (`... .saturating_sub(2).max(1)`): with l = 0 the third vertex of every edge lies outside the (l + 2) segments; found %s" % (ref, tshow(t)[:200]), F.loc(node))
                inner = None
                if ok_max:
                    inner = t[3] if t[2] == ("int", 1) else t[2]
                ok_f = False
                if inner is not None and inner[0] == "call" and inner[1] == "int::saturating_sub" and inner[2][1] == ("int", 2):
                    d = inner[2][0]
                    if d[0] == "call" and d[1] == "int::div_ceil":
                        num, den = d[2]
                        den_ok = den[0] == "op" and den[1] == "<<" and den[2] == ("int", 1) and den[3][0] == "field" and den[3][2] == "log2_seg_size"
                        # num == ceil(c * size)
                        num_s = strip_casts(num)
                        num_ok = False
                        if num_s[0] == "call" and num_s[1].endswith("ceil") and len(num_s[2]) == 1:
                            pr = num_s[2][0]
                            if pr[0] == "op" and pr[1] == "*":
                                num_ok = any(y in (size_var, ("cast", "f64", size_var)) for y in (pr[2], pr[3]))
                        ok_f = den_ok and num_ok
                if not ok_f and numeric_ok:
                    ok_f = True
                rr.instances += 1
                rr.check(ok_f, "%s:l-formula" % nm, "%s: l must be ceil(c * %s).div_ceil(1 << log2_seg_size).saturating_sub(2) (sized by the %s); found %s" % (ref, size_var[1], "largest shard" if sharded else "number of keys", tshow(inner)[:240] if inner else None), F.loc(node))
            elif "seg_size" in assigns:
                st, node = assigns["seg_size"][0]
                s_ = strip_casts(st)
                # at least one cell per segment: `.max(1)` as the last step (an empty key set gives ceil(0) = 0)
                ok_min = s_[0] == "op" and s_[1] == "max" and ("int", 1) in (s_[2], s_[3])
                rr.check(ok_min, "%s:seg_size>=1" % nm, "%s: seg_size must be clamped to at least 1 (`... .max(1)`): with no keys ceil(c * 0 / 3) = 0, the three vertices of every edge coincide and lie outside the empty backend; found %s" % (ref, tshow(s_)[:160]), F.loc(node))
                if ok_min:
                    s_ = strip_casts(s_[3] if s_[2] == ("int", 1) else s_[2])
                rr.instances += 1
                ok = s_[0] == "call" and s_[1].endswith("ceil") and mentions(s_, lambda x: x == size_var or x == ("cast", "f64", size_var)) and mentions(s_, lambda x: x == ("float", "3.") or x == ("float", "3.0") or x == ("int", 3))
                rr.check(ok, "%s:seg_size-formula" % nm, "%s: seg_size must be ceil(c * %s / 3); found %s" % (ref, size_var[1], tshow(s_)[:200]), F.loc(node))
            else:
                rr.violate("%s:geometry" % nm, "reason=anchor-missing: %s assigns neither l nor seg_size" % ref, b.span)
            # --- c bounds
            if not with_c:
                continue
            rr.instances += 1
            if c_t is None:
                rr.violate("%s:c" % nm, "reason=anchor-missing: %s: set_up_graphs does not return (c, lge)" % ref, b.span)
                continue
            consts = set()
            for x in subterms(c_t):
                if x[0] == "int":
                    consts.add(x[1])
                if x[0] == "def":
                    v = CE.lookup(x[1])
                    if isinstance(v, int):
                        consts.add(v)
                        consts.add(2 * v)
                        consts.add(v // 2)
            pts = set([0, 1, 2, 3, 10, 99, 100, 101, 1000, 99999, 100000, 100001, 150000, 200000, 400000, 799999, 800000, 800001, 10 ** 6, 10 ** 7, 10 ** 8, 10 ** 9, 10 ** 10, 10 ** 12])
            for k in consts:
                for d in (-1, 0, 1):
                    if k + d >= 0:
                        pts.add(k + d)
            worst_all = (0, None)
            worst_big = (0, None)
            unevaluated = 0
            for n in sorted(pts):
                # in the sharded logic the size seen by c() is the largest shard, at most n
                env = {"n": ("int", n), "max_shard": ("int", n), "aux": ("int", 1 << 64)}
                v = eval_pieces(CE, c_t, env)
                if v is None:
                    unevaluated += 1
                    continue
                if v > worst_all[0]:
                    worst_all = (v, n)
                if n >= 100000 and v > worst_big[0]:
                    worst_big = (v, n)
            if sink is not None:
                sink[nm] = {"worst_all": worst_all, "worst_big": worst_big, "sharded": sharded, "span": b.span}
            # --- the geometry itself, evaluated: cells per key (l + 2) * 2^log2_seg_size / size for large structures
            # (the segment-size estimate enters here: a segment as large as the whole graph leaves three segments of it)
            if "l" in assigns and "log2_seg_size" in assigns:
                seg_t = assigns["log2_seg_size"][-1][0]
                l_t = assigns["l"][-1][0]
                worst_v = (0, None)
                n_eval = 0
                for n in (10 ** 6, 3 * 10 ** 6, 10 ** 7, 2 * 10 ** 7, 2 * 10 ** 7 + 1, 5 * 10 ** 7, 10 ** 8, 3 * 10 ** 8):
                    env = {"n": ("int", n), "max_shard": ("int", n), "aux": ("int", 1 << 64)}
                    sv = eval_pieces(CE, seg_t, env)
                    if sv is None:
                        continue
                    lt2 = rewrite_where(l_t, lambda x: x[0] == "field" and x[2] == "log2_seg_size", ("int", int(sv)))
                    lv = eval_pieces(CE, lt2, env)
                    if lv is None:
                        continue
                    n_eval += 1
                    ratio = ((int(lv) + 2) << int(sv)) / n
                    if ratio > worst_v[0]:
                        worst_v = (ratio, n, int(sv), int(lv))
                rr.instances += 1
                key = "%s:cells-per-key<=1.135-from-10^6-keys" % nm
                if n_eval == 0:
                    rr.ob(True, key=key, nontrivial=False)
                else:
                    okv = worst_v[0] <= 1.135 + 1e-9
                    rr.ob(okv, key=key, sample={"impl": nm, "max cells per key": worst_v[0], "at size": worst_v[1], "evaluated sizes": n_eval})
                    if not okv:
                        rr.violate(key, "%s: a graph of %d keys gets log2_seg_size = %d and l = %d, i.e. %.3f cells per key, above the documented 1.135 (the segment-size estimate is out of proportion with the graph)" % (ref, worst_v[1], worst_v[2], worst_v[3], worst_v[0]), b.span)
            key = "%s:c<=1.23" % nm
            if unevaluated > len(pts) // 2:
                rr.violate("%s:c-evaluable" % nm, "%s: could not evaluate the expansion factor c (%s) on the sample of key counts" % (ref, tshow(c_t)[:200]), b.span)
                continue
            rr.ob(worst_all[0] <= 1.23 + 1e-12, key=key, sample={"impl": nm, "max_c": worst_all[0], "at_n": worst_all[1], "points": len(pts)})
            if worst_all[0] > 1.23 + 1e-12:
                rr.violate(key, "%s: the expansion factor reaches %.4f at n = %s, above the documented 1.23" % (ref, worst_all[0], worst_all[1]), b.span)
            rr.instances += 1
            key = "%s:c<=1.135-from-100000-keys" % nm
            ok = worst_big[0] <= 1.135 + 1e-12
            rr.ob(ok, key=key, sample={"impl": nm, "max_c_from_100000": worst_big[0], "at_n": worst_big[1]})
            if not ok:
                rr.violate(key, "%s: the expansion factor is %.4f at n = %s keys, above the documented 1.135 n b bits from 100000 keys upward" % (ref, worst_big[0], worst_big[1]), b.span)


@rule("R02.2", props=["C02"], floor=6, title="span classes: 16-bit offsets for spans <= 2^16, 32-bit for <= 2^32; inventory tag bits set/tested/masked consistently")
def r02_2(ctx, rr):
    F = ctx.F()
    b = F.one(r"^rank_sel::select_adapt::SpanType::from_span$")
    import astnorm
    arms = []
    chains = [astnorm.int_classes(n, evalf=const_evalf(F, b)) for n in walk(b.body) if n.get("k") == "If"]
    chains = [c for c in chains if c and len(c) >= 3]
    m = [n for n in walk(b.body) if n.get("k") == "Match"]
    if chains:
        def _ty(body):
            while body.get("k") == "Block" and not body.get("stmts") and "expr" in body:
                body = body["expr"]
            return show(F, body).split("::")[-1]
        arms = [(lo, hi, _ty(body)) for lo, hi, body in max(chains, key=len)]
    elif len(m) == 1:
        for a in m[0]["arms"]:
            p = a["pat"]
            ty = show(F, a["body"]).split("::")[-1]
            if p.get("k") == "PRange":
                arms.append((int(p["lo"]["v"]), int(p["hi"]["v"]) + (0 if p.get("incl") else -1), ty))
            elif p.get("k") == "PWild":
                arms.append((None, None, ty))
    else:
        raise AnchorMissing("SpanType::from_span: expected one match on ranges or one if-chain on the span")
    rr.instances += 1
    ok = len(arms) == 3 and arms[0][2] == "U16" and arms[1][2] == "U32" and arms[2][2] == "U64" and arms[0][0] == 0
    rr.check(ok, "SpanType::from_span:arms", "from_span must have arms U16, U32, U64 in increasing order starting at 0; found %s" % arms, b.span)
    if ok:
        # offsets stored are < span: a U16 span may be at most 2^16, a U32 span at most 2^32
        rr.instances += 1
        rr.check(arms[0][1] <= 1 << 16, "SpanType::from_span:u16-bound", "spans up to %d are classified U16, but offsets inside a span of more than 2^16 bits do not fit 16 bits" % arms[0][1], b.span)
        rr.instances += 1
        rr.check(arms[1][1] <= 1 << 32, "SpanType::from_span:u32-bound", "spans up to %d are classified U32, but offsets inside a span of more than 2^32 bits do not fit 32 bits" % arms[1][1], b.span)
        rr.instances += 1
        rr.check(arms[1][0] == arms[0][1] + 1, "SpanType::from_span:contiguous", "the U16 and U32 arms must be contiguous; found %s" % arms, b.span)
    # inventory tags
    CE = ConstEval(F)
    inv = {x.name: x for x in F.fns() if (x.impl_trait or "").endswith("select_adapt::Inventory") and (x.impl_self or "") == "usize"}
    need = ("is_u16_span", "is_u32_span", "is_u64_span", "set_u16_span", "set_u32_span", "set_u64_span", "get")
    for nme in need:
        if nme not in inv:
            raise AnchorMissing("Inventory::%s for usize not found" % nme)

    def set_bits(bd):
        bits = 0
        for n in walk(bd.body):
            if n.get("k") == "AssignOp" and n["op"] == "|=":
                v = CE.ev(Termizer(F, bd).term(n["r"]))
                bits |= v if isinstance(v, int) else 0
        return bits
    s16, s32, s64 = set_bits(inv["set_u16_span"]), set_bits(inv["set_u32_span"]), set_bits(inv["set_u64_span"])

    def pred(bd, x):
        t = Termizer(F, bd).term(bd.body)
        slf = ("var", "self", bd.params[0]["id"])
        signed = any(n.get("k") == "Cast" and F.ty(n) == "isize" for n in walk(bd.body))
        xv = x if not signed or x < (1 << 63) else x - (1 << 64)
        t = rewrite_term(t, slf, ("int", xv))
        if t[0] == "op" and t[1] in (">=", "<", "<=", ">"):
            a, bb = CE.ev(t[2]), CE.ev(t[3])
            if a is None or bb is None:
                return None
            return {">=": a >= bb, "<": a < bb, "<=": a <= bb, ">": a > bb}[t[1]]
        if t[0] == "op" and t[1] == "==":
            return CE.ev(t[2]) == CE.ev(t[3])
        return None
    sample_pos = 123456789
    for nme, bits, want in (("u16", s16, (True, False, False)), ("u32", s32, (False, True, False)), ("u64", s64, (False, False, True))):
        x = sample_pos | bits
        got = (pred(inv["is_u16_span"], x), pred(inv["is_u32_span"], x), pred(inv["is_u64_span"], x))
        rr.instances += 1
        rr.check(got == want, "Inventory:set_%s_span~predicates" % nme, "after set_%s_span (tag bits %#x) the predicates (is_u16, is_u32, is_u64) evaluate to %s instead of %s" % (nme, bits, got, want), inv["set_%s_span" % nme].span)
    gt = Termizer(F, inv["get"]).term(inv["get"].body)
    gm = None
    if gt[0] == "op" and gt[1] == "&":
        gm = CE.ev(gt[3]) if gt[2][0] == "var" else CE.ev(gt[2])
    rr.instances += 1
    rr.check(gm == (1 << 62) - 1 and (gm & (s32 | s64)) == 0, "Inventory::get:mask", "Inventory::get must clear exactly the two tag bits (mask 2^62 - 1); found %s" % (hex(gm) if gm else None), inv["get"].span)


@rule("R02.5", props=["C02", "C01"], floor=10, title="broadword step constants: ONES_STEP_k = sum of 1 << k*i over the slots, MSBS_STEP_k = ONES_STEP_k << (k - 1)")
def r02_5(ctx, rr):
    F = ctx.F()
    CE = ConstEval(F)
    ones = [b for b in F.bodies if b.dk in ("Const", "AssocConst") and re.search(r"ONES_STEP_(\d+)$", b.path)]
    if len(ones) < 10:
        raise AnchorMissing("expected at least 10 ONES_STEP_k constants, found %d" % len(ones))
    for b in ones:
        k = int(re.search(r"ONES_STEP_(\d+)$", b.path).group(1))
        v = CE.ev(Termizer(F, b).term(b.body))
        m = re.search(r"<(\d+), (\d+), C[^>]*>", b.path)
        if m:
            slots = 7 if int(m.group(1)) in (2, 3) else 3
        else:
            slots = 7 if k == 9 else 4
        want = sum(1 << (k * i) for i in range(slots))
        nm = strip_generics(b.path).split("::")[-3:]
        key = "%s[%s]:value" % ("::".join(nm), "<%s, %s, C>" % (m.group(1), m.group(2)) if m else "")
        rr.instances += 1
        rr.check(v == want, key, "%s must be the sum of 1 << (%d * i) for i < %d (= %#x); found %s" % (b.path, k, slots, want, hex(v) if isinstance(v, int) else v), b.span)
        mb = [x for x in F.bodies if x.dk in ("Const", "AssocConst") and x.path == b.path.replace("ONES_STEP", "MSBS_STEP")]
        if mb:
            mv = CE_eval_local(F, CE, mb[0], {b.path: v})
            rr.instances += 1
            rr.check(mv == want << (k - 1), key.replace("value", "msbs"), "%s must be ONES_STEP_%d << %d; found %s" % (mb[0].path, k, k - 1, hex(mv) if isinstance(mv, int) else mv), mb[0].span)


def CE_eval_local(F, CE, b, known):
    t = Termizer(F, b).term(b.body)

    def sub(t):
        if not isinstance(t, tuple) or not t:
            return t
        if t[0] == "def":
            for p, v in known.items():
                if strip_generics(p).endswith(t[1].split("::")[-1]) and v is not None:
                    return ("int", v)
        return tuple(sub(x) if isinstance(x, tuple) else x for x in t)
    return CE.ev(sub(t))


@rule("R07.8", props=["C07", "C08"], floor=2, title="the size formulas that set_up_graphs applies to the largest shard are total: no assertion bounds their size argument from above")
def r07_8(ctx, rr):
    """try_seed calls set_up_graphs(num_keys, max_shard) before the balance test, so max_shard has no upper bound
    there (just below a sharding threshold it exceeds the target size in half of the attempts; with unbalanced
    shards by any amount). A `debug_assert!(n <= K)` in a helper applied to it turns a legitimate attempt into a
    panic in debug builds."""
    F = ctx.F()
    sg = [b for b in F.fns() if b.name == "set_up_graphs" and b.file.endswith("func/shard_edge.rs") and not is_derived(b)]
    if len(sg) < 2:
        raise AnchorMissing("expected the set_up_graphs implementations")
    helpers = {}
    for b in sg:
        if len(b.params) < 3:
            continue
        ms = b.params[2]["id"]        # (self, n, max_shard)
        for n in walk(b.body):
            if n.get("k") == "Call" and n.get("cc") == "sux":
                for pos, a in enumerate(n["args"]):
                    if a.get("k") == "Path" and a.get("res") == "local" and a.get("id") == ms:
                        c = F.callee(n)
                        if c:
                            helpers.setdefault(strip_generics(c), set()).add(pos)
    # the bodies to scan: the helpers that receive max_shard, and set_up_graphs itself (a helper that the reference
    # tree does not know is analysed where it is inlined, with max_shard substituted for its parameter)
    scan = []
    for path, poss in sorted(helpers.items()):
        hb = [b for b in F.fns() if strip_generics(b.path) == path]
        if hb:
            for pos in sorted(poss):
                scan.append((hb[0], hb[0].params[pos]["id"], hb[0].params[pos].get("name")))
    for b in sg:
        if len(b.params) >= 3 and any(isinstance(x, dict) and x.get("inlined") for x in walk(b.body)):
            scan.append((b, b.params[2]["id"], b.params[2].get("name")))
    if not scan:
        raise AnchorMissing("set_up_graphs passes max_shard to no helper")
    for hb, pid, pname in scan:
        if True:
            bad = []
            for n in walk(hb.body):
                if n.get("k") == "If" and diverges(F, n["th"]):
                    # the failing condition of an assertion: `!(n <= K)`, i.e. an upper bound on the parameter
                    c = n["c"]
                    neg = False
                    while c.get("k") == "Unary" and c.get("op") == "!":
                        c = c["e"]
                        neg = not neg
                    if c.get("k") == "Binary" and c["op"] in ("<", "<=", ">", ">="):
                        lhs_is = c["l"].get("k") == "Path" and c["l"].get("id") == pid
                        rhs_is = c["r"].get("k") == "Path" and c["r"].get("id") == pid
                        upper_pass = (lhs_is and c["op"] in ("<", "<=")) or (rhs_is and c["op"] in (">", ">="))
                        upper_fail = (lhs_is and c["op"] in (">", ">=")) or (rhs_is and c["op"] in ("<", "<="))
                        # diverges when the condition holds: pass-condition is its negation
                        if (neg and upper_pass) or (not neg and upper_fail):
                            bad.append(n)
            rr.instances += 1
            key = "%s:total-in-shard-size" % short_fn(hb.key)
            rr.ob(not bad, key=key, sample={"helper": hb.key, "argument": pname})
            if bad:
                rr.violate(key, "%s, applied by set_up_graphs to the size of the largest shard, asserts an upper bound on that argument (`%s`): the largest shard is not bounded at that point (it exceeds the target size for key sets just below a sharding threshold, and by any amount in attempts later discarded as unbalanced), so the build panics instead of returning a function" % (hb.key, show(F, bad[0]["c"])[:80]), F.loc(bad[0]))


@rule("R07.9", props=["C07", "C16", "C08"], floor=2, title="FuseLge3Shards decides its regime (lazy Gaussian elimination below MAX_LIN_SIZE) with one and the same test when it shards and when it sets up the graphs")
def r07_9(ctx, rr):
    """set_up_shards sizes the shards for the regime it picks with `n <= MAX_LIN_SIZE`; set_up_graphs must pick the
    same regime for the same n, or shards sized for linear solving are set up for peeling (and the reverse)."""
    F = ctx.F()
    bodies = [b for b in F.fns() if b.file.endswith("func/shard_edge.rs") and not is_derived(b) and b.name in ("set_up_shards", "set_up_graphs", "c")]
    tests = {}
    for b in bodies:
        n_id = None
        for p in b.params:
            if p.get("k") == "PBind" and p["name"] != "self" and F.types[p["t"]] == "usize":
                n_id = n_id or p["id"]      # the key count is the first usize parameter
        for n in walk(b.body):
            if n.get("k") == "Binary" and n["op"] in ("<", "<=", ">", ">="):
                for a, c, flip in ((n["l"], n["r"], False), (n["r"], n["l"], True)):
                    if c.get("k") == "Path" and c.get("res") == "def" and (c.get("name") or "").endswith("MAX_LIN_SIZE") and a.get("k") == "Path" and a.get("res") == "local":
                        op = n["op"]
                        if flip:
                            op = {"<": ">", "<=": ">=", ">": "<", ">=": "<="}[op]
                        # normalise to the set of n for which the test holds: `<=` / `<` (or their negations)
                        norm = {"<=": "n <= MAX", "<": "n < MAX", ">": "n <= MAX", ">=": "n < MAX"}[op]
                        tests.setdefault(norm, []).append((b, n))
    total = sum(len(v) for v in tests.values())
    if total < 2:
        raise AnchorMissing("expected the regime test against MAX_LIN_SIZE in set_up_shards and set_up_graphs")
    major = max(tests, key=lambda k: len(tests[k]))
    for norm, sites in tests.items():
        for b, n in sites:
            rr.instances += 1
            ok = norm == major
            key = "%s:regime-test" % short_fn(b.key)
            rr.ob(ok, key=key + norm)
            if not ok:
                rr.violate(key, "%s tests the key count against MAX_LIN_SIZE with `%s`, the other sites with `%s`: at exactly n = MAX_LIN_SIZE the shards are sized for one regime and the graphs set up for the other" % (b.key, show(F, n)[:60], major), F.loc(n))


@rule("R11.6", props=["C11", "C01"], floor=5, title="rank_small![k; bits] builds five different RankSmall variants, each among those implemented (one arm per variant)")
def r11_6(ctx, rr):
    """The macro is the documented way to pick a space/speed point; two arms building the same variant mean one
    documented point silently costs the space of another. Read from the source text of the macro definition
    (macro_rules bodies are not part of the typed program)."""
    src = os.path.join(getattr(ctx, "src", "/repo"), "src/rank_sel/rank_small.rs")
    try:
        text = open(src).read()
    except OSError:
        raise AnchorMissing("src/rank_sel/rank_small.rs not found")
    m = re.search(r"macro_rules!\s*rank_small\s*\{(.*?)\n\}", text, re.S)
    if not m:
        raise AnchorMissing("macro_rules! rank_small not found")
    arms = re.findall(r"\(\s*(\d+)\s*;[^)]*\)\s*=>\s*\{[^}]*?RankSmall::<\s*(\d+)\s*,\s*(\d+)", m.group(1))
    impls = set(re.findall(r"^impl_rank_small!\((\d+);\s*(\d+)\);", text, re.M))
    if len(arms) < 5 or len(impls) < 5:
        raise AnchorMissing("expected five arms of rank_small! and five impl_rank_small! instantiations, found %d/%d" % (len(arms), len(impls)))
    seen = {}
    for sel, a, w in arms:
        rr.instances += 1
        ok = (a, w) in impls and (a, w) not in seen
        key = "rank_small![%s]:distinct-implemented-variant" % sel
        rr.ob(ok, key=key, sample={"selector": sel, "variant": "RankSmall<%s, %s>" % (a, w)})
        if not ok:
            why = "the same variant as rank_small![%s]" % seen[(a, w)] if (a, w) in seen else "a variant without an implementation"
            rr.violate(key, "rank_small![%s; ..] builds RankSmall<%s, %s>, %s: the documented space overhead of this selector is not the one obtained" % (sel, a, w, why), "src/rank_sel/rank_small.rs:%d" % (text[:m.start()].count("\n") + 1))
        seen.setdefault((a, w), sel)


@rule("R11.7", props=["C11", "C16"], floor=2, title="the segment size of a fuse graph never exceeds the value of the peelability formula (an explicit cap is an upper bound: min, not max)")
def r11_7(ctx, rr):
    """space = (l + 2) * 2^log2_seg_size with l >= 1: a segment exponent forced *up* to a constant makes every
    structure at least 3 * 2^const cells. Whatever is assigned to log2_seg_size from `log2_seg_size(arity, n)` /
    `lin_log2_seg_size(arity, n)` must be <= that value."""
    F = ctx.F()
    sg = [b for b in F.fns() if b.name == "set_up_graphs" and b.file.endswith("func/shard_edge.rs") and not is_derived(b) and "fuse" in b.path]
    if len(sg) < 2:
        raise AnchorMissing("expected the fuse set_up_graphs implementations")
    n_found = 0
    for b in sg:
        def on_node(W, n, K):
            pass
        T = Termizer(F, b)
        for n in walk(b.body):
            if n.get("k") == "MethodCall" and n["name"] in ("min", "max", "clamp") and n["recv"].get("k") == "Call" and (F.callee(n["recv"]) or "").split("::")[-1] in ("log2_seg_size", "lin_log2_seg_size"):
                n_found += 1
                rr.instances += 1
                ok = n["name"] == "min"
                key = "%s:segment-exponent-capped-from-above" % short_fn(b.key)
                rr.ob(ok, key=key)
                if not ok:
                    rr.violate(key, "%s applies `.%s(%s)` to the segment-size exponent: the result is not bounded by the peelability formula any more (with `max` every graph has segments of at least that size, i.e. at least 3 * 2^%s cells whatever the number of keys)" % (b.key, n["name"], show(F, n["args"][0]), show(F, n["args"][0])), F.loc(n))
            elif n.get("k") == "Call" and (F.callee(n) or "").split("::")[-1] in ("log2_seg_size", "lin_log2_seg_size"):
                rr.instances += 1
                rr.ob(True, key="%s:segment-exponent-from-formula" % short_fn(b.key), nontrivial=False)
    if n_found == 0:
        raise AnchorMissing("no capped segment-size exponent found in the fuse set_up_graphs")


@rule("R11.9", props=["C11"], floor=2, title="sharded functions: expansion factor times the shard-balance tolerance of try_seed stays within the documented bound (all shards are sized for the largest one)")
def r11_9(ctx, rr):
    """Every shard gets the geometry of the largest shard, and try_seed accepts a seed when the largest shard is at
    most K times the average: the space is c * K * n * b. The tolerance K is as much part of the bound as c."""
    from framework import RuleResult
    F = ctx.F()
    b = F.one(r"^func::vbuilder::VBuilder::<W, D, S, E>::try_seed$")
    Ks = []
    for n in walk(b.body):
        if n.get("k") == "If" and n["c"].get("k") == "Binary" and n["c"]["op"] in (">", ">=") and any("MaxShardTooBig" in show(F, x) for x in walk(n["th"])):
            fl = [x for x in walk(n["c"]["r"]) if x.get("k") == "Lit" and re.match(r"^\d+\.\d*", str(x.get("v", "")))]
            if len(fl) == 1:
                Ks.append((float(re.match(r"^[\d.]+", str(fl[0]["v"])).group(0)), n))
    if len(Ks) != 1:
        raise AnchorMissing("try_seed: expected one balance test `max_shard > K * num_keys / num_shards` leading to MaxShardTooBig, found %d" % len(Ks))
    K, node = Ks[0]
    sink = {}
    geometry_rule(ctx, RuleResult("R11.9-geometry"), with_c=True, sink=sink)
    sharded = {nm: v for nm, v in sink.items() if v["sharded"]}
    if not sharded:
        raise AnchorMissing("no sharded ShardEdge logic evaluated")
    for nm, v in sorted(sharded.items()):
        rr.instances += 1
        prod_all = v["worst_all"][0] * K
        prod_big = v["worst_big"][0] * K
        for lab, prod, lim, at in (("1.23", prod_all, 1.23 * 1.01, v["worst_all"][1]), ("1.135-from-100000-keys", prod_big, 1.135, v["worst_big"][1])):
            key = "%s:c*balance<=%s:%.5f" % (nm, lab, prod)
            ok = prod <= lim + 1e-12
            rr.ob(ok, key=key, sample={"impl": nm, "c": prod / K, "balance_tolerance": K, "product": prod, "at_n": at})
            if not ok:
                rr.violate(key, "%s: shards are sized for the largest one and try_seed accepts a largest shard of up to %.4g times the average: the space reaches %.4f * %.4g = %.5f n b at n = %s, above the documented %s" % (nm, K, prod / K, K, prod, at, lab.split("-")[0]), F.loc(node))


@rule("R11.10", props=["C11", "C07"], floor=8, title="the cell width of a function is the bit length of its largest value (evaluated: 1 -> 1, 3 -> 2, 255 -> 8, 256 -> 9 ...), the quantity the space bound n*b is stated in")
def r11_10(ctx, rr):
    """try_seed derives the width of the cells from the maximum value seen. One more bit for maxima of the form
    2^b - 1 (the `floor(lg(max + 1)) + 1` slip for a ceiling) keeps every answer right and costs n more bits per bit of
    width: 2.3 n b instead of 1.13 n b for one-bit values."""
    from r_ef import _ieval
    F = ctx.F()
    bs = [b for b in F.fns() if b.file.endswith("func/vbuilder.rs") and b.name == "try_seed"]
    if len(bs) != 1:
        raise AnchorMissing("VBuilder::try_seed not found")
    b = bs[0]
    # the width derived from the values: the quantity whose excess over the requested width is ValueTooLarge
    cands = []

    from r_guards import simple_env
    T = simple_env(F, b)
    tests = [(n, n["c"], n["th"]) for n in walk(b.body) if n.get("k") == "If"]
    # ... or a guarded match arm (`Some(w) if derived > w => return Err(ValueTooLarge)`)
    tests += [(m, a["guard"], a["body"]) for m in walk(b.body) if m.get("k") == "Match" for a in m.get("arms", []) if "guard" in a]
    for n, c, th in tests:
        if any("ValueTooLarge" in (F.defpath(x) or "") for x in walk(th) if x.get("k") == "Path"):
            if c.get("k") == "Binary" and c["op"] in (">", "<", ">=", "<="):
                for side in (c["l"], c["r"]):
                    t = T.term(side)
                    if mentions(t, lambda x: x[0] == "call"):
                        cands.append((n, t))
    if len(cands) != 1:
        raise AnchorMissing("try_seed: expected one test of the derived width against the requested one before ValueTooLarge, found %d" % len(cands))
    node, t = cands[0]
    vars_ = sorted(set(x for x in subterms(t) if x[0] == "var"), key=repr)
    if len(vars_) != 1:
        raise AnchorMissing("try_seed: the derived width `%s` does not depend on exactly one quantity" % tshow(t)[:80])
    mv = vars_[0]

    def ev(x, val):
        if x == mv:
            return val
        if x[0] == "call":
            nm = x[1].split("::")[-1]
            args = [ev(a, val) for a in x[2]]
            if None in args:
                return None
            if nm in ("upcast", "cast", "into", "from", "to_usize", "downcast") and len(args) == 1:
                return args[0]
            if nm == "len" and len(args) == 1:
                return int(args[0]).bit_length()      # UnsignedInt::len: number of bits needed (0 for 0)
            if nm == "ilog2" and len(args) == 1:
                return None if args[0] <= 0 else int(args[0]).bit_length() - 1
            if nm == "leading_zeros" and len(args) == 1:
                return 64 - int(args[0]).bit_length()
            if nm == "next_power_of_two" and len(args) == 1:
                return 1 if args[0] <= 1 else 1 << (int(args[0]) - 1).bit_length()
            if nm == "trailing_zeros" and len(args) == 1:
                return (int(args[0]) & -int(args[0])).bit_length() - 1 if args[0] else 64
            return None
        if x[0] == "cast":
            return ev(x[2], val)
        if x[0] == "op" and len(x) == 4:
            a, c = ev(x[2], val), ev(x[3], val)
            if a is None or c is None:
                return None
            return _ieval(("op", x[1], ("int", a), ("int", c)), {})
        if x[0] == "def" and x[1].endswith("BITS"):
            return 64
        return _ieval(x, {})
    reported = []
    for val in (1, 2, 3, 4, 7, 8, 255, 256, (1 << 32) - 1, 1 << 32):
        got = ev(t, val)
        rr.instances += 1
        want = int(val).bit_length()
        key = "try_seed:value-width(%d)" % val
        rr.ob(got == want, key=key, sample={"width expression": tshow(t)[:100], "max value": val, "width": got, "bit length": want})
        if got != want and not reported:
            reported.append(val)
            rr.violate("try_seed:value-width", "try_seed derives the cell width `%s`, which is %s for a largest value of %d; its bit length is %d: every cell carries the difference, and the space bound n*b (b the bit length of the largest value) is exceeded by that factor" % (tshow(t)[:80], got, val, want), F.loc(node))
