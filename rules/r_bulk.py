"""C10 bulk operations: copy clamp and shifted-copy flow (R10.1, R10.2), chunk views (R10.4),
byte/bit units of unaligned reads (R10.5), loops bounded by the logical length (R14.3),
shifts by the full width (R05.4)."""
import re
from framework import rule
from guards import is_derived
from r_guards import short_fn
from r_ef import make_inliner, struct_literal_fields
from r_bits import VEC_ADTS, vec_params
from sym import *  # noqa
from ir import *  # noqa


def min_leaves(t):
    if t[0] == "op" and t[1] == "min":
        return min_leaves(t[2]) + min_leaves(t[3])
    return [t]


@rule("R10.1", props=["C10", "C14"], floor=3, title="copy clamps len by both vectors (dst.len - to, src.len - from) before any index is formed; widths asserted equal")
def r10_1(ctx, rr):
    F = ctx.F()
    b = F.one(r"^<bits::bit_field_vec::BitFieldVec<W, B> as traits::bit_field_slice::BitFieldSliceMut<W>>::copy$")
    P = [("var", p["name"], p["id"]) for p in b.params]
    slf, frm, dst, to, ln = P
    clamp = []
    first_index = []
    order = []

    def on_node(W, n, K):
        if n.get("k") == "LetStmt":
            return
        if n.get("k") == "Index" and not first_index:
            first_index.append(n)
    # the local `len` shadowing the parameter: find its initializer term
    W = Walker(F, b, on_node=on_node)
    clamp_t = None
    for st in b.body["stmts"]:
        if st.get("k") == "LetStmt" and st["pat"].get("k") == "PBind" and st["pat"]["name"] == ln[1] and "init" in st:
            clamp_t = Termizer(F, b).term(st["init"])
            break
    rr.instances += 1
    want = sorted(map(repr, [ln, mk_op("-", ("field", dst, "len"), to), mk_op("-", ("field", slf, "len"), frm)]))
    got = sorted(map(repr, min_leaves(clamp_t))) if clamp_t else []
    rr.check(got == want, "BitFieldVec::copy:clamp", "copy must clamp the number of elements to min(len, dst.len - to, self.len - from) (destination position with the destination length, source position with the source length); found min over %s" % ([tshow(x) for x in min_leaves(clamp_t)] if clamp_t else None), b.span)
    # the clamped len is what every later size computation uses: bit_len = len' * bit_width
    W.run()
    uses_param = False
    seen_clamp = False
    for st in b.body["stmts"]:
        if st.get("k") == "LetStmt" and st["pat"].get("name") == ln[1]:
            seen_clamp = True
            continue
        if seen_clamp:
            for x in walk(st):
                if x.get("k") == "Path" and x.get("res") == "local" and x.get("id") == b.params[4]["id"]:
                    uses_param = True
    rr.instances += 1
    rr.check(seen_clamp and not uses_param, "BitFieldVec::copy:uses-clamped-len", "after the clamp copy must not use the unclamped `len` parameter", b.span)
    # widths asserted equal
    asserts = [n for n in walk(b.body) if n.get("k") == "If" and diverges(F, n["th"]) and not is_debug_only(F, n)]
    m = [n for n in walk(b.body) if n.get("k") == "Match" and "bit_width" in show(F, n["e"]) and any(is_panic_call(F, x) for x in walk(n))]
    rr.instances += 1
    rr.check(bool(m), "BitFieldVec::copy:widths-equal", "copy must assert that source and destination have the same bit width", b.span)


@rule("R10.2", props=["C10"], floor=6, title="copy: when source and destination bit offsets differ, every source word reaches the destination through a shift by their difference")
def r10_2(ctx, rr):
    F = ctx.F()
    b = F.one(r"^<bits::bit_field_vec::BitFieldVec<W, B> as traits::bit_field_slice::BitFieldSliceMut<W>>::copy$")
    P = [("var", p["name"], p["id"]) for p in b.params]
    slf, frm, dst, to, ln = P
    src_be = ("field", slf, "bits")
    dst_be = ("field", dst, "bits")
    stores = []

    def on_node(W, n, K):
        if n.get("k") in ("Assign", "AssignOp") and n["l"].get("k") == "Index":
            base = W.T.term(n["l"]["e"])
            if base == dst_be:
                rt = W.expand(W.T.term(n["r"]))
                stores.append((n, rt, K.copy(), W))
    W = Walker(F, b, on_node=on_node)
    W.run()
    # src_bit / dst_bit terms
    def bit_of(v, pos):
        return mk_op("%", mk_op("*", pos, ("field", v, "bit_width")), ("def", "common_traits::AsBytes::BITS"))
    sb, db = bit_of(slf, frm), bit_of(dst, to)
    n_shifted = 0
    for n, rt, K, Wk in stores:
        if not K.entails(atom_ne(sb, db)):
            continue
        # only the multi-word branches (first three branches handle single-word spans with their own shifts)
        n_shifted += 1
        reads = [x for x in subterms(rt) if x[0] == "index" and x[1] == src_be]
        if not reads:
            rr.ob(True, key="copy:shifted-store:carry-only", nontrivial=False)
            continue
        bad = []
        for r in set(reads):
            # every occurrence of r must sit under a shift whose amount depends on both bit offsets
            if not all_under_shift(rt, r, lambda amt: mentions(amt, lambda y: y == sb) and mentions(amt, lambda y: y == db)):
                # the first word of each branch is shifted by the offsets themselves (>> src_bit then << dst_bit) -- accept
                if not all_under_shift(rt, r, lambda amt: mentions(amt, lambda y: y == sb) or mentions(amt, lambda y: y == db)):
                    bad.append(r)
        rr.instances += 1
        key = "BitFieldVec::copy:shifted-store"
        rr.ob(not bad, key=key + str(len(stores)), sample={"store": show(F, n)[:120], "value": tshow(rt)[:200]})
        if bad:
            branch = "src_bit<dst_bit" if K.entails(atom_le(sb, db, True)) else "src_bit>dst_bit"
            rr.violate("BitFieldVec::copy:%s:unshifted-source-word" % branch, "copy, branch %s: `%s` stores the source word `%s` without shifting it by the difference of the bit offsets: the copied elements are misaligned" % (branch, show(F, n)[:120], tshow(bad[0])[:120]), F.loc(n))
    if n_shifted < 6:
        raise AnchorMissing("copy: expected at least 6 destination stores in the branches with different bit offsets, found %d" % n_shifted)


def all_under_shift(t, target, amt_ok):
    """every occurrence of `target` inside t lies under a << or >> whose amount satisfies amt_ok"""
    def rec(x, shifted):
        if x == target:
            return shifted
        if not isinstance(x, tuple):
            return True
        if x and x[0] == "op" and x[1] in ("<<", ">>"):
            return rec(x[2], shifted or amt_ok(x[3])) and rec(x[3], shifted)
        return all(rec(y, shifted) for y in x if isinstance(y, tuple))
    return rec(t, False)


@rule("R10.4", props=["C10", "C12"], floor=5, title="try_chunks_mut yields word-aligned views over exactly the logical contents")
def r10_4(ctx, rr):
    F = ctx.F()
    inl = ctx.memo("inliner", lambda: make_inliner(F))
    b = F.one(r"^<bits::bit_field_vec::BitFieldVec<W, B> as traits::bit_field_slice::BitFieldSliceMut<W>>::try_chunks_mut$")
    slf = ("var", "self", b.params[0]["id"])
    cs = ("var", b.params[1]["name"], b.params[1]["id"])
    ln = ("field", slf, "len")
    bw = ("field", slf, "bit_width")
    BITS = ("def", "common_traits::AsBytes::BITS")
    lits = []
    conds = []

    def on_node(W, n, K):
        if n.get("k") == "Struct" and (F.defpath(n) or "").endswith("ChunksMut"):
            lits.append(({f["name"]: W.T.term(f["e"]) for f in n["fields"]}, K.copy(), n))
    W = Walker(F, b, on_node=on_node, inline=inl)
    W.run()
    if len(lits) != 1:
        raise AnchorMissing("try_chunks_mut: expected one ChunksMut literal")
    L, K, node = lits[0]
    rr.instances += 1
    rr.check(L.get("remaining") == ln and L.get("bit_width") == bw and L.get("chunk_size") == cs, "try_chunks_mut:fields", "ChunksMut must start with remaining = len, the vector's bit width and the requested chunk size; found %s" % {k: tshow(v)[:60] for k, v in L.items() if k != "iter"}, F.loc(node))
    it = L.get("iter", ("unk", "?"))
    words_total = ("call", "int::div_ceil", (mk_op("*", ln, bw), BITS))
    words_chunk = ("call", "int::div_ceil", (mk_op("*", cs, bw), BITS))
    ok_slice = mentions(it, lambda x: x[0] == "index" and x[1] == ("field", slf, "bits") and x[2][0] == "struct" and dict(x[2][2]).get("end") == words_total)
    rr.instances += 1
    rr.check(ok_slice, "try_chunks_mut:backend-slice", "the backend must be restricted to its first ceil(len * bit_width / BITS) words before it is chunked (spare words would yield extra, empty views); found %s" % tshow(it)[:200], F.loc(node))
    ok_chunk = it[0] == "call" and it[1].endswith("chunks_mut") and it[2][-1] == words_chunk
    rr.instances += 1
    rr.check(ok_chunk, "try_chunks_mut:words-per-chunk", "each chunk must have ceil(chunk_size * bit_width / BITS) words; found %s" % tshow(it)[:200], F.loc(node))
    # slice::chunks_mut panics on a chunk size of 0: the words per chunk must be known to be positive
    rr.instances += 1
    pos_ok = K.entails(atom_ne(bw, ("int", 0))) and K.entails(atom_ne(cs, ("int", 0)))
    rr.ob(pos_ok, key="try_chunks_mut:chunk-words-positive", sample={"established": K.show()[:6]})
    if not pos_ok:
        rr.violate("try_chunks_mut:chunk-words-positive", "try_chunks_mut hands ceil(chunk_size * bit_width / BITS) to slice::chunks_mut without excluding 0: with bit width 0 (or chunk size 0) `chunks_mut` panics (\"chunk size must be non-zero\") instead of try_chunks_mut returning Ok or Err", F.loc(node))
    # success condition: len <= chunk_size || (chunk_size * bit_width) % BITS == 0
    ifs = [n for n in walk(b.body) if n.get("k") == "If"]
    ok_c = False
    for n in ifs:
        c = n["c"]
        if c.get("k") == "Binary" and c["op"] == "||":
            T = W.T
            la = cond_atoms(T, c["l"], True)
            ra = cond_atoms(T, c["r"], True)
            a1 = [atom_le(ln, cs)]
            a2 = cmp_atoms("==", mk_op("%", mk_op("*", cs, bw), BITS), ("int", 0))
            if (la == a1 and ra == a2) or (la == a2 and ra == a1):
                ok_c = any(x is lits[0][2] for x in walk(n["th"]))
    if not ok_c:
        # decided on the facts that hold where the views are created (an early `return Err(())` under the negated test
        # leaves exactly this disjunction behind): in every case, len <= chunk_size or the chunk is a whole number of words
        a1 = atom_le(ln, cs)
        a2s = cmp_atoms("==", mk_op("%", mk_op("*", cs, bw), BITS), ("int", 0))
        try:
            ok_c = all(kc.entails(a1) or all(kc.entails(a) for a in a2s) for kc in K.cases())
        except Exception:
            ok_c = False
    rr.instances += 1
    rr.check(ok_c, "try_chunks_mut:condition", "try_chunks_mut may succeed only when len <= chunk_size or chunk_size * bit_width is a multiple of the word size (chunks must start at word boundaries)", b.span)
    nb = F.one(r"^<bits::bit_field_vec::ChunksMut<'a, W> as std::iter::Iterator>::next$")
    s = ("var", "self", nb.params[0]["id"])
    calls = []
    decs = []

    def on_next(Wk, n, K):
        if cname(F, n) == "BitFieldVec::from_raw_parts":
            calls.append([Wk.T.term(a) for a in n["args"]])
        if n.get("k") == "AssignOp" and n["op"] == "-=" and Wk.T.term(n["l"]) == ("field", s, "remaining"):
            decs.append(Wk.T.term(n["r"]))
    Walker(F, nb, on_node=on_next).run()
    size = mk_op("min", ("field", s, "chunk_size"), ("field", s, "remaining"))
    rr.instances += 1
    rr.check(len(calls) == 1 and calls[0][1] == ("field", s, "bit_width") and calls[0][2] == size and decs == [size], "ChunksMut::next:size", "each view must have min(chunk_size, remaining) elements of the vector's width, and remaining must decrease by that amount", nb.span)


@rule("R10.5", props=["C10", "C12"], floor=3, title="get_unaligned: byte offset = bit position / 8, in-byte shift = bit position % 8, bound check on the same expression")
def r10_5(ctx, rr):
    F = ctx.F()
    u = F.one(r"^bits::bit_field_vec::BitFieldVec::<W, B>::get_unaligned_unchecked$")
    slf = ("var", "self", u.params[0]["id"])
    idx = ("var", u.params[1]["name"], u.params[1]["id"])
    start_bit = mk_op("*", idx, ("field", slf, "bit_width"))
    adds = []

    def on_node(W, n, K):
        if n.get("k") == "MethodCall" and n["name"] == "add" and (cname(F, n) or "").startswith("ptr::"):
            adds.append((W.T.term(n["args"][0]), F.ty(n["recv"])))
    W = Walker(F, u, on_node=on_node)
    W.run()
    rr.instances += 1
    ok = len(adds) == 1 and adds[0][0] == mk_op("/", start_bit, ("int", 8)) and "u8" in adds[0][1]
    rr.check(ok, "get_unaligned_unchecked:byte-offset", "the offset added to the `*const u8` base pointer must be the bit position divided by 8 (bits per byte), whatever the word type; found %s on a %s" % (tshow(adds[0][0]) if adds else None, adds[0][1] if adds else None), u.span)
    t = W.T.term(u.body.get("expr"))
    rr.instances += 1
    ok = t[0] == "op" and t[1] == "&" and ("field", slf, "mask") in (t[2], t[3]) and mentions(t, lambda x: x[0] == "op" and x[1] == ">>" and x[3] == mk_op("%", start_bit, ("int", 8)))
    rr.check(ok, "get_unaligned_unchecked:in-byte-shift", "the unaligned word must be shifted right by the bit position modulo 8 and masked with the field mask; found %s" % tshow(t)[:200], u.span)
    g = F.one(r"^bits::bit_field_vec::BitFieldVec::<W, B>::get_unaligned$")
    gs = ("var", "self", g.params[0]["id"])
    gi = ("var", g.params[1]["name"], g.params[1]["id"])
    T = Termizer(F, g)
    ok = False
    for n in walk(g.body):
        if n.get("k") == "If" and diverges(F, n["th"]) and not is_debug_only(F, n):
            for a in cond_atoms(T, n["c"], False):
                if a[0] == "le" and mentions(a[1], lambda x: x == mk_op("/", mk_op("*", gi, ("field", gs, "bit_width")), ("int", 8))):
                    # the bytes read are those of one word of *this* vector: `+ W::BYTES` (no literal), against
                    # `backend words * W::BYTES`
                    is_bytes = lambda x: x[0] == "def" and x[1].endswith("BYTES")
                    ok = a[3] == 0 and mentions(a[1], is_bytes) and mentions(a[2], is_bytes)
    rr.instances += 1
    rr.check(ok, "get_unaligned:bound-in-bytes", "get_unaligned must check `index * bit_width / 8 + W::BYTES <= backend words * W::BYTES`: the same byte offset the read uses and the size of one word of this vector's type (a literal is right for one word type only)", g.span)
    # new_unaligned pads one word (R11.4) and the admissible widths are asserted
    rr.instances += 1
    asserts = [show(F, n["c"]) for n in walk(g.body) if n.get("k") == "If" and diverges(F, n["th"]) and not is_debug_only(F, n)]
    rr.check(any("self.bit_width <= ((AsBytes::BITS - 8) + 2)" in a for a in asserts), "get_unaligned:width-asserted", "get_unaligned must assert the admissible widths (<= W::BITS - 6, W::BITS - 4, W::BITS)", g.span)


@rule("R14.3", props=["C14", "C10"], floor=10, title="mutating methods of the packed vectors bound their loops and store indices by the logical length, not by the backend length")
def r14_3(ctx, rr):
    F = ctx.F()
    targets = [b for b in F.fns() if not is_derived(b) and b.impl_adt in VEC_ADTS and b.sig_in and b.sig_in[0].startswith("&mut")]
    if len(targets) < 10:
        raise AnchorMissing("expected at least 10 `&mut self` methods on the packed vector types, found %d" % len(targets))
    for b in targets:
        slf = ("var", "self", b.params[0]["id"])
        be_len = ("call", "len", (("field", slf, "bits"),))
        hits = []

        def tainted(t):
            return mentions(t, lambda x: x == be_len)

        def on_node(W, n, K, hits=hits):
            if W.debug_depth:
                return
            k = n.get("k")
            if k == "Struct":
                r = range_of(F, n)
                if r is not None:
                    for e in (r[0], r[1]):
                        if e is not None and tainted(W.expand(W.T.term(e))):
                            hits.append((n, "loop/range bound `%s`" % show(F, n)[:80]))
            if k == "Assign" and n["l"].get("k") in ("Index", "Unary"):
                l = n["l"]
                while l.get("k") == "Unary":
                    l = l["e"]
                idx = None
                if l.get("k") == "Index":
                    idx = l["i"]
                elif l.get("k") == "MethodCall" and l["name"] == "get_unchecked_mut":
                    idx = l["args"][0]
                if idx is not None and tainted(W.expand(W.T.term(idx))):
                    hits.append((n, "store index `%s`" % show(F, idx)[:80]))
        Walker(F, b, on_node=on_node).run()
        rr.instances += 1
        key = "%s:backend-length-bounds" % short_fn(b.key)
        rr.ob(not hits, key=key, nontrivial=bool(hits))
        if hits:
            rr.violate(key, "%s derives a %s from the length of the backend rather than from len * bit_width: spare words of the backend are visited (the function is applied to / overwrites storage outside the logical contents)" % (b.key, hits[0][1]), F.loc(hits[0][0]), {"all": [h[1] for h in hits]})


SHIFT_METHODS = {"checked_shr": True, "checked_shl": True, "wrapping_shr": False, "wrapping_shl": False,
                 "overflowing_shr": False, "overflowing_shl": False, "unchecked_shr": False, "unchecked_shl": False}


@rule("R05.4", props=["C05"], floor=4, title="plain shifts by the bit width (range 0..=BITS) are guarded against the full width")
def r05_4(ctx, rr):
    """A `<<`/`>>`/`<<=`/`>>=` whose amount is the bit width itself overflows when bit_width == W::BITS
    (debug panic, wrong value in release). Required: a dominating `bit_width != BITS`."""
    F = ctx.F()
    bodies = [b for b in F.fns() if not is_derived(b) and b.file.endswith("bits/bit_field_vec.rs")]
    inl = ctx.memo("inliner", lambda: make_inliner(F))
    for b in bodies:
        hits = []

        def is_width0(t):
            return (t[0] == "field" and t[2] == "bit_width") or (t[0] == "call" and t[1].endswith("::bit_width"))

        def is_width(t):
            # bit_width, or bit_width - e with e a quantity that can be 0 (the number of buffered bits)
            return is_width0(t) or (t[0] == "op" and t[1] == "-" and is_width0(t[2]) and t[3][0] == "field" and t[3][2] == "fill")

        def on_node(W, n, K, hits=hits):
            k = n.get("k")
            if k in ("Binary", "AssignOp") and n["op"] in ("<<", ">>", "<<=", ">>="):
                amt = W.expand(W.T.term(n["r"]))
                if is_width(amt):
                    BITS = ("def", "common_traits::AsBytes::BITS")
                    w = amt if is_width0(amt) else amt[2]
                    guarded = K.entails(atom_ne(w, BITS)) or K.entails(atom_le(w, BITS, True))
                    hits.append((n, guarded, W.debug_depth > 0))
            elif k == "MethodCall" and n.get("name") in SHIFT_METHODS and n.get("args"):
                # the method forms: checked_* yields None at the full width (the caller supplies the value),
                # wrapping_/overflowing_/unchecked_ reduce the amount modulo BITS (same defect as the plain shift)
                amt = W.expand(W.T.term(n["args"][0]))
                if is_width(amt):
                    BITS = ("def", "common_traits::AsBytes::BITS")
                    w = amt if is_width0(amt) else amt[2]
                    guarded = SHIFT_METHODS[n["name"]] or K.entails(atom_ne(w, BITS)) or K.entails(atom_le(w, BITS, True))
                    hits.append((n, guarded, W.debug_depth > 0))
        Walker(F, b, on_node=on_node, inline=inl).run()
        if not hits:
            continue
        for n, guarded, dbg in hits:
            if dbg:
                continue
            rr.instances += 1
            key = "%s:shift-by-width" % short_fn(b.key)
            rr.ob(guarded, key=key + str(guarded), sample={"fn": b.key, "shift": show(F, n)[:100], "guarded": guarded})
            if not guarded:
                rr.violate(key, "%s shifts by the bit width (`%s`) without excluding bit_width == W::BITS: at full width the shift overflows (panic in debug builds, unspecified value in release)" % (b.key, show(F, n)[:100]), F.loc(n))


def expand_atom(W, a):
    if a[0] == "or":
        return ("or", tuple(tuple(expand_atom(W, x) for x in alt) for alt in a[1]))
    if a[0] in ("le", "ne"):
        return (a[0], W.expand(a[1]), W.expand(a[2])) + tuple(a[3:])
    return a


def flat_atoms(atoms):
    for a in atoms:
        if a[0] == "or":
            for alt in a[1]:
                yield from flat_atoms(alt)
        else:
            yield a


@rule("R05.8", props=["C05"], floor=3, title="assertions on the bit width admit the whole domain 0..=W::BITS (none narrower than bit_width <= BITS)")
def r05_8(ctx, rr):
    """Every width from 0 to the word size is legal. An assertion (release or debug) in bit_field_vec.rs whose
    condition relates only the bit width and W::BITS must therefore be implied by bit_width <= BITS.
    Exception: the *_unaligned accessors, whose documented contract restricts the width."""
    F = ctx.F()
    BITS = ("def", "common_traits::AsBytes::BITS")
    bodies = [b for b in F.fns() if not is_derived(b) and b.file.endswith("bits/bit_field_vec.rs") and "unaligned" not in b.key]

    def is_width0(t):
        return (t[0] == "field" and t[2] == "bit_width") or (t[0] == "var" and t[1] == "bit_width") or (t[0] == "call" and t[1].endswith("::bit_width"))

    def only_width_and_bits(a):
        if a[0] == "or":
            return all(all(only_width_and_bits(x) for x in alt) for alt in a[1])
        if a[0] not in ("le", "ne"):
            return False
        A, B = a[1], a[2]
        return (is_width0(A) and B == BITS) or (is_width0(B) and A == BITS)

    for b in bodies:
        hits = []

        def on_node(W, n, K, hits=hits):
            if n.get("k") == "If" and diverges(F, n["th"]) and not ("el" in n and diverges(F, n["el"])):
                pas = [expand_atom(W, a) for a in cond_atoms(W.T, n["c"], False)]
                if pas and all(only_width_and_bits(a) for a in pas):
                    ws = [x for a in flat_atoms(pas) for x in (a[1], a[2]) if is_width0(x)]
                    K0 = Known([atom_le(ws[0], BITS)])
                    hits.append((n, all(K0.entails(a) for a in pas)))
        Wk = Walker(F, b)
        Wk.on_if = on_node
        Wk.run()
        for n, ok in hits:
            rr.instances += 1
            key = "%s:width-domain" % short_fn(b.key)
            rr.ob(ok, key=key, sample={"fn": b.key, "assert": show(F, n["c"])[:100]})
            if not ok:
                rr.violate(key, "%s asserts `%s` on the bit width: the condition fails for a legal width in 0..=W::BITS (the operation panics, in debug builds at least, instead of behaving like a vector of W::BITS-bit values)" % (b.key, show(F, n["c"])[:100]), F.loc(n))


@rule("R10.7", props=["C10", "C12"], floor=6, title="apply_in_place_unchecked: every unchecked backend access is below the number of words holding the contents (non-empty and non-zero width established first)")
def r10_7(ctx, rr):
    """The function is reached from the safe apply_in_place for every vector state. Its unchecked accesses
    use the indices 0, read_idx in 1..NW, read_idx - 1, word_number(+1) with word_number < NW - 1 and
    NW.saturating_sub(1), with NW = ceil(len * bit_width / BITS) (or the backend length). All are below NW
    provided NW >= 1, i.e. provided the early returns for an empty vector and for bit width 0 come first."""
    F = ctx.F()
    b = F.one(r"^<bits::bit_field_vec::BitFieldVec<W, B> as traits::bit_field_slice::BitFieldSliceMut<W>>::apply_in_place_unchecked$")
    inl = ctx.memo("inliner", lambda: make_inliner(F))
    slf = ("var", "self", b.params[0]["id"])
    be = ("field", slf, "bits")

    def is_nw(t):
        if t[0] == "call" and t[1].endswith("div_ceil") and len(t[2]) == 2 and is_bits(t[2][1]):
            a = t[2][0]
            return a[0] == "op" and a[1] == "*" and {a[2], a[3]} == {("field", slf, "bit_width"), ("field", slf, "len")}
        if t[0] == "call" and t[1].endswith("len") and len(t[2]) == 1 and mentions(t[2][0], lambda x: x == be):
            return True
        return False

    def is_last(t):
        return t[0] == "call" and t[1].endswith("saturating_sub") and len(t[2]) == 2 and t[2][1] == ("int", 1) and is_nw(t[2][0])

    def is_bits(t):
        return t[0] == "def" and t[1].endswith("BITS")

    sites = []
    state = {"nonempty": None}

    def on_node(W, n, K):
        if n.get("k") != "MethodCall" or n["name"] not in ("get_unchecked", "get_unchecked_mut") or W.debug_depth:
            return
        if not mentions(W.T.term(n["recv"]), lambda x: x == be):
            return
        if state["nonempty"] is None:
            ne_len = any(a[0] == "b" and a[2] is False and a[1][0] == "call" and a[1][1].endswith("is_empty") and a[1][2] == (slf,) for a in K.atoms) or K.entails(atom_ne(("field", slf, "len"), ("int", 0)))
            ne_bw = K.entails(atom_ne(("field", slf, "bit_width"), ("int", 0)))
            state["nonempty"] = (ne_len, ne_bw)
        nonempty = all(state["nonempty"])
        raw = W.T.term(n["args"][0])
        idx = W.expand(raw)
        ok = False
        how = ""
        if idx == ("int", 0) or is_last(idx):
            ok = nonempty
            how = "needs NW >= 1 (vector not empty: %s, bit width not 0: %s before the first access)" % state["nonempty"]
        else:
            cands = set()
            for a in K.atoms:
                if a[0] == "le":
                    cands.add(a[1])
                    cands.add(a[2])
            for X in cands:
                Xe = W.expand(X)
                if is_nw(Xe) and K.entails(atom_le(raw, X, True)):
                    ok = True
                elif is_last(Xe) and nonempty and K.entails(atom_le(raw, X)):
                    ok = True
            how = "needs index < NW from the loop bounds"
        sites.append((n, ok, how, tshow(idx)[:80], K.show()[:8]))
    Walker(F, b, on_node=on_node, inline=inl).run()
    for n, ok, how, idx, known in sites:
        rr.instances += 1
        key = "apply_in_place_unchecked:backend-index-below-word-count:%s" % show(F, n["args"][0])[:40]
        rr.ob(ok, key=key, sample={"site": show(F, n)[:80], "index": idx, "rule": how})
        if not ok:
            rr.violate(key, "apply_in_place_unchecked (reached from the safe apply_in_place for every vector) accesses the backend with `%s` (index %s) and the index is not established to be below the number of words holding the contents: %s; established: %s" % (show(F, n)[:80], idx, how, "; ".join(known) or "nothing"), F.loc(n))


@rule("R14.4", props=["C14", "C10"], floor=2, title="apply_in_place_unchecked: the store into the last word keeps the bits that follow the last element")
def r14_4(ctx, rr):
    """The write buffer holds only elements; assigning it to the last word clears the bits between
    len * bit_width and the end of that word. The stored value must be `write_buffer | (old & (MAX << r))`
    (r = len * bit_width % BITS; nothing to keep when r == 0)."""
    F = ctx.F()
    b = F.one(r"^<bits::bit_field_vec::BitFieldVec<W, B> as traits::bit_field_slice::BitFieldSliceMut<W>>::apply_in_place_unchecked$")
    inl = ctx.memo("inliner", lambda: make_inliner(F))
    slf = ("var", "self", b.params[0]["id"])
    be = ("field", slf, "bits")
    stores = []

    def is_last(t):
        return t[0] == "call" and t[1].endswith("saturating_sub") and len(t[2]) == 2 and t[2][1] == ("int", 1)

    def on_node(W, n, K):
        if n.get("k") == "Assign" and W.debug_depth == 0:
            l = n["l"]
            while l.get("k") == "Unary" and l.get("op") == "*":
                l = l["e"]
            if l.get("k") == "MethodCall" and l["name"] == "get_unchecked_mut" and mentions(W.T.term(l["recv"]), lambda x: x == be):
                idx = W.expand(W.T.term(l["args"][0]))
                if is_last(idx):
                    stores.append((n, canon_masks(W.expand(W.T.term(n["r"]))), idx))
    Walker(F, b, on_node=on_node, inline=inl).run()
    if len(stores) < 2:
        raise AnchorMissing("apply_in_place_unchecked: expected a store into the last word in each of the two paths, found %d" % len(stores))
    for n, t, idx in stores:
        rr.instances += 1
        ok = False
        why = tshow(t)[:200]
        # write_buffer | tail, tail = ite(r == 0, 0, old_last & !lowmask(r))
        if t[0] == "op" and t[1] == "|":
            for a, c in ((t[2], t[3]), (t[3], t[2])):
                if mentions(c, lambda x: x[0] == "un" and x[1] == "!" and x[2][0] == "lowmask") and mentions(c, lambda x: x[0] == "call" and x[1].endswith("get_unchecked") and mentions(x, lambda y: y == be)):
                    keep = [x for x in subterms(c) if x[0] == "un" and x[1] == "!" and x[2][0] == "lowmask"]
                    r = keep[0][2][1]
                    if r[0] == "op" and r[1] == "%" and mentions(r[2], lambda x: x == ("field", slf, "len")) and mentions(r[2], lambda x: x == ("field", slf, "bit_width")):
                        ok = True
        rr.ob(ok, key="apply_in_place_unchecked:last-word-keeps-tail", sample={"store": show(F, n)[:80], "value": why})
        if not ok:
            rr.violate("apply_in_place_unchecked:last-word-keeps-tail", "apply_in_place_unchecked overwrites the last word with `%s`: the bits of that word after the last element (storage outside the logical contents) are not preserved; expected `write_buffer | (old & (MAX << (len * bit_width %% BITS)))`" % why, F.loc(n))


@rule("R10.8", props=["C10"], floor=2, title="copy: in the multi-word branches the loop over the middle words covers exactly the destination words between the first and the last one")
def r10_8(ctx, rr):
    """A multi-word branch writes dest[F] (first word), dest[F + i] for i in lo..hi (middle words) and dest[L]
    (last word). Every word from F to L is written exactly when lo == 1 and F + hi == L: a loop bounded by the
    span of the *source* skips a destination word whenever the destination range touches one more word."""
    F = ctx.F()
    b = F.one(r"^<bits::bit_field_vec::BitFieldVec<W, B> as traits::bit_field_slice::BitFieldSliceMut<W>>::copy$")
    P = [("var", p["name"], p["id"]) for p in b.params]
    slf, frm, dst, to, ln = P
    dst_be = ("field", dst, "bits")
    stores = []

    def on_node(W, n, K):
        if n.get("k") in ("Assign", "AssignOp") and n["l"].get("k") == "Index" and W.T.term(n["l"]["e"]) == dst_be:
            stores.append((n, W.T.term(n["l"]["i"]), W.expand(W.T.term(n["l"]["i"])), K.copy()))
    Walker(F, b, on_node=on_node).run()
    pm = {id(n): ps for n, ps in walk_with_parents(b.body)}
    # group the stores by the innermost `if`-chain branch they belong to (the block that is a branch of an If)
    groups = {}
    for n, raw, t, K in stores:
        brs = [p for p in pm[id(n)] if p.get("k") == "Block" and any(q.get("k") == "If" and (q["th"] is p or q.get("el") is p) for q in pm[id(n)])]
        if not brs:
            continue
        # the outermost branch block below the if/else-if chain that is not itself just an else-if wrapper
        cand = [p for p in brs if not (len(p["stmts"]) == 0 and p.get("expr", {}).get("k") == "If")]
        groups.setdefault(id(cand[0]) if cand else id(brs[0]), []).append((n, raw, t, K))
    n_loops = 0
    for gid, sts in groups.items():
        in_loop = [(n, raw, t, K) for n, raw, t, K in sts if any(p.get("k") == "Loop" for p in pm[id(n)] if id(p) != gid and any(x is p for x in walk([q for q in pm[id(n)] if id(q) == gid][0])))]
        if not in_loop:
            continue
        flat = [(n, raw, t, K) for n, raw, t, K in sts if (n, raw, t, K) not in in_loop]
        flat_idx = []
        for _, _, t, _ in flat:
            if t not in flat_idx and not (t[0] == "struct"):
                flat_idx.append(t)
        for n, raw, t, K in in_loop:
            n_loops += 1
            rr.instances += 1
            ok = False
            why = "index %s" % tshow(t)[:80]
            # t = Fst + i with i bounded by the loop
            if t[0] == "op" and t[1] == "+":
                for base, iv in ((t[2], t[3]), (t[3], t[2])):
                    if iv[0] != "var" or base not in flat_idx:
                        continue
                    others = [x for x in flat_idx if x != base]
                    los = [a for a in K.atoms if a[0] == "le" and a[2] == iv and a[1][0] in ("int", "zero")]
                    his = [a for a in K.atoms if a[0] == "le" and a[1] == iv and a[3] <= -1]
                    lo_ok = K.entails(atom_le(("int", 1), iv))
                    hi_ok = any(mk_op("+", base, a[2]) == L or a[2] == mk_op("-", L, base) or K.entails(atom_le(mk_op("+", base, iv), L, True)) and not K.entails(atom_le(mk_op("+", base, iv), L, False)) is None for a in his for L in others)
                    exact = any(a[2] == mk_op("-", L, base) and a[3] == -1 for a in his for L in others)
                    ok = lo_ok and exact
                    why = "first word %s, loop variable bounded by %s, last word(s) %s" % (tshow(base)[:60], [tshow(a[2])[:60] for a in his], [tshow(x)[:60] for x in others])
            # ... or the loop variable is the word index itself, ranging exactly over first + 1 .. last
            if not ok and t[0] == "var":
                los = [a for a in K.atoms if a[0] == "le" and a[2] == t]
                his = [a for a in K.atoms if a[0] == "le" and a[1] == t and a[3] <= -1]
                for base in flat_idx:
                    for L in flat_idx:
                        if base == L:
                            continue
                        lo_exact = any((a[1] == base and a[3] == -1) or (mk_op("+", base, ("int", 1)) == a[1] and a[3] == 0) for a in los)
                        hi_exact = any(a[2] == L and a[3] == -1 for a in his)
                        if lo_exact and hi_exact:
                            ok = True
                why = "word index %s bounded below by %s and above by %s; masked words %s" % (tshow(t), [tshow(a[1])[:40] for a in los], [tshow(a[2])[:40] for a in his], [tshow(x)[:40] for x in flat_idx])
            key = "BitFieldVec::copy:middle-words-cover-destination"
            rr.ob(ok, key=key + str(n_loops))
            if not ok:
                rr.violate(key, "copy: the loop storing `%s` does not range over 1 .. (last destination word - first destination word): %s; a destination word between the first and the last is never written when the destination range touches one more word than the source range" % (show(F, n)[:80], why), F.loc(n))
    if n_loops < 2:
        raise AnchorMissing("copy: expected the two middle-word loops of the misaligned multi-word branches, found %d" % n_loops)


@rule("R10.9", props=["C10", "C05"], floor=2, title="apply_in_place_unchecked: every way out of the function other than for an empty vector has applied f in a loop (zero-width vectors included: f is called once per element even when nothing is stored)")
def r10_9(ctx, rr):
    """apply_in_place(f) is documented as: call f once per element, in order. An early return taken for a reason
    other than `len == 0` (bit width 0, a fast path) that does not run a loop calling f first silently skips the
    calls -- invisible in the stored values when the width is 0, visible to every f with an effect."""
    F = ctx.F()
    b = F.one(r"^<bits::bit_field_vec::BitFieldVec<W, B> as traits::bit_field_slice::BitFieldSliceMut<W>>::apply_in_place_unchecked$")
    inl = ctx.memo("inliner", lambda: make_inliner(F))
    slf = ("var", "self", b.params[0]["id"])
    fpar = [p for p in b.params if p.get("k") == "PBind" and p.get("name") != "self"]
    if not fpar:
        raise AnchorMissing("apply_in_place_unchecked: no function parameter")
    fid = fpar[0]["id"]
    pm = {id(n): ps for n, ps in walk_with_parents(b.body)}

    def calls_f(e):
        return any(x.get("k") == "Call" and isinstance(x.get("f"), dict) and x["f"].get("k") == "Path" and x["f"].get("id") == fid for x in walk(e))

    def loop_with_f_before(n):
        # a loop calling f among the statements that precede n in one of the blocks enclosing it
        anc = list(pm.get(id(n), ())) + [n]
        for i, p in enumerate(anc[:-1]):
            if p.get("k") == "Block":
                for st in p.get("stmts", []):
                    if st is anc[i + 1] or any(x is anc[i + 1] for x in walk(st)):
                        break
                    if any(is_loop_with_f(x) for x in walk(st)):
                        return True
        return False

    def is_loop_with_f(x):
        # a loop, or an internal iteration (`(0..len).for_each(|_| { f(..); })`), whose body calls f
        if x.get("k") == "Loop":
            return calls_f(x)
        return x.get("k") == "MethodCall" and x["name"] in ("for_each", "try_for_each", "fold", "try_fold") and any(a.get("k") == "Closure" and calls_f(a) for a in x.get("args", []))
    exits = []

    def on_node(W, n, K):
        if n.get("k") == "Ret" and not W.debug_depth:
            empty = any(a[0] == "b" and a[2] is True and a[1][0] == "call" and a[1][1].endswith("is_empty") and a[1][2] == (slf,) for a in K.atoms) or \
                K.entails(atom_le(("field", slf, "len"), ("int", 0)))
            exits.append((n, empty or loop_with_f_before(n), K.show()))
    Walker(F, b, on_node=on_node, inline=inl).run()
    # the end of the body is an exit too: some loop calling f must exist at the top level of the function
    rr.instances += 1
    top = any(is_loop_with_f(x) for st in b.body.get("stmts", []) + ([b.body["expr"]] if "expr" in b.body else []) for x in walk(st))
    rr.check(top, "apply_in_place_unchecked:applies-f", "apply_in_place_unchecked has no loop applying f", b.span)
    if not exits:
        raise AnchorMissing("apply_in_place_unchecked: expected early returns (empty vector, zero width, power-of-two path)")
    for n, ok, known in exits:
        rr.instances += 1
        key = "apply_in_place_unchecked:exit-has-applied-f"
        rr.ob(ok, key=key, sample={"exit": F.loc(n), "established": known[:4]})
        if not ok:
            rr.violate(key, "apply_in_place_unchecked returns at %s without the vector being empty and without a preceding loop that calls f (established: %s): f must be called once per element, also when the bit width is 0 and nothing is stored" % (F.loc(n), "; ".join(known[:5]) or "nothing"), F.loc(n))


@rule("R14.11", props=["C14", "C10"], floor=3, title="BitFieldVec::copy: words of the destination are written whole only strictly between two words that the same branch updates under a mask (the first and the last word of the range keep their other bits)")
def r14_11(ctx, rr):
    """The destination range starts and ends inside words that also hold other elements (or the bits after the end of
    the vector): those two words are updated as `&= !mask; |= bits`. Every branch of copy writes whole words -- one by
    one in a loop, or with copy_from_slice -- only for the words strictly in between. A fast path that copies
    `first..=last` whole overwrites what follows the range in the last word."""
    F = ctx.F()
    b = F.one(r"^<bits::bit_field_vec::BitFieldVec<W, B> as traits::bit_field_slice::BitFieldSliceMut<W>>::copy$")
    pm = {id(n): ps for n, ps in walk_with_parents(b.body)}

    def branch_of(n):
        # the outermost if-branch block containing n (the arms of the case analysis on alignments)
        for p in pm.get(id(n), ()):
            if p.get("k") == "If":
                anc = list(pm.get(id(n), ())) + [n]
                i = [k for k, x in enumerate(anc) if x is p][0]
                return id(anc[i + 1]) if anc[i + 1] is not p.get("c") else None
        return None
    masked, whole = {}, []
    dest_terms = set()

    def base_is_dest(W, e):
        t = W.expand(W.T.term(e))
        return mentions(t, lambda x: x[0] == "field" and x[2] == "bits" and x[1][0] == "var" and x[1][1] != "self")

    def on_node(W, n, K):
        if W.debug_depth:
            return
        k = n.get("k")
        if k in ("AssignOp", "Assign") and n["l"].get("k") == "Index" and base_is_dest(W, n["l"]["e"]) and range_of(F, n["l"]["i"]) is None:
            idx = W.expand(W.T.term(n["l"]["i"]))
            if k == "AssignOp" and n["op"] in ("&=", "|=", "^="):
                masked.setdefault(branch_of(n), set()).add(idx)
            elif k == "Assign":
                whole.append((n, branch_of(n), ("one", idx, W.T.term(n["l"]["i"])), K.copy(), W))
        if k == "MethodCall" and n["name"] in ("copy_from_slice", "clone_from_slice", "fill", "copy_within") and n["recv"].get("k") == "Index" and base_is_dest(W, n["recv"]["e"]):
            r = range_of(F, n["recv"]["i"])
            if r is not None:
                lo, hi, incl = r
                whole.append((n, branch_of(n), ("range", W.expand(W.T.term(lo)) if lo is not None else None, W.expand(W.T.term(hi)) if hi is not None else None, incl), K.copy(), W))
            else:
                whole.append((n, branch_of(n), ("all",), K.copy(), W))
    Walker(F, b, on_node=on_node).run()
    if len(whole) < 3:
        raise AnchorMissing("copy: expected the whole-word writes of the three multi-word branches, found %d" % len(whole))

    def summands(t):
        if t[0] == "op" and t[1] == "+":
            return summands(t[2]) + summands(t[3])
        return [t]

    def strictly_above(idx, a, K):
        # idx = a + r with r >= 1 (or a < idx known outright)
        if K.entails(atom_le(a, idx, True)):
            return True
        s = summands(idx)
        sa = summands(a)
        rest = list(s)
        for x in sa:
            if x in rest:
                rest.remove(x)
            else:
                return False
        if not rest:
            return False
        if any(x[0] == "int" and x[1] >= 1 for x in rest):
            return True
        return len(rest) == 1 and K.entails(atom_le(("int", 1), rest[0]))

    def strictly_below(idx, a, bb, K):
        # idx = a + r with r < bb - a, or idx < bb known
        if K.entails(atom_le(idx, bb, True)):
            return True
        s = summands(idx)
        rest = list(s)
        for x in summands(a):
            if x in rest:
                rest.remove(x)
            else:
                return False
        if len(rest) != 1:
            return False
        return K.entails(atom_le(rest[0], mk_op("-", bb, a), True))
    for n, br, what, K, W in whole:
        rr.instances += 1
        # (masked updates common to all branches, written once outside the case analysis, count for each of them)
        M = sorted(set(masked.get(br, ())) | set(masked.get(None, ())), key=repr)
        ok = False
        if what[0] == "one":
            ok = any(strictly_above(what[1], a, K) and strictly_below(what[1], a, bb, K) for a in M for bb in M if a != bb)
        elif what[0] == "range":
            _, lo, hi, incl = what
            ok = lo is not None and hi is not None and not incl and any(strictly_above(lo, a, K) and (hi == bb or K.entails(atom_le(hi, bb))) for a in M for bb in M if a != bb)
        key = "BitFieldVec::copy:whole-words-strictly-inside"
        rr.ob(ok, key=key, sample={"write": show(F, n)[:80], "masked words of the branch": [tshow(x)[:40] for x in M]})
        if not ok:
            rr.violate(key, "copy writes `%s` whole, and it is not established that these words lie strictly between two words the same branch updates under a mask (masked words of the branch: %s): the first and the last word of the destination range also hold bits outside the range (following elements, or the bits after the end of the vector)" % (show(F, n)[:80], [tshow(x)[:40] for x in M] or "none"), F.loc(n))
