"""Packed-vector storage discipline: readers mask the partial last word (R06.1/R14.1), bulk writers
never touch storage outside len*width (R14.2), growth writes every new element (R05.2), sequential and
parallel siblings agree (R10.3), constructors allocate ceil(len*width/BITS) words (R11.4)."""
import re
from framework import rule
from guards import is_derived
from r_guards import short_fn
from r_ef import make_inliner, struct_literal_fields
from sym import *  # noqa
from sym import _is_one


def _width_mask_of(t):
    from r_guards import width_mask_of
    return width_mask_of(t)
from ir import *  # noqa

VEC_ADTS = ("bits::bit_vec::BitVec", "bits::bit_vec::AtomicBitVec", "bits::bit_field_vec::BitFieldVec", "bits::bit_field_vec::AtomicBitFieldVec")


def is_bits_def(t):
    return t[0] == "def" and t[1].endswith("BITS")


def vec_params(F, b):
    """[(var term, adt short name)] for parameters whose type is (a reference to) one of the packed vectors."""
    out = []
    for p, ty in zip(b.params, b.sig_in):
        if p.get("k") != "PBind":
            continue
        t = ty.lstrip("&").replace("mut ", "").strip()
        for adt in VEC_ADTS:
            if t.startswith(adt):
                out.append((("var", p["name"], p["id"]), adt.split("::")[-1]))
    return out


def bit_len_term(v, adt):
    ln = ("field", v, "len")
    if adt in ("BitVec", "AtomicBitVec"):
        return [ln]
    bw = ("field", v, "bit_width")
    return [mk_op("*", ln, bw)]


def is_backend(t, vecs):
    """t denotes the backend word slice of one of the vectors: v.bits (as_ref/as_mut erased) or v itself via AsRef."""
    for v, adt in vecs:
        if t == ("field", v, "bits") or t == v:
            return (v, adt)
    return None


class TailAnalysis:
    """Collects, for one function, every access to a vector backend and classifies it."""

    def __init__(self, ctx, b):
        self.F = ctx.F()
        self.b = b
        self.inl = ctx.memo("inliner", lambda: make_inliner(self.F))
        self.vecs = vec_params(self.F, b)
        self.problems = []   # (key suffix, message, loc)
        self.accesses = 0
        self.full_reads = 0
        self.last_reads = 0
        self.last_writes = 0
        self.pm = {}
        for n, ps in walk_with_parents(b.body):
            self.pm[id(n)] = ps

    def full_and_res(self, v, adt):
        out = []
        for X in bit_len_term(v, adt):
            out.append((X, None))
        return out

    def is_full_words(self, t, v, adt, K=None):
        """t == X / BITS where X is the bit length of v, or of another vector parameter whose
        length (and width) are known to equal v's on this path."""
        if not (t[0] == "op" and t[1] == "/" and is_bits_def(t[3])):
            return None
        if t[2] in bit_len_term(v, adt):
            return t[2], t[3]
        if K is not None:
            for u, uadt in self.vecs:
                if u == v or uadt != adt:
                    continue
                if t[2] in bit_len_term(u, uadt):
                    eq = K.entails(atom_le(("field", u, "len"), ("field", v, "len"))) and K.entails(atom_le(("field", v, "len"), ("field", u, "len")))
                    if eq and adt not in ("BitVec", "AtomicBitVec"):
                        eq = K.entails(atom_le(("field", u, "bit_width"), ("field", v, "bit_width"))) and K.entails(atom_le(("field", v, "bit_width"), ("field", u, "bit_width")))
                    if eq:
                        return t[2], t[3]
        return None

    def run(self):
        F = self.F
        b = self.b
        vecs = self.vecs
        A = self

        def on_node(W, n, K):
            if W.debug_depth:
                return
            k = n.get("k")
            if k == "Index":
                base = W.T.term(n["e"])
                hit = is_backend(base, vecs)
                if hit is None:
                    return
                v, adt = hit
                A.accesses += 1
                rng = range_of(F, n["i"])
                if rng is not None:
                    lo, hi, incl = rng
                    if lo is not None or hi is None or incl:
                        A.problems.append(("range", "backend slice `%s` is not of the form [..len*width/BITS]" % show(F, n)[:120], F.loc(n)))
                        return
                    ht = W.T.term(hi)
                    if A.is_full_words(ht, v, adt, K) is None:
                        A.problems.append(("range-end", "backend slice `%s` ends at `%s`, which is not the number of full words len*width/BITS: words beyond the logical contents are read or written" % (show(F, n)[:120], tshow(ht)), F.loc(n)))
                    else:
                        A.full_reads += 1
                    return
                it = W.T.term(n["i"])
                fw = A.is_full_words(it, v, adt, K)
                if fw is None:
                    # element-addressed access (index derived from an element index): not this rule's business
                    A.accesses -= 1
                    return
                X, B = fw
                res = mk_op("%", X, B)
                if not K.entails(atom_ne(res, ("int", 0))):
                    A.problems.append(("last-word-guard", "the partial last word `%s` is accessed without `len*width %% BITS != 0` established (out-of-bounds when the length is a multiple of the word size)" % show(F, n)[:120], F.loc(n)))
                A.classify_last_word(W, n, K, res, B)
            elif k in ("MethodCall", "Binary"):
                # whole-backend uses
                operands = []
                if k == "MethodCall" and n["name"] in ("iter", "iter_mut", "par_iter", "par_iter_mut", "fill", "copy_from_slice", "chunks", "into_iter"):
                    operands = [n["recv"]]
                elif k == "Binary" and n["op"] in ("==", "!="):
                    operands = [n["l"], n["r"]]
                for o in operands:
                    x = o
                    while x.get("k") in ("AddrOf",) or (x.get("k") == "Unary" and x["op"] == "*"):
                        x = x["e"]
                    if x.get("k") == "Index":
                        continue
                    t = W.T.term(o)
                    hit = is_backend(t, vecs)
                    explicit = x.get("k") == "Field" or (x.get("k") == "MethodCall" and x["name"] in ("as_ref", "as_mut", "as_slice", "as_mut_slice", "deref", "borrow"))
                    if hit is not None and (hit[0] != t or explicit):
                        A.accesses += 1
                        A.problems.append(("whole-backend", "`%s` uses the whole backend of the vector (including spare words and the bits after the last element) instead of the first len*width/BITS words" % show(F, n)[:120], F.loc(n)))
        W = Walker(F, b, on_node=on_node, inline=self.inl)
        W.run()
        return self

    def classify_last_word(self, W, n, K, res, B):
        """n = Index(backend, full_words). Climb to see how the word is used."""
        F = self.F
        ps = self.pm.get(id(n), ())
        mask = ("lowmask", res)
        sh = mk_op("-", B, res)
        # is it the target of an assignment?
        cur = n
        for p in reversed(ps):
            k = p.get("k")
            if k in ("Assign", "AssignOp") and p["l"] is cur:
                self.last_writes += 1
                self.check_last_write(W, p, n, res, mask)
                return
            if k == "MethodCall" and p["recv"] is cur and p["name"] in ("store", "fetch_and", "fetch_or", "fetch_xor", "compare_exchange"):
                self.last_writes += 1
                self.check_last_write_atomic(W, p, n, res, mask)
                return
            if k == "MethodCall" and p["recv"] is cur and p["name"] == "load":
                cur = p
                continue
            if k == "MethodCall" and p["name"] in ("store", "fetch_and", "fetch_or", "fetch_xor") and any(a is cur for a in p["args"]):
                # operand of the read-modify-write of the same last word: judged at the write
                rt = W.T.term(p["recv"])
                if rt == W.T.term(n):
                    return
            if k == "Assign" and p["r"] is cur and W.T.term(p["l"]) == W.T.term(n):
                return
            if k in ("AddrOf",) or (k == "Unary" and p["op"] in ("*", "!")):
                cur = p
                continue
            if k == "Binary":
                op = p["op"]
                other = p["r"] if p["l"] is cur else p["l"]
                if op == "<<" and p["l"] is cur:
                    if W.T.term(p["r"]) == sh:
                        self.last_reads += 1
                        return
                    self.problems.append(("last-word-shift", "the partial last word is shifted by `%s` instead of `BITS - len*width %% BITS`: bits after the last element reach the result" % tshow(W.T.term(p["r"])), F.loc(p)))
                    return
                if op == "&":
                    ot = canon_masks(W.T.term(other))
                    if ot == mask or ot == ("un", "!", mask):
                        # masked read (keeping either the live bits or, inside a read-modify-write, the dead bits)
                        if ot == mask:
                            self.last_reads += 1
                            return
                        cur = p
                        continue
                if op in ("^", "|", "&"):
                    cur = p
                    continue
            if k in ("Block",):
                cur = p
                continue
            if k == "LetStmt":
                # bound to a local: accept only if every later use is masked -- we track through the
                # symbolic value instead: the store check sees the load inside the stored term
                return
            break
        self.problems.append(("last-word-unmasked", "the partial last word `%s` reaches `%s` without being masked to the bits of the logical contents" % (show(F, n)[:100], show(F, ps[-1])[:120] if ps else "?"), F.loc(n)))

    def check_last_write(self, W, asg, idxnode, res, mask):
        F = self.F
        old = W.T.term(idxnode)
        if asg["k"] == "AssignOp":
            rt = canon_masks(W.T.term(asg["r"]))
            op = asg["op"]
            # `&= MAX << residual` == `&= !lowmask(residual)` (clears only the live low bits)
            ok = (op == "&=" and rt == ("un", "!", mask)) or (op in ("|=", "^=") and rt == mask)   # set / flip only the live low bits
            if not ok:
                self.problems.append(("last-word-write", "the partial last word is updated by `%s`, which is not confined to its low len*width %% BITS bits" % show(F, asg)[:160], F.loc(asg)))
            return
        rt = canon_masks(W.T.term(asg["r"]))
        old = canon_masks(old)
        d = None
        if rt[0] == "op" and rt[1] == "|":
            for a, v in ((rt[2], rt[3]), (rt[3], rt[2])):
                if a == mk_op("&", old, ("un", "!", mask)) and v[0] == "op" and v[1] == "&" and mask in (v[2], v[3]):
                    d = True
        # `old ^ mask`, `old | mask`, `old & !mask` written out
        if not d and rt[0] == "op" and rt[1] in ("^", "|") and sorted(map(repr, (rt[2], rt[3]))) == sorted(map(repr, (old, mask))):
            d = True
        if not d and rt[0] == "op" and rt[1] == "&" and sorted(map(repr, (rt[2], rt[3]))) == sorted(map(repr, (old, ("un", "!", mask)))):
            d = True
        if not d:
            self.problems.append(("last-word-write", "the partial last word is overwritten by `%s`, which is not `(old & !mask) | (new & mask)` with mask = (1 << len*width %% BITS) - 1: bits after the last element are modified" % tshow(rt)[:200], F.loc(asg)))

    def check_last_write_atomic(self, W, call, idxnode, res, mask):
        F = self.F
        nm = call["name"]
        a0 = canon_masks(W.T.term(call["args"][0]))
        if nm == "fetch_and":
            ok = a0 == ("un", "!", mask)
        elif nm in ("fetch_or", "fetch_xor"):
            # sets / flips only the live low bits
            ok = a0 == mask
        elif nm == "store":
            old_load = None
            ok = False
            if a0[0] == "op" and a0[1] == "|":
                for a, v in ((a0[2], a0[3]), (a0[3], a0[2])):
                    if a[0] == "op" and a[1] == "&" and ("un", "!", mask) in (a[2], a[3]) and v[0] == "op" and v[1] == "&" and mask in (v[2], v[3]):
                        o = a[3] if a[2] == ("un", "!", mask) else a[2]
                        if o[0] == "call" and o[1].endswith("load"):
                            ok = True
        else:
            ok = False
        if not ok:
            self.problems.append(("last-word-write", "the partial last word is updated by `%s`, which is not confined to its low len*width %% BITS bits" % show(F, call)[:160], F.loc(call)))


READERS = [
    (r"^<bits::bit_vec::BitVec<B> as traits::rank_sel::BitCount>::count_ones$", 2),
    (r"^bits::bit_vec::BitVec::<B>::par_count_ones$", 2),
    (r"^<bits::bit_vec::AtomicBitVec<B> as traits::rank_sel::BitCount>::count_ones$", 2),
    (r"^bits::bit_vec::AtomicBitVec::<B>::par_count_ones$", 2),
    (r"^<bits::bit_vec::BitVec<B> as std::cmp::PartialEq<bits::bit_vec::BitVec<C>>>::eq$", 4),
    (r"^<bits::bit_field_vec::BitFieldVec<W, B> as std::cmp::PartialEq<bits::bit_field_vec::BitFieldVec<W, C>>>::eq$", 4),
]

WRITERS = [
    (r"^bits::bit_vec::BitVec::<B>::fill$", 2), (r"^bits::bit_vec::BitVec::<B>::par_fill$", 2),
    (r"^bits::bit_vec::BitVec::<B>::flip$", 2), (r"^bits::bit_vec::BitVec::<B>::par_flip$", 2),
    (r"^bits::bit_vec::AtomicBitVec::<B>::fill$", 2), (r"^bits::bit_vec::AtomicBitVec::<B>::par_fill$", 2),
    (r"^bits::bit_vec::AtomicBitVec::<B>::flip$", 2), (r"^bits::bit_vec::AtomicBitVec::<B>::par_flip$", 2),
    (r"^<bits::bit_field_vec::BitFieldVec<W, B> as traits::bit_field_slice::BitFieldSliceMut<W>>::reset$", 2),
    (r"^<bits::bit_field_vec::BitFieldVec<W, B> as traits::bit_field_slice::BitFieldSliceMut<W>>::par_reset$", 2),
    (r"^<bits::bit_field_vec::AtomicBitFieldVec<W, T> as traits::bit_field_slice::AtomicBitFieldSlice<W>>::reset_atomic$", 2),
    (r"^<bits::bit_field_vec::AtomicBitFieldVec<W, T> as traits::bit_field_slice::AtomicBitFieldSlice<W>>::par_reset_atomic$", 2),
]


def run_tail(ctx, rr, specs, what, scope=None):
    F = ctx.F()
    for path, min_acc in specs:
        b = F.one(path)
        sc = scope(b) if scope else None
        A = TailAnalysis(ctx, b).run()
        rr.instances += 1
        if A.accesses < min_acc:
            rr.violate("%s:anchor-missing" % short_fn(b.key), "reason=anchor-missing: %s: expected at least %d backend accesses (full-word slice and partial last word), found %d" % (b.key, min_acc, A.accesses), b.span, props=sc)
            continue
        key = "%s:%s" % (short_fn(b.key), what)
        for _ in range(A.accesses):
            rr.ob(True, key=key)
        rr.samples.append({"fn": b.key, "backend_accesses": A.accesses, "full_word_slices": A.full_reads, "masked_last_word_reads": A.last_reads, "confined_last_word_writes": A.last_writes, "problems": len(A.problems)}) if len(rr.samples) < 4 else None
        seen = set()
        for suffix, msg, loc in A.problems:
            rr.discharged -= 1 if rr.discharged > 0 else 0
            k2 = "%s:%s" % (key, suffix)
            if k2 in seen:
                continue
            seen.add(k2)
            rr.violate(k2, "%s: %s" % (b.key, msg), loc, props=sc)


@rule("R06.1", props=["C06", "C14", "C05", "C10", "C01", "C02"], floor=6, title="readers use only the first len*width/BITS words and mask the partial last word")
def r06_1(ctx, rr):
    # count_ones of a bit vector is what AddNumBits caches as num_ones: rank(len) and the select bound rest on it
    def scope(b):
        bitvec = b.file.endswith("bits/bit_vec.rs")
        base = ["C06", "C14", "C10"] if bitvec else ["C05", "C14", "C10"]
        return base + (["C01", "C02"] if "count_ones" in b.name and "Atomic" not in b.key else [])
    run_tail(ctx, rr, READERS, "tail-masked", scope=scope)


@rule("R14.2", props=["C14", "C10", "C06"], floor=12, title="bulk writers store whole words only below len*width/BITS and confine the last-word update to the live bits")
def r14_2(ctx, rr):
    run_tail(ctx, rr, WRITERS, "tail-preserved")


def skeleton(F, b, inl):
    """Multiset of normalized decision atoms / index and shift terms / integer literals of a body,
    with parameter names canonicalized and parallel-iterator plumbing erased."""
    ren = param_roles(b)
    # the element of a traversal has one name, however it is traversed (`for x in s`, `s.iter().for_each(|x| ..)`)
    for x in walk(b.body):
        if x.get("k") == "Closure":
            for p_ in x.get("params", []):
                for _nm, pid in pat_bindings(p_):
                    ren.setdefault(str(pid), "elem")
        if x.get("k") == "Match" and x.get("src") == "ForLoopDesugar":
            for a_ in x.get("arms", []):
                for y in walk(a_.get("body", {})):
                    if y.get("k") == "Match" and y.get("arms"):
                        for arm in y["arms"]:
                            if arm["pat"].get("name") == "Some":
                                for _nm, pid in pat_bindings(arm["pat"]):
                                    ren.setdefault(str(pid), "elem")
    items = []
    ERASE = ("par_iter_mut", "par_iter", "with_min_len", "iter_mut", "iter")

    def on_node(W, n, K):
        k = n.get("k")
        if W.debug_depth:
            return
        if k == "Binary" and n["op"] in ("<", "<=", ">", ">=", "==", "!="):
            for a in cond_atoms(W.T, n, True):
                items.append(("cmp",) + tuple(repr(rename_vars(x, ren)) if isinstance(x, tuple) else x for x in a))
        elif k == "Binary" and n["op"] in ("<<", ">>", "&", "|", "^"):
            ct = canon_masks(W.T.term(n))
            if n["op"] == "<<" and _is_one(W.T.term(n["l"])):
                # the shift inside `(1 << r) - 1`: recorded as the mask it builds (same item as `MAX >> (BITS - r)`)
                ct = ("lowmask", W.T.term(n["r"]))
            items.append(("bit", repr(rename_vars(ct, ren))))
        elif k == "Index":
            items.append(("idx", repr(rename_vars(W.T.term(n["i"]), ren))))
        elif k in ("Assign", "AssignOp"):
            t = W.T.term(n["r"])
            if n["l"].get("k") == "Path" and n["l"].get("res") == "local" and t[0] == "call" and t[1].endswith("count_ones"):
                return   # an accumulation `n += w.count_ones()`: the count_ones call itself is the item (as in map/sum)
            if not (n["l"].get("k") == "Path" and mentions(t, lambda x: x[0] == "call" and "Iterator" in x[1])):
                items.append(("asg", n.get("op", "="), repr(rename_vars(canon_masks(t), ren))))
        elif k == "MethodCall" and n["name"] == "fill" and len(n.get("args", [])) == 1 and "slice" in (cname(F, n) or ""):
            # `s.fill(v)` stores v in every element, as `for x in s { *x = v }` does
            items.append(("asg", "=", repr(rename_vars(canon_masks(W.T.term(n["args"][0])), ren))))
        elif k == "MethodCall" and n["name"] in ("store", "fetch_and", "fetch_or", "fetch_xor", "load", "count_ones"):
            items.append(("call", n["name"], tuple(repr(rename_vars(canon_masks(W.T.term(a)), ren)) for a in n["args"] if F.ty(a) not in ("std::sync::atomic::Ordering",))))
    Walker(F, b, on_node=on_node, inline=inl).run()
    return sorted(set(items))


SIBLINGS = [
    (r"^bits::bit_vec::BitVec::<B>::fill$", r"^bits::bit_vec::BitVec::<B>::par_fill$"),
    (r"^bits::bit_vec::BitVec::<B>::flip$", r"^bits::bit_vec::BitVec::<B>::par_flip$"),
    (r"^<bits::bit_vec::BitVec<B> as traits::rank_sel::BitCount>::count_ones$", r"^bits::bit_vec::BitVec::<B>::par_count_ones$"),
    (r"^bits::bit_vec::AtomicBitVec::<B>::fill$", r"^bits::bit_vec::AtomicBitVec::<B>::par_fill$"),
    (r"^bits::bit_vec::AtomicBitVec::<B>::flip$", r"^bits::bit_vec::AtomicBitVec::<B>::par_flip$"),
    (r"^<bits::bit_vec::AtomicBitVec<B> as traits::rank_sel::BitCount>::count_ones$", r"^bits::bit_vec::AtomicBitVec::<B>::par_count_ones$"),
    (r"^<bits::bit_field_vec::BitFieldVec<W, B> as traits::bit_field_slice::BitFieldSliceMut<W>>::reset$", r"^<bits::bit_field_vec::BitFieldVec<W, B> as traits::bit_field_slice::BitFieldSliceMut<W>>::par_reset$"),
    (r"^<bits::bit_field_vec::AtomicBitFieldVec<W, T> as traits::bit_field_slice::AtomicBitFieldSlice<W>>::reset_atomic$", r"^<bits::bit_field_vec::AtomicBitFieldVec<W, T> as traits::bit_field_slice::AtomicBitFieldSlice<W>>::par_reset_atomic$"),
]


@rule("R10.3", props=["C10", "C06"], floor=8, title="sequential and parallel bulk operations have equal decision/arithmetic skeletons")
def r10_3(ctx, rr):
    F = ctx.F()
    inl = ctx.memo("inliner", lambda: make_inliner(F))
    for pa, pb in SIBLINGS:
        a = F.one(pa)
        b = F.one(pb)
        sa = skeleton(F, a, inl)
        sb = skeleton(F, b, inl)
        rr.instances += 1
        only_a = [x for x in sa if x not in sb]
        only_b = [x for x in sb if x not in sa]
        key = "%s~%s" % (short_fn(a.key), short_fn(b.key))
        rr.ob(not only_a and not only_b, key=key, sample={"pair": key, "atoms": len(sa), "only_in_first": only_a[:3], "only_in_second": only_b[:3]})
        if only_a or only_b:
            rr.violate(key, "%s and %s disagree: only in the first %s; only in the second %s" % (a.key, b.key, [str(x)[:160] for x in only_a[:4]], [str(x)[:160] for x in only_b[:4]]), b.span)


def is_index_bound(c, idx_node, limit_id):
    """c is `i < limit` (or `limit > i`) for the local i used as the index and the parameter `limit`."""
    if c.get("k") != "Binary" or c["op"] not in ("<", ">") or idx_node.get("k") != "Path":
        return False
    lo, hi = (c["l"], c["r"]) if c["op"] == "<" else (c["r"], c["l"])
    return lo.get("k") == "Path" and lo.get("id") == idx_node.get("id") and hi.get("k") == "Path" and hi.get("id") == limit_id


@rule("R05.2", props=["C05", "C06", "C01", "C14"], floor=4, title="growth never relies on clean storage: every new element/bit is written, push clears before setting")
def r05_2(ctx, rr):
    F = ctx.F()
    inl = ctx.memo("inliner", lambda: make_inliner(F))
    # resize: under new_len > len, a loop over len..new_len calls the masking set_unchecked(i, value) unconditionally
    for path, setter in ((r"^bits::bit_field_vec::BitFieldVec::<W>::resize$", "BitFieldSliceMut::set_unchecked"), (r"^bits::bit_vec::BitVec::resize$", "BitVec::set_unchecked")):
        b = F.one(path)
        slf = ("var", "self", b.params[0]["id"])
        new_len = ("var", b.params[1]["name"], b.params[1]["id"])
        value = ("var", b.params[2]["name"], b.params[2]["id"])
        found = []
        pm = {id(n): ps for n, ps in walk_with_parents(b.body)}
        T0 = Termizer(F, b)

        def while_range(n, b=b, pm=pm, slf=slf, T0=T0):
            """the call n sits in `let mut i = self.len; while i < new_len { ..; i += 1 }` (i the index argument)"""
            idx_node = call_args(n)[1]
            if not (idx_node.get("k") == "Path" and idx_node.get("res") == "local"):
                return False
            lid = idx_node["id"]
            lets = [x for x in walk(b.body) if x.get("k") == "LetStmt" and x["pat"].get("k") == "PBind" and x["pat"]["id"] == lid and "init" in x]
            incs = [x for x in walk(b.body) if x.get("k") == "AssignOp" and x["l"].get("k") == "Path" and x["l"].get("id") == lid]
            asgs = [x for x in walk(b.body) if x.get("k") == "Assign" and x["l"].get("k") == "Path" and x["l"].get("id") == lid]
            whiles = [p_ for p_ in pm.get(id(n), ()) if p_.get("k") == "Loop" and p_.get("src") == "While"]
            if not (len(lets) == 1 and T0.term(lets[0]["init"]) == ("field", slf, "len") and len(incs) == 1 and incs[0]["op"] == "+=" and incs[0]["r"].get("v") == "1" and not asgs and whiles):
                return False
            st = whiles[-1]["body"].get("expr") or (whiles[-1]["body"]["stmts"][-1] if whiles[-1]["body"]["stmts"] else None)
            if st is None or st.get("k") != "If" or not is_index_bound(st["c"], idx_node, b.params[1]["id"]):
                return False
            inside = set(id(x) for x in walk(whiles[-1]))
            ips = [p_ for p_ in pm.get(id(incs[0]), ()) if p_.get("k") == "If" and id(p_) in inside]
            return all(p_ is st for p_ in ips)

        def on_node(W, n, K, found=found):
            if cname(F, n) == setter and W.debug_depth == 0:
                args = [W.T.term(a) for a in call_args(n)]
                found.append((n, args, K.copy()))
        Walker(F, b, on_node=on_node).run()
        ok = False
        why = "no call of %s found" % setter
        for n, args, K in found:
            i = args[1]
            lo_ok = K.entails(atom_le(("field", slf, "len"), i)) or while_range(n)
            hi_ok = K.entails(atom_le(i, new_len, True))
            val_ok = args[2] == value
            # conditions on the path from the growth test to the call: only `new_len > self.len` (and the loop)
            conds = []
            for p in pm.get(id(n), ()):
                if p.get("k") == "If" and not is_debug_only(F, p):
                    conds.append(p)
            Tc = Termizer(F, b)
            growth = cmp_atoms(">", new_len, ("field", slf, "len"))
            # conditions that do not restrict which elements are written: the growth test itself and the
            # loop's own bound on the running index (`i < new_len`, the test of a `while` loop)
            bound = cmp_atoms("<", i, new_len)
            extra = [c for c in conds if not (c["c"].get("k") == "Binary" and sorted(map(repr, cond_atoms(Tc, c["c"], True))) == sorted(map(repr, growth)))
                     and not is_index_bound(c["c"], call_args(n)[1], b.params[1]["id"])]
            loops = [p for p in pm.get(id(n), ()) if p.get("k") == "Loop"]
            in_for = bool(loops)
            if lo_ok and hi_ok and val_ok and in_for and not extra:
                ok = True
            else:
                why = "the fill call `%s` is %s" % (show(F, n), "guarded by an extra condition `%s` (stale contents after a shrink would be re-exposed)" % show(F, extra[0]["c"])[:120] if extra else "not a loop over len..new_len storing the given value")
        rr.instances += 1
        rr.check(ok, "%s:fills-new-elements" % short_fn(b.key), "%s must write every element in len..new_len through the masking setter, unconditionally: %s" % (b.key, why), b.span)
        # the range of the loop is exactly self.len..new_len
        rngs = [range_of(F, x) for x in walk(b.body) if x.get("k") == "Struct"]
        rngs = [r for r in rngs if r and r[0] is not None and r[1] is not None]
        T = Termizer(F, b)
        ok2 = any(T.term(r[0]) == ("field", slf, "len") and T.term(r[1]) == new_len and not r[2] for r in rngs)
        if not ok2:
            ok2 = any(while_range(n) for n, args, K in found)
        rr.instances += 1
        rr.check(ok2, "%s:fill-range" % short_fn(b.key), "%s: the fill loop must range over `self.len..new_len`" % b.key, b.span)
    # BitFieldVec::push: set_unchecked(self.len, value) unconditional (after validation, R05.1)
    b = F.one(r"^bits::bit_field_vec::BitFieldVec::<W>::push$")
    slf = ("var", "self", b.params[0]["id"])
    hits = []

    def on_push(W, n, K):
        if cname(F, n) == "BitFieldSliceMut::set_unchecked":
            hits.append([W.T.term(a) for a in call_args(n)])
    Walker(F, b, on_node=on_push).run()
    rr.instances += 1
    rr.check(any(h[1] == ("field", slf, "len") for h in hits), "BitFieldVec::push:writes-slot", "BitFieldVec::push must store the value at index self.len through the masking set_unchecked", b.span)
    # BitVec::push: the target bit is cleared before (or assigned, not only or-ed with) the new bit
    b = F.one(r"^bits::bit_vec::BitVec::push$")
    slf = ("var", "self", b.params[0]["id"])
    ops = []
    for n in walk(b.body):
        if n.get("k") in ("AssignOp", "Assign") and n["l"].get("k") == "Index":
            ops.append(n)
    W = Walker(F, b)
    W.run()
    T = W.T
    bit = None
    cleared = False
    ored = False
    order_ok = False
    for n in ops:
        rt = Termizer(F, b).term(n["r"])
        s = show(F, n)
        if n["k"] == "AssignOp" and n["op"] == "&=" and rt[0] == "un" and rt[1] == "!" and rt[2][0] == "op" and rt[2][1] == "<<" and rt[2][2] == ("int", 1):
            cleared = True
            if not ored:
                order_ok = True
        elif n["k"] == "AssignOp" and n["op"] == "|=":
            ored = True
        elif n["k"] == "Assign":
            # whole read-modify-write assignment: must contain an and-not of the bit
            if mentions(rt, lambda x: x[0] == "un" and x[1] == "!"):
                cleared = True
                order_ok = True
            ored = True
    # ... or the two cases written apart: `if b { word |= mask } else { word &= !mask }` (the false arm clears)
    if not (cleared and order_ok and ored):
        bpar = [p for p in b.params if p.get("k") == "PBind" and p.get("name") != "self"]
        for n in walk(b.body):
            if n.get("k") == "If" and "el" in n and n["c"].get("k") == "Path" and bpar and n["c"].get("id") == bpar[0]["id"]:
                t_ops = [x for x in walk(n["th"]) if x.get("k") == "AssignOp"]
                e_ops = [x for x in walk(n["el"]) if x.get("k") == "AssignOp"]
                if len(t_ops) == 1 and len(e_ops) == 1 and t_ops[0]["op"] == "|=" and e_ops[0]["op"] == "&=":
                    mt = W.expand(W.T.term(t_ops[0]["r"]))
                    me = W.expand(W.T.term(e_ops[0]["r"]))
                    if me == ("un", "!", mt) and mt[0] == "op" and mt[1] == "<<" and mt[2] == ("int", 1) and show(F, t_ops[0]["l"]) == show(F, e_ops[0]["l"]):
                        cleared = order_ok = ored = True
    rr.instances += 1
    rr.check(cleared and order_ok and ored, "BitVec::push:clears-bit", "BitVec::push must clear the target bit before or-ing the new value in (pop and shrinking resize leave stale ones behind)", b.span)
    # set_unchecked for BitVec clears on false and sets on true (both arms present)
    b = F.one(r"^bits::bit_vec::BitVec::<B>::set_unchecked$")
    idx = ("var", b.params[1]["name"], b.params[1]["id"])
    val = b.params[2]["id"]
    arms = {"set": False, "clear": False}

    def on_su(W, n, K):
        if n.get("k") == "AssignOp" and n["op"] in ("|=", "&="):
            rt = W.expand(W.T.term(n["r"]))
            one_bit = lambda t: t[0] == "op" and t[1] == "<<" and t[2] == ("int", 1) and t[3][0] == "op" and t[3][1] == "%" and t[3][2] == idx
            # which branch of `if value` are we in?
            pos = any(a[0] == "b" and a[1][0] == "var" and a[1][2] == val and a[2] is True for a in K.atoms)
            neg = any(a[0] == "b" and a[1][0] == "var" and a[1][2] == val and a[2] is False for a in K.atoms)
            if n["op"] == "|=" and one_bit(rt) and pos:
                arms["set"] = True
            if n["op"] == "&=" and rt[0] == "un" and rt[1] == "!" and one_bit(rt[2]) and neg:
                arms["clear"] = True
    Walker(F, b, on_node=on_su).run()
    rr.instances += 1
    rr.check(arms["set"] and arms["clear"], "BitVec::set_unchecked:both-arms", "BitVec::set_unchecked must or the bit `1 << (index %% BITS)` in for true and and-not it out for false (found set: %s, clear: %s)" % (arms["set"], arms["clear"]), b.span)


@rule("R11.4", props=["C11", "C05", "C06", "C10", "C12", "C13"], floor=5, title="constructors allocate ceil(len*width/BITS) words (+1 padding word / at least 1) and set len, bit_width, mask")
def r11_4(ctx, rr):
    F = ctx.F()
    specs = [
        (r"^bits::bit_field_vec::BitFieldVec::<W>::new$", True, 0, "max1"),
        (r"^bits::bit_field_vec::BitFieldVec::<W>::new_unaligned$", True, 1, None),
        (r"^bits::bit_field_vec::AtomicBitFieldVec::<W>::new$", True, 0, "max1"),
    ]
    for path, has_width, pad, mx in specs:
        b = F.one(path)
        ren = param_roles(b, ["bit_width", "len"])
        sl = struct_literal_fields(F, b, inline=ctx.memo("inliner", lambda: make_inliner(F)))
        if len(sl) != 1:
            raise AnchorMissing("%s: expected one struct literal" % b.key)
        L = {k: rename_vars(v, ren) for k, v in sl[0].items()}
        blen = mk_op("*", ("var", "len"), ("var", "bit_width"))
        want_words = ("call", "int::div_ceil", (blen, ("def", "common_traits::AsBytes::BITS")))
        bits = L.get("bits", ("unk", "?"))
        n_words = None
        for x in subterms(bits):
            if x == want_words:
                n_words = x
        ok = n_words is not None
        if ok and mx == "max1":
            ok = mentions(bits, lambda x: x == mk_op("max", ("int", 1), want_words))
        if ok and pad:
            ok = mentions(bits, lambda x: x == mk_op("+", want_words, ("int", pad)))
        if ok and not pad:
            ok = not mentions(bits, lambda x: x[0] == "op" and x[1] == "+" and x[2] == want_words)
        rr.instances += 1
        # the atomic vector is converted into the plain one without copying: its backend is the plain one's (C13:
        # the concurrent Elias-Fano builder reads through that conversion)
        sc = ["C11", "C05", "C10", "C12"] + (["C13"] if "Atomic" in b.key else [])
        rr.check(ok, "%s:words" % short_fn(b.key), "%s must allocate %sceil(len*bit_width/BITS)%s words; found %s" % (b.key, "max(1, " if mx else "", (" + %d" % pad) if pad else "", tshow(bits)[:200]), b.span, props=sc)
        rr.instances += 1
        rr.check(L.get("len") == ("var", "len") and L.get("bit_width") == ("var", "bit_width") and (L.get("mask") == ("call", "bit_field_vec::mask", (("var", "bit_width"),)) or _width_mask_of(L.get("mask", ("unk", "?"))) == ("var", "bit_width")),
                 "%s:fields" % short_fn(b.key), "%s must store len, bit_width and mask(bit_width)" % b.key, b.span)
    # with_capacity reserves, it does not allocate contents: the backend of an empty vector holds no word per reserved
    # element (mem_size counts the words of the backend; a vector filled below its capacity would carry the difference)
    wc = F.one(r"^bits::bit_field_vec::BitFieldVec::<W>::with_capacity$")
    cap_ids = [p["id"] for p in wc.params if p.get("k") == "PBind"][1:2]
    Tw = Termizer(F, wc)
    reserve = [n for n in walk(wc.body) if n.get("k") in ("Call", "MethodCall") and (cname(F, n) or "").endswith(("Vec::with_capacity", "Vec::reserve", "Vec::reserve_exact"))]
    filled = []
    from r_guards import simple_env
    Ts = simple_env(F, wc)
    for n in walk(wc.body):
        cn = cname(F, n) or ""
        if n.get("k") in ("Call", "MethodCall") and (cn.endswith("vec::from_elem") or cn.endswith("Vec::resize") or cn.endswith("iter::repeat") or cn.endswith("Vec::extend")):
            cnt = [a for a in call_args(n)][-1] if cn.endswith("from_elem") else (call_args(n)[1] if len(call_args(n)) > 1 else None)
            if cnt is not None and mentions(Ts.term(cnt), lambda x: x[0] == "var" and str(x[2]).split("#")[0] in [str(c) for c in cap_ids]):
                filled.append(n)
    rr.instances += 1
    rr.check(bool(reserve) and not filled, "BitFieldVec::with_capacity:reserves-only", "BitFieldVec::with_capacity must reserve room for `capacity` elements (Vec::with_capacity) and not create that many words: found %s" % ([show(F, n)[:60] for n in filled] or "no reservation"), F.loc(filled[0]) if filled else wc.span, props=["C11", "C05"])
    # mask(bit_width) helper
    mb = F.one(r"^bits::bit_field_vec::mask$")
    from r_guards import width_mask_of
    t = Termizer(F, mb).term(mb.body)
    w = width_mask_of(t)
    rr.instances += 1
    rr.check(w is not None and w[0] == "var", "bit_field_vec::mask:formula", "bit_field_vec::mask(w) must be `if w == 0 {0} else {MAX >> (BITS - w)}`; found %s" % tshow(t)[:200], mb.span)
    # BitVec::with_value: ceil(len/BITS) words, last word masked
    b = F.one(r"^bits::bit_vec::BitVec::with_value$")
    ren = param_roles(b, ["len", "value"])
    n_words = ("call", "int::div_ceil", (("var", "len"), ("def", "bits::bit_vec::BITS")))
    extra = mk_op("-", mk_op("*", n_words, ("def", "bits::bit_vec::BITS")), ("var", "len"))
    state = {"alloc": False, "mask": False}

    def on_node(W, n, K):
        if n.get("k") in ("Call", "MethodCall"):
            t = rename_vars(W.T.term(n), ren)
            if mentions(t, lambda x: x == n_words) and ("from_elem" in (cname(F, n) or "")):
                state["alloc"] = True
        if n.get("k") == "Assign" and n["l"].get("k") == "Index":
            rt = rename_vars(W.expand(W.T.term(n["r"])), ren)
            it = rename_vars(W.expand(W.T.term(n["l"]["i"])), ren)
            if rt[0] == "op" and rt[1] == ">>" and rt[3] == extra and it == mk_op("-", n_words, ("int", 1)) and K.entails(atom_le(("int", 1), rename_back(extra, W, b))):
                state["mask"] = True
            elif rt[0] == "op" and rt[1] == ">>" and rt[3] == extra and it == mk_op("-", n_words, ("int", 1)):
                state["mask"] = True
        # the last word reached as `*bits.last_mut().unwrap()` (the vector has exactly n_words words)
        if n.get("k") == "Assign" and n["l"].get("k") == "Unary" and n["l"].get("op") == "*":
            tgt = n["l"]["e"]
            names = [x["name"] for x in walk(tgt) if x.get("k") == "MethodCall"]
            rt = rename_vars(W.expand(W.T.term(n["r"])), ren)
            if "last_mut" in names and rt[0] == "op" and rt[1] == ">>" and rt[3] == extra:
                state["mask"] = True
    Walker(F, b, on_node=on_node).run()
    rr.instances += 1
    rr.check(state["alloc"], "BitVec::with_value:words", "BitVec::with_value must allocate ceil(len/BITS) words", b.span)
    rr.instances += 1
    rr.check(state["mask"], "BitVec::with_value:last-word", "BitVec::with_value must clear the bits after `len` in the last word (`word_value >> (n_words*BITS - len)` stored at index n_words - 1)", b.span)


def rename_back(t, W, b):
    return t


@rule("R05.6", props=["C05", "C06", "C12"], floor=4, title="growth extends the backend when (and only when) the new length exceeds the words actually present")
def r05_6(ctx, rr):
    """resize/push test the *length* of the backend (bits.len() * BITS), not its capacity, before the
    unchecked stores that follow; the backend is then extended to ceil(new_len * width / BITS) words."""
    F = ctx.F()
    BITSV = ("def", "bits::bit_vec::BITS")
    BITSW = ("def", "common_traits::AsBytes::BITS")
    specs = [
        (r"^bits::bit_vec::BitVec::resize$", lambda s, P: (mk_op("*", ("call", "len", (("field", s, "bits"),)), BITSV), P[1], "<"), "resize"),
        (r"^bits::bit_field_vec::BitFieldVec::<W>::resize$", lambda s, P: (mk_op("*", ("call", "len", (("field", s, "bits"),)), BITSW), mk_op("*", P[1], ("field", s, "bit_width")), "<"), "resize"),
        (r"^bits::bit_field_vec::BitFieldVec::<W>::push$", lambda s, P: (mk_op("*", ("call", "len", (("field", s, "bits"),)), BITSW), mk_op("*", mk_op("+", ("field", s, "len"), ("int", 1)), ("field", s, "bit_width")), "<"), "push"),
        (r"^bits::bit_vec::BitVec::push$", lambda s, P: (mk_op("*", ("call", "len", (("field", s, "bits"),)), BITSV), ("field", s, "len"), "=="), "push"),
    ]
    for path, want_fn, grow in specs:
        b = F.one(path)
        P = [("var", p["name"], p["id"]) for p in b.params]
        s = P[0]
        lhs, rhs, op = want_fn(s, P)
        # immutable locals are expanded (the needed bits may be computed once and named), helpers inlined
        T = Termizer(F, b, inline=ctx.memo("inliner", lambda: make_inliner(F)))
        for n in walk(b.body):
            if n.get("k") == "LetStmt" and "init" in n and n["pat"].get("k") == "PBind" and not n["pat"].get("mut"):
                T.env[n["pat"]["id"]] = T.term(n["init"])
        found = None
        for n in walk(b.body):
            if n.get("k") == "If" and any(x.get("k") == "MethodCall" and x["name"] == grow and T.term(x["recv"]) == ("field", s, "bits") for x in walk(n["th"])):
                found = n
        rr.instances += 1
        key = "%s:grows-on-length" % short_fn(b.key)
        if found is None:
            rr.violate(key, "reason=anchor-missing: %s: no `if <room test> { self.bits.%s(..) }` found" % (b.key, grow), b.span)
            continue
        atoms = cond_atoms(T, found["c"], True)
        want = cmp_atoms(op, lhs, rhs, True)
        ok = sorted(map(repr, atoms)) == sorted(map(repr, want))
        if not ok and op == "<" and lhs[0] == "op" and lhs[1] == "*":
            # the same test on words: bits.len() < ceil(needed / BITS)
            for wl, ws in ((lhs[2], lhs[3]), (lhs[3], lhs[2])):
                if wl[0] == "call" and wl[1] == "len":
                    want2 = cmp_atoms("<", wl, ("call", "int::div_ceil", (rhs, ws)), True)
                    ok = ok or sorted(map(repr, atoms)) == sorted(map(repr, want2))
        rr.ob(ok, key=key, sample={"fn": b.key, "test": show(F, found["c"])[:120]})
        if not ok:
            rr.violate(key, "%s must extend the backend exactly when the bits needed exceed `self.bits.len() * BITS` (the words actually present, not the capacity); found the test `%s`" % (b.key, show(F, found["c"])[:160]), F.loc(found))


@rule("R06.3", props=["C06", "C05", "C14"], floor=4, title="tail masks have the right polarity: keep the low r bits with MAX >> (BITS - r) or (1 << r) - 1, clear them with MAX << r")
def r06_3(ctx, rr):
    """r = len*width % BITS. `MAX >> r` / `MAX << (BITS - r)` select the wrong number of bits; no code of
    the packed vectors has a use for them."""
    F = ctx.F()
    bodies = [b for b in F.fns() if not is_derived(b) and b.file.endswith(("bits/bit_vec.rs", "bits/bit_field_vec.rs"))]
    inl = ctx.memo("inliner", lambda: make_inliner(F))
    for b in bodies:
        hits = []

        def is_res(t):
            return t[0] == "op" and t[1] == "%" and is_bits_def(t[3]) and mentions(t[2], lambda x: x[0] == "field" and x[2] == "len" or (x[0] == "var" and x[1] in ("len", "bit_len")))

        def on_node(W, n, K, hits=hits):
            if n.get("k") == "Binary" and n["op"] in ("<<", ">>"):
                t = W.expand(W.T.term(n))
                if t[0] != "op":
                    return
                base, amt = t[2], t[3]
                is_max = (base[0] == "def" and base[1].endswith("MAX")) or base == ("un", "!", ("int", 0)) or (base[0] == "ite" and ("un", "!", ("int", 0)) in (base[2], base[3]))
                if not is_max:
                    return
                if is_res(amt):
                    hits.append((n, t[1] == "<<", "MAX %s r" % t[1]))
                elif amt[0] == "op" and amt[1] == "-" and is_bits_def(amt[2]) and is_res(amt[3]):
                    hits.append((n, t[1] == ">>", "MAX %s (BITS - r)" % t[1]))
        Walker(F, b, on_node=on_node, inline=inl).run()
        for n, ok, form in hits:
            rr.instances += 1
            key = "%s:tail-mask-polarity" % short_fn(b.key)
            rr.ob(ok, key=key + form, sample={"fn": b.key, "mask": show(F, n), "form": form})
            if not ok:
                rr.violate(key, "%s builds the tail mask `%s` (%s, r = len*width %% BITS): that keeps BITS - r bits where r are live (or vice versa); the live low bits are kept by `MAX >> (BITS - r)` / `(1 << r) - 1` and cleared by `MAX << r`" % (b.key, show(F, n), form), F.loc(n))


@rule("R05.7", props=["C05", "C12"], floor=3, title="every safe constructor of BitFieldVec leaves at least one backend word when the bit width is 0")
def r05_7(ctx, rr):
    """Zero-width accesses read/write word 0 unconditionally and growth never adds a word when
    len * 0 bits are needed: the backend must be non-empty from the start."""
    F = ctx.F()
    for path in (r"^bits::bit_field_vec::BitFieldVec::<W>::new$", r"^bits::bit_field_vec::BitFieldVec::<W>::new_unaligned$", r"^bits::bit_field_vec::BitFieldVec::<W>::with_capacity$"):
        b = F.one(path)
        bw = None
        for p in b.params:
            if p.get("name") == "bit_width":
                bw = ("var", "bit_width", p["id"])
        lits = []

        def on_node(W, n, K, lits=lits):
            if n.get("k") == "Struct" and range_of(F, n) is None and any(f["name"] == "bits" for f in n["fields"]):
                f = [f for f in n["fields"] if f["name"] == "bits"][0]
                lits.append((n, f["e"], W.T.term(f["e"])))
        Walker(F, b, on_node=on_node).run()
        if len(lits) != 1:
            raise AnchorMissing("%s: struct literal not found" % b.key)
        n, e, t = lits[0]
        ok = False
        why = tshow(t)[:120]
        # (a) vec![ZERO; k] with k = max(1, ..) or .. + 1
        if mentions(t, lambda x: x[0] == "call" and x[1].endswith("from_elem")):
            sz = [x for x in subterms(t) if x[0] == "call" and x[1].endswith("from_elem")][0][2][-1]
            ok = (sz[0] == "op" and sz[1] == "max" and ("int", 1) in (sz[2], sz[3])) or (lin(sz)[1] >= 1)
        # (b) a growable local: some push onto it is unconditional or guarded exactly by bit_width == 0
        elif e.get("k") == "Path" and e.get("res") == "local":
            lid = e["id"]
            T = Termizer(F, b)
            pm = {id(x): ps for x, ps in walk_with_parents(b.body)}
            for x in walk(b.body):
                if x.get("k") == "MethodCall" and x["name"] == "push" and x["recv"].get("k") == "Path" and x["recv"].get("id") == lid:
                    conds = [p for p in pm.get(id(x), ()) if p.get("k") == "If"]
                    if not conds:
                        ok = True
                    elif len(conds) == 1 and cond_atoms(T, conds[0]["c"], True) == cmp_atoms("==", bw, ("int", 0)) and any(y is x for y in walk(conds[0]["th"])):
                        ok = True
            if not ok:
                why = "the backend is a Vec created empty and no word is pushed when bit_width == 0"
        rr.instances += 1
        rr.check(ok, "%s:word-for-zero-width" % short_fn(b.key), "%s can return a vector with an empty backend (%s): with bit_width == 0 the next push/resize/get touches word 0 of an empty slice" % (b.key, why), b.span)


INT_BITS = {"usize": 64, "u64": 64, "u32": 32, "u16": 16, "u8": 8, "u128": 128, "i64": 64, "i32": 32, "isize": 64}


def ge1(K, t):
    """t >= 1 from the established facts; a product (minimum) is >= 1 when both operands are."""
    if t[0] == "int":
        return t[1] >= 1
    if K.entails(atom_le(("int", 1), t)):
        return True
    if t[0] == "op" and t[1] in ("*", "min"):
        return ge1(K, t[2]) and ge1(K, t[3])
    return False


def _sub_chain(t):
    """a - b - c ... -> (a, [b, c, ...])"""
    subs = []
    while t[0] == "op" and t[1] == "-":
        subs.append(t[3])
        t = t[2]
    return t, subs


def is_copy_residual(r):
    if r is None:
        return False
    head, subs = _sub_chain(r)
    if not (head[0] == "op" and head[1] == "*") or len(subs) != 2:
        return False
    has_first = any(x[0] == "op" and x[1] == "-" and is_bits_def(x[2]) and x[3][0] == "op" and x[3][1] == "%" and is_bits_def(x[3][3]) for x in subs)
    has_words = any(x[0] == "op" and x[1] == "*" and (is_bits_def(x[2]) or is_bits_def(x[3])) for x in subs)
    return has_first and has_words


@rule("R10.6", props=["C10", "C05", "C06", "C14"], floor=30, title="mask-building shifts (1 << x, MAX << x, MAX >> x) have an amount provably below the word size")
def r10_6(ctx, rr):
    """`(1 << r) - 1` is the low-r-bits mask only for r < BITS and `MAX >> (BITS - r)` only for r >= 1: at the
    boundary the shift overflows (panic in debug builds, amount reduced modulo BITS in release -> empty or
    full mask). Every mask construction in the packed vectors must sit where the bound is established
    (r is a remainder modulo the word size, or a dominating test excludes the boundary)."""
    F = ctx.F()
    bodies = [b for b in F.fns() if not is_derived(b) and b.file.endswith(("bits/bit_vec.rs", "bits/bit_field_vec.rs"))]
    inl = ctx.memo("inliner", lambda: make_inliner(F))
    BITS = ("def", "common_traits::AsBytes::BITS")
    for b in bodies:
        hits = []

        def on_node(W, n, K, hits=hits, b=b):
            if W.debug_depth or not (n.get("k") in ("Binary", "AssignOp") and n["op"] in ("<<", ">>", "<<=", ">>=")):
                return
            base = W.expand(W.T.term(n["l"]))
            is_one = base == ("int", 1) or (base[0] == "def" and base[1].endswith("::ONE"))
            is_max = (base[0] == "def" and base[1].endswith("MAX")) or base == ("un", "!", ("int", 0))
            if not (is_one or is_max):
                return
            ty = F.ty(n["l"])
            width = ("int", INT_BITS[ty]) if ty in INT_BITS else BITS
            amt = W.expand(W.T.term(n["r"]))
            if amt[0] == "op" and amt[1] == "-" and (amt[2] == width or is_bits_def(amt[2])):
                ok = ge1(K, amt[3])
                need = "%s >= 1" % tshow(amt[3])
            else:
                widths = [width]
                if ty in ("usize", "u64"):
                    # bit_vec.rs: const BITS: usize = usize::BITS
                    widths += [x for x in subterms(amt) if x[0] == "def" and x[1].endswith("bit_vec::BITS")]
                ok = any(K.entails(atom_le(amt, w, True)) for w in widths)
                need = "%s < %s" % (tshow(amt), tshow(width))
            hits.append((n, ok, need, K.show(), amt))
        Wk = Walker(F, b, on_node=on_node, inline=inl)
        Wk.run()
        seen = {}
        for n, ok, need, known, amt in hits:
            # a site inlined at several call sites is one instance; it holds if it holds everywhere it was visited
            k2 = F.loc(n)
            if k2 in seen:
                seen[k2] = (n, seen[k2][1] and ok, need, known, amt)
            else:
                seen[k2] = (n, ok, need, known, amt)
        n_resid = 0
        for k2, (n, ok, need, known, amt) in seen.items():
            rr.instances += 1
            key = "%s:mask-shift-in-range:%s" % (short_fn(b.key), show(F, n)[:60])
            if not ok and short_fn(b.key).endswith("::copy") and n_resid < 3:
                # confirmed by hand: in the multi-word branches of copy the bits left for the last word are
                # r = bit_len - (BITS - pos % BITS) - (last_word - first_word - 1) * BITS = ((pos + bit_len - 1) % BITS) + 1,
                # hence 1 <= r <= BITS; div/mod arithmetic the difference-bound engine cannot do. Only this
                # shape is accepted, at most three times (one per multi-word branch).
                if is_copy_residual(amt[3] if amt[0] == "op" and amt[1] == "-" else None):
                    n_resid += 1
                    rr.ob(True, key=key, nontrivial=False)
                    rr.assumed += 1
                    if n_resid == 1:
                        rr.assumptions.append("BitFieldVec::copy: the last-word residual r = bit_len - (BITS - pos % BITS) - k * BITS lies in 1..=BITS (it equals ((pos + bit_len - 1) % BITS) + 1); accepted for `MAX >> (BITS - r)` in the three multi-word branches")
                    continue
            rr.ob(ok, key=key, sample={"fn": b.key, "shift": show(F, n)[:80], "needs": need[:120]})
            if not ok:
                rr.violate(key, "%s builds a mask with `%s`, but %s is not established there: at the boundary the shift amount equals the word size (overflow: panic in debug builds, an empty/full mask in release)" % (b.key, show(F, n)[:100], need[:160]), F.loc(n), {"established": known[:12]})


@rule("R11.5", props=["C11", "C06", "C05"], floor=2, title="the packed vectors extend their backend to a size computed from the new logical length only (never from an iterator's size hint or from a capacity)")
def r11_5(ctx, rr):
    """Words beyond ceil(len * width / BITS) are owned and reported by mem_size but hold nothing. A
    `self.bits.resize(n, ..)` whose n derives from `size_hint()` or `capacity()` allocates them for good
    (push only adds a word when the backend is exactly full)."""
    F = ctx.F()
    bodies = [b for b in F.fns() if not is_derived(b) and b.file.endswith(("bits/bit_vec.rs", "bits/bit_field_vec.rs"))]
    for b in bodies:
        hits = []

        def on_node(W, n, K, hits=hits):
            if n.get("k") == "MethodCall" and n["name"] in ("resize", "resize_with", "set_len") and n.get("args") and W.debug_depth == 0:
                rt = W.T.term(n["recv"])
                if not (rt[0] == "field" and rt[2] == "bits") and not mentions(rt, lambda x: x[0] == "field" and x[2] == "bits"):
                    return
                amt = W.expand(W.T.term(n["args"][0]))
                bad = [x for x in subterms(amt) if x[0] == "call" and isinstance(x[1], str) and x[1].split("::")[-1] in ("size_hint", "capacity")]
                # ... nor from the number of words the backend happens to have (spare words left by a shrink
                # would be carried along and added to): `bits.len() + k`
                A, _k = lin(amt)
                bad += [x for x in subterms(A) if x[0] == "call" and x[1] == "len" and len(x[2]) == 1 and mentions(x[2][0], lambda y: y[0] == "field" and y[2] == "bits")]
                hits.append((n, not bad, tshow(amt)[:120]))
        Walker(F, b, on_node=on_node).run()
        for n, ok, amt in hits:
            rr.instances += 1
            key = "%s:backend-grows-to-logical-size" % short_fn(b.key)
            rr.ob(ok, key=key, sample={"fn": b.key, "call": show(F, n)[:80], "size": amt})
            if not ok:
                rr.violate(key, "%s sizes the backend with `%s`, which derives from an iterator's size hint, a capacity or the current number of backend words, not from the number of elements actually stored: words beyond ceil(len * width / BITS) stay allocated" % (b.key, amt), F.loc(n))


SHRINKERS = ("clear", "truncate", "pop", "drain", "split_off", "shrink_to", "shrink_to_fit", "remove", "swap_remove", "retain", "dedup")


@rule("R05.10", props=["C05", "C12"], floor=3, title="no method of BitFieldVec removes words from the backend (zero-width accesses rely on word 0 being there; elements are removed by lowering len only)")
def r05_10(ctx, rr):
    """clear/pop/resize of the vector change `len`; the backend keeps its words. With bit width 0 every access
    reads or writes word 0 and growth never adds a word, so a backend emptied by `self.bits.clear()` makes the
    next push an out-of-bounds write."""
    F = ctx.F()
    bodies = [b for b in F.fns() if not is_derived(b) and b.file.endswith("bits/bit_field_vec.rs") and b.impl_adt in VEC_ADTS and b.sig_in and b.sig_in[0].startswith("&mut")]
    if len(bodies) < 10:
        raise AnchorMissing("expected at least 10 `&mut self` methods of the bit-field vectors")
    n_checked = 0
    for b in bodies:
        slf = ("var", "self", b.params[0]["id"])
        T = Termizer(F, b)
        for n in walk(b.body):
            if n.get("k") == "MethodCall" and n["name"] in SHRINKERS and T.term(n["recv"]) == ("field", slf, "bits"):
                rr.instances += 1
                key = "%s:backend-never-shrinks" % short_fn(b.key)
                rr.ob(False, key=key)
                rr.violate(key, "%s calls `%s` on the backend: removing words breaks the invariant that the backend always holds at least the words of the elements and, for bit width 0, word 0 (the next zero-width push/get touches a word that is no longer there)" % (b.key, show(F, n)[:60]), F.loc(n))
        n_checked += 1
    for _ in range(n_checked):
        rr.instances += 1
        rr.ob(True, key="backend-never-shrinks", nontrivial=False)


@rule("R06.4", props=["C06", "C14", "C05"], floor=10, title="a low-bits mask built from the residual len % BITS is applied only where the residual is known to be non-zero (the mask of residual 0 is empty, not full)")
def r06_4(ctx, rr):
    """`(1 << r) - 1` with r = len % BITS selects the live bits of the last word only when r != 0; for r == 0 the
    last word is full and the mask is 0. Using it unguarded (`last &= mask`) clears a whole word at word-aligned
    lengths."""
    F = ctx.F()
    bodies = [b for b in F.fns() if not is_derived(b) and b.file.endswith(("bits/bit_vec.rs", "bits/bit_field_vec.rs"))]
    inl = ctx.memo("inliner", lambda: make_inliner(F))
    for b in bodies:
        hits = []

        def is_res(t):
            return t[0] == "op" and t[1] == "%" and (is_bits_def(t[3]) or t[3] == ("int", 64)) and mentions(t[2], lambda x: (x[0] == "field" and x[2] == "len") or (x[0] == "var" and x[1] in ("len", "num_bits")) or (x[0] == "call" and x[1].endswith("len")))

        def on_node(W, n, K, hits=hits):
            if W.debug_depth:
                return
            k = n.get("k")
            operand = None
            if k == "AssignOp" and n["op"] == "&=":
                operand = n["r"]
            elif k == "Binary" and n["op"] == "&":
                # either side
                for side in (n["l"], n["r"]):
                    t = canon_masks(W.expand(W.T.term(side)))
                    if t[0] == "un" and t[1] == "!":
                        t = t[2]
                    if t[0] == "lowmask" and is_res(t[1]):
                        operand = side
            if k == "MethodCall" and n["name"] in ("fetch_and", "fetch_or", "fetch_xor") and n["args"]:
                t0 = canon_masks(W.expand(W.T.term(n["args"][0])))
                if t0[0] == "un" and t0[1] == "!":
                    t0 = t0[2]
                if t0[0] == "lowmask" and is_res(t0[1]):
                    ok = K.entails(atom_ne(t0[1], ("int", 0))) or K.entails(atom_le(("int", 1), t0[1]))
                    hits.append((n, ok, tshow(t0[1])[:80]))
                return
            if operand is None:
                return
            t = canon_masks(W.expand(W.T.term(operand)))
            if t[0] == "un" and t[1] == "!":
                t = t[2]
            if t[0] == "lowmask" and is_res(t[1]):
                ok = K.entails(atom_ne(t[1], ("int", 0))) or K.entails(atom_le(("int", 1), t[1]))
                hits.append((n, ok, tshow(t[1])[:80]))
        Walker(F, b, on_node=on_node, inline=inl).run()
        seen = set()
        for n, ok, r in hits:
            loc = F.loc(n)
            if loc in seen:
                continue
            seen.add(loc)
            rr.instances += 1
            key = "%s:residual-mask-guarded" % short_fn(b.key)
            rr.ob(ok, key=key + str(ok))
            if not ok:
                rr.violate(key, "%s applies the low-bits mask of the residual `%s` in `%s` without `residual != 0` being established: at a word-aligned length the mask is 0 and the whole last word is cleared" % (b.key, r, show(F, n)[:80]), loc)


@rule("R06.5", props=["C06", "C05", "C14", "C13"], floor=25, title="a bit address is split consistently: the word index `A / BITS` and the in-word offset `A % BITS` used in one access come from the same position A")
def r06_5(ctx, rr):
    """Every single-bit or field access of the bit-level structures computes (word, offset) = (A / BITS, A % BITS).
    An access whose word index is derived from one position and whose shift amount from another (pop reading
    word `len / BITS` at offset `(len - 1) % BITS`) addresses a different bit at word boundaries only.
    `copy` moves data between two positions and is covered by R10.1-R10.3 instead."""
    F = ctx.F()

    def is_ws(x):
        return x == ("int", 64) or (x[0] == "def" and x[1].endswith("BITS"))

    def norm(t):
        # `self.len()` and `self.len` denote the same quantity
        if not isinstance(t, tuple):
            return t
        if t[0] == "call" and t[1] in ("len", "BitLength::len", "BitFieldSliceCore::len") and len(t[2]) == 1 and t[2][0][0] == "var" and t[2][0][1] == "self":
            return ("field", norm(t[2][0]), "len")
        return tuple(norm(x) if isinstance(x, tuple) else x for x in t)

    n_fns = 0
    for b in F.fns():
        if not (b.file.endswith("bits/bit_vec.rs") or b.file.endswith("bits/bit_field_vec.rs")):
            continue
        if is_derived(b) or b.name == "copy" or b.name == "mem_size" or "mem_dbg" in b.key or "epserde" in b.key:
            continue
        hits = {}

        def on_node(W, n, K, hits=hits):
            k = n.get("k")
            if W.debug_depth:
                return
            if k in ("AssignOp", "Assign"):
                ts = [W.expand(W.T.term(n["l"])), W.expand(W.T.term(n["r"]))]
            elif k == "MethodCall" and n["name"] in ("fetch_or", "fetch_and", "fetch_xor", "store", "compare_exchange", "swap"):
                ts = [W.expand(W.T.term(n["recv"]))] + [W.expand(W.T.term(a)) for a in n["args"]]
            elif k == "Binary":
                ts = [W.expand(W.T.term(n))]
            else:
                return
            D, M = set(), set()
            for t in ts:
                t = canon_masks(norm(t))
                for x in subterms(t):
                    if x[0] == "index" and x[2][0] == "op" and x[2][1] == "/" and is_ws(x[2][3]):
                        D.add(x[2][2])
                    if x[0] == "call" and x[1].endswith(("get_unchecked", "get_unchecked_mut")) and len(x[2]) == 2 and x[2][1][0] == "op" and x[2][1][1] == "/" and is_ws(x[2][1][3]):
                        D.add(x[2][1][2])
                    if x[0] == "op" and x[1] in ("<<", ">>") and x[3][0] == "op" and x[3][1] == "%" and is_ws(x[3][3]):
                        M.add(x[3][2])
                    if x[0] == "lowmask" and x[1][0] == "op" and x[1][1] == "%" and is_ws(x[1][3]):
                        M.add(x[1][2])
            if D and M:
                hits.setdefault((tuple(sorted(map(repr, D))), tuple(sorted(map(repr, M)))), (n, D, M))
        Walker(F, b, on_node=on_node).run()
        if not hits:
            continue
        n_fns += 1
        atomic = "Atomic" in b.key
        bitvec = b.file.endswith("bits/bit_vec.rs")
        scope = (["C06", "C14"] if bitvec else ["C05", "C14"]) + (["C13"] if atomic else [])
        for (dk, mk), (n, D, M) in sorted(hits.items()):
            rr.instances += 1
            key = "%s:one-position-per-access" % short_fn(b.key)
            ok = D == M
            rr.ob(ok, key=key, sample={"fn": b.key, "word_of": [tshow(x)[:60] for x in D], "offset_of": [tshow(x)[:60] for x in M]})
            if not ok:
                rr.violate(key, "%s: `%s` takes the word index from %s and the in-word offset from %s; the two agree except at word boundaries" % (
                    b.key, show(F, n)[:100], " / ".join("`%s`" % tshow(x)[:60] for x in D), " / ".join("`%s`" % tshow(x)[:60] for x in M)), F.loc(n), props=scope)
    if n_fns < 15:
        raise AnchorMissing("R06.5 found bit-address splits in %d functions only" % n_fns)


@rule("R14.5", props=["C14", "C06", "C05", "C01", "C02"], floor=6, title="observers never look at how many words the backend has (its length, its last word): only the first ceil(len*width/BITS) words are contents")
def r14_5(ctx, rr):
    """A backend may be longer than the logical contents need (after pop/resize/clear, or when handed to
    from_raw_parts). Equality and counting that consult `bits.len()`, `bits.last()` ... give different answers
    for equal contents depending on the vector's history."""
    F = ctx.F()
    WHOLE = ("slice::len", "Vec::len", "slice::last", "slice::split_last", "slice::is_empty", "Vec::is_empty", "slice::last_mut", "Vec::capacity", "slice::ends_with")
    for path, _ in READERS:
        b = F.one(path)
        rr.instances += 1
        bitvec = b.file.endswith("bits/bit_vec.rs")
        sc = (["C06", "C14"] if bitvec else ["C05", "C14"]) + (["C01", "C02"] if "count_ones" in b.name and "Atomic" not in b.key else [])
        bad = []

        def on_node(W, n, K, bad=bad):
            if W.debug_depth:
                return
            if n.get("k") == "MethodCall" and cname(F, n) in WHOLE:
                t = W.expand(W.T.term(n["recv"]))
                # the receiver is the backend itself (not a sub-slice of it)
                if t[0] in ("var", "field") or (t[0] == "call" and t[1] in ("AsRef::as_ref", "Deref::deref")):
                    bad.append(n)
        Walker(F, b, on_node=on_node).run()
        key = "%s:independent-of-backend-length" % short_fn(b.key)
        rr.ob(not bad, key=key, sample={"fn": b.key})
        for n in bad[:1]:
            rr.violate(key, "%s consults `%s`: the number of words of the backend (or its last word) is not part of the logical contents; two vectors with equal contents and different histories would be told apart" % (b.key, show(F, n)[:80]), F.loc(n), props=sc)


@rule("R06.6", props=["C06", "C05", "C03"], floor=3, title="Extend: the logical length follows every element inside the loop over the caller's iterator (a panicking or early-ending source leaves what was appended so far)")
def r06_6(ctx, rr):
    """`extend` consumes an iterator supplied by the caller, which may panic or stop at any element. A Vec keeps
    the elements appended so far; so must these structures: the iteration that stores an element also advances
    the length (through `push`, or by assigning the length field in the loop body), never a local copy written
    back after the loop."""
    F = ctx.F()
    exts = [b for b in F.fns() if b.name == "extend" and re.search(r" as (std|core)::iter::Extend<", b.key)]
    if len(exts) < 3:
        raise AnchorMissing("expected the Extend impls of BitVec, BitFieldVec and EliasFanoBuilder, found %d" % len(exts))
    for b in exts:
        loops = [n for n in walk(b.body) if n.get("k") == "Loop"]
        rr.instances += 1
        key = "%s:length-follows-each-element" % short_fn(b.key)
        if not loops:
            # delegating to another extend/for_each is fine as long as it goes through push
            ok = any(n.get("k") == "MethodCall" and n["name"] in ("push", "extend") for n in walk(b.body))
            rr.check(ok, key, "%s has neither a loop nor a delegation to push/extend" % b.key, b.span, props=_ext_scope(b))
            continue
        lp = loops[0]
        body = lp["body"]
        pushes = [n for n in walk(body) if n.get("k") == "MethodCall" and n["name"] in ("push", "push_unchecked") and n["recv"].get("k") == "Path" and n["recv"].get("name") == "self"]
        len_writes = [n for n in walk(body) if n.get("k") in ("Assign", "AssignOp") and n["l"].get("k") == "Field" and n["l"]["name"] in ("len", "count") and n["l"]["e"].get("k") == "Path" and n["l"]["e"].get("name") == "self"]
        self_writes = [n for n in walk(body) if (n.get("k") in ("Assign", "AssignOp") and any(x.get("k") == "Path" and x.get("name") == "self" for x in walk(n["l"]))) or
                       (n.get("k") == "MethodCall" and n["name"] in ("push", "set_unchecked", "set", "resize", "reserve") and any(x.get("k") == "Path" and x.get("name") == "self" for x in walk(n["recv"])))]
        ok = bool(pushes) or bool(len_writes) or not self_writes
        rr.ob(ok, key=key, sample={"fn": b.key, "via_push": bool(pushes), "len_assigned_in_loop": bool(len_writes)})
        if not ok:
            rr.violate(key, "%s stores elements inside the loop over the caller's iterator (`%s`) but advances the length only outside it: if the iterator panics, the elements already appended are lost (a Vec keeps them)" % (b.key, show(F, self_writes[0])[:80]), F.loc(self_writes[0]), props=_ext_scope(b))


def _ext_scope(b):
    if b.file.endswith("bits/bit_vec.rs"):
        return ["C06"]
    if b.file.endswith("bits/bit_field_vec.rs"):
        return ["C05"]
    return ["C03"]


@rule("R12.8", props=["C12", "C05"], floor=5, title="constructors and resize of the bit-field vectors compute `count * bit_width` with a checked multiplication (a wrapped product pairs a huge len with a tiny backend in release builds)")
def r12_8(ctx, rr):
    """overflow-checks are off in the release profile: `(len * bit_width).div_ceil(BITS)` wraps, the structure is
    created with the caller's len and a backend of a few words, and the *checked* accessors (index < len) then read
    and write out of bounds."""
    F = ctx.F()
    specs = [r"^bits::bit_field_vec::BitFieldVec::<W>::new$", r"^bits::bit_field_vec::BitFieldVec::<W>::new_unaligned$",
             r"^bits::bit_field_vec::BitFieldVec::<W>::with_capacity$", r"^bits::bit_field_vec::BitFieldVec::<W>::resize$",
             r"^bits::bit_field_vec::AtomicBitFieldVec::<W>::new$"]
    # helpers whose whole job is a checked product
    checked_helpers = set()
    for h in F.fns():
        if h.file.endswith("bits/bit_field_vec.rs") and not is_derived(h) and any(x.get("k") == "MethodCall" and x["name"] == "checked_mul" for x in walk(h.body)) and len([p for p in h.params if p.get("k") == "PBind"]) == 2:
            checked_helpers.add(h.path)
    for path in specs:
        b = F.one(path)
        pids = set(p["id"] for p in b.params if p.get("k") == "PBind" and p["name"] != "self")

        def is_count(e):
            return e.get("k") == "Path" and e.get("res") == "local" and e.get("id") in pids

        def is_width(e):
            return is_count(e) or (e.get("k") == "Field" and e["name"] == "bit_width") or (e.get("k") == "MethodCall" and e["name"] == "bit_width")
        raw = [n for n in walk(b.body) if n.get("k") == "Binary" and n["op"] == "*" and not is_debug_only(F, n) and ((is_count(n["l"]) and is_width(n["r"])) or (is_count(n["r"]) and is_width(n["l"])))]
        checked = [n for n in walk(b.body) if (n.get("k") == "MethodCall" and n["name"] == "checked_mul") or (n.get("k") == "Call" and (F.callee(n) or "") in checked_helpers)]
        rr.instances += 1
        key = "%s:checked-size-product" % short_fn(b.key)
        ok = not raw and bool(checked)
        rr.ob(ok, key=key, sample={"fn": b.key, "checked_products": len(checked), "raw_products": len(raw)})
        if not ok:
            where = raw[0] if raw else b.body
            rr.violate(key, "%s computes the number of bits of caller-supplied sizes with an unchecked product (`%s`): in a release build it wraps, the vector keeps the caller's length over a backend of a few words, and get/set (whose index check passes) access memory out of bounds" % (b.key, show(F, raw[0])[:60] if raw else "no checked product found"), F.loc(where) if raw else b.span)


@rule("R14.9", props=["C14", "C05", "C06"], floor=2, title="a packed vector whose equality ignores the storage beyond its elements is not hashed through that storage (no derived Hash next to the masking PartialEq; a hand-written one hashes sub-ranges and masked words only)")
def r14_9(ctx, rr):
    """Equality of BitVec / BitFieldVec compares the elements and ignores stale bits of the last word and spare
    words (R14.5); `#[derive(Hash)]` hashes the backend field as it is, so two equal vectors with different
    histories hash differently (and a HashSet holds both). Hashing is a read of the contents like any other."""
    from guards import is_derived
    F = ctx.F()
    eqs = [b for b in F.fns() if b.name == "eq" and (b.impl_trait or "").endswith("cmp::PartialEq") and not is_derived(b) and b.file.endswith(("bits/bit_vec.rs", "bits/bit_field_vec.rs"))]
    adts = sorted(set(b.impl_adt for b in eqs if b.impl_adt))
    if len(adts) < 2:
        raise AnchorMissing("expected the hand-written PartialEq of BitVec and BitFieldVec, found %s" % adts)
    for adt in adts:
        hs = [b for b in F.fns() if b.name == "hash" and (b.impl_trait or "").endswith("hash::Hash") and b.impl_adt == adt]
        sc = ["C14", "C06"] if adt.endswith("BitVec") else ["C14", "C05"]
        short = adt.split("::")[-1]
        rr.instances += 1
        key = "%s:hash-agrees-with-eq" % short
        bad = None
        for h in hs:
            if is_derived(h):
                bad = (h, "derives Hash: the derived implementation hashes the backend field whole, stale bits and spare words included")
                break
            slf = ("var", "self", h.params[0]["id"]) if h.params else None

            def on_node(W, n, K, h=h):
                nonlocal bad
                if n.get("k") == "MethodCall" and n["name"] == "hash" and bad is None:
                    t = W.expand(W.T.term(n["recv"]))
                    # the backend itself (a field, or a view of all of it) rather than a sub-range or a word of it
                    while t[0] == "call" and t[1] in ("AsRef::as_ref", "Deref::deref", "Vec::as_slice", "Borrow::borrow") and t[2]:
                        t = t[2][0]
                    if t[0] == "field" and t[2] not in ("len", "bit_width", "mask") and "usize" not in F.ty(n["recv"]):
                        bad = (h, "hashes `%s`, the whole backend" % show(F, n["recv"])[:60])
            Walker(F, h, on_node=on_node).run()
        rr.ob(bad is None, key=key, sample={"type": adt, "hash_impls": [h.key for h in hs]})
        if bad is not None:
            rr.violate(key, "%s: equality compares the elements only, but %s %s: equal vectors with different histories (a pop, a shrinking resize, spare words) get different hashes" % (adt, bad[0].key, bad[1]), bad[0].span, props=sc)


@rule("R14.10", props=["C14", "C06", "C05", "C10"], floor=2, title="the word at the end of the contents is rewritten under the low mask of the length residual `len % BITS` only where that residual is known to be non-zero (the mask of 0 bits selects nothing: a full word is cleared, or the word after the last one is touched)")
def r14_10(ctx, rr):
    """`word &= (1 << (n % BITS)) - 1` keeps the first n % BITS bits; for n a multiple of BITS the mask is 0 and the
    statement wipes a whole word that, by the very computation of its index, is a full word of valid contents. Every
    such statement on today's tree sits under `if residual != 0` (or an early return on residual == 0)."""
    F = ctx.F()
    n_sites = 0
    for b in F.fns():
        if not b.file.endswith(("bits/bit_vec.rs", "bits/bit_field_vec.rs")) or b.dk not in ("Fn", "AssocFn"):
            continue
        sites = []
        # what the function makes the logical length: `self.len = e`
        new_lens = []

        def length_like(x, new_lens=new_lens):
            # the logical length (or the value that becomes it here), possibly times the bit width: the *end* of the
            # contents, as opposed to the start position of an element (whose residual 0 rightly keeps nothing)
            if x[0] == "op" and x[1] == "*":
                return length_like(x[2]) or length_like(x[3])
            if x[0] == "field" and x[2] == "len" and x[1][0] == "var" and x[1][1] == "self":
                return True
            if x[0] == "call" and x[1].split("::")[-1] == "len" and len(x[2]) == 1 and x[2][0][0] == "var" and x[2][0][1] == "self":
                return True
            return x in new_lens

        def on_node(W, n, K, sites=sites, new_lens=new_lens):
            if n.get("k") == "Assign" and n["l"].get("k") == "Field" and n["l"]["name"] == "len":
                new_lens.append(W.expand(W.T.term(n["r"])))
            if W.debug_depth or n.get("k") not in ("AssignOp", "Assign") or n["l"].get("k") == "Path":
                return
            t = canon_masks(W.expand(W.T.term(n["r"])))
            def unguarded(x):
                # sub-terms, except the branches of a conditional value that itself tests a residual (`if residual != 0 { .. mask .. } else { 0 }`)
                yield x
                if x[0] == "ite" and mentions(x[1], lambda y: y[0] == "op" and y[1] == "%"):
                    return
                for y in x[1:]:
                    if isinstance(y, tuple) and y and isinstance(y[0], str):
                        yield from unguarded(y)
                    elif isinstance(y, tuple):
                        for z in y:
                            if isinstance(z, tuple) and z and isinstance(z[0], str):
                                yield from unguarded(z)
            for m in unguarded(t):
                if m[0] == "lowmask" and m[1][0] == "op" and m[1][1] == "%" and _is_wordbits_like(m[1][3]):
                    pending.append((n, m[1], K.entails(atom_ne(m[1], ("int", 0))) or K.entails(atom_le(("int", 0), m[1], True)), K.show()))
                    break
            if False:
                sites.append((n, t[1], K.entails(atom_ne(t[1], ("int", 0))) or K.entails(atom_le(("int", 0), t[1], True)), K.show()))
        pending = []
        try:
            Walker(F, b, on_node=on_node).run()
        except RecursionError:
            continue
        # (the assignment to self.len usually follows the masking: decide once the whole body has been walked)
        sites = [x for x in pending if length_like(x[1][2])]
        for n, r, ok, known in sites:
            n_sites += 1
            rr.instances += 1
            bitvec = b.file.endswith("bits/bit_vec.rs")
            key = "%s:low-mask-of-nonzero-residual" % short_fn(b.key)
            rr.ob(ok, key=key, sample={"fn": b.key, "stmt": show(F, n)[:100], "residual": tshow(r)})
            if not ok:
                rr.violate(key, "%s: `%s` keeps the low `%s` bits of a backend word without `%s != 0` established: when it is 0 the mask is 0 and a full word of contents is cleared (established: %s)" % (
                    b.key, show(F, n)[:100], tshow(r), tshow(r), "; ".join(known[:5]) or "nothing"), F.loc(n), props=(["C14", "C06", "C10"] if bitvec else ["C14", "C05", "C10"]))
    if n_sites < 2:
        raise AnchorMissing("R14.10 found %d last-word statements under a length-residual mask, expected at least 2" % n_sites)


def _is_wordbits_like(t):
    return (t[0] == "def" and t[1].endswith("BITS")) or (t[0] == "int" and t[1] in (8, 16, 32, 64, 128))


@rule("R06.7", props=["C06", "C12", "C14"], floor=2, title="the bit iterators keep their cursor within 0..=len in every method that moves it (the end test of next() is an equality)")
def r06_7(ctx, rr):
    """BitIterator / AtomicBitIterator::next stop on `next_bit_pos == len` and read the word of the cursor unchecked:
    the structure invariant `next_bit_pos <= len` is what makes the equality test an end test. Every method of the
    iterator types that writes the cursor (next, and any override of nth / advance_by / fold added later) must
    re-establish it, assuming it on entry."""
    F = ctx.F()
    its = [b for b in F.fns() if b.file.endswith("bits/bit_vec.rs") and re.search(r"(Atomic)?BitIterator<", b.impl_self or "") and b.params and b.params[0].get("name") == "self"]
    n_writes = 0
    for b in its:
        slf = ("var", "self", b.params[0]["id"])
        cur, ln = ("field", slf, "next_bit_pos"), ("field", slf, "len")
        found = []

        def on_node(W, n, K, found=found, cur=cur, ln=ln):
            if n.get("k") in ("Assign", "AssignOp") and n["l"].get("k") == "Field" and n["l"]["name"] == "next_bit_pos":
                old = W.T.term(n["l"])
                r = W.T.term(n["r"])
                new = r if n["k"] == "Assign" else mk_op(n["op"][:-1], old, r)
                ok = K.entails(atom_le(new, ln))
                if not ok and n["k"] == "AssignOp" and n["op"] == "+=" and r == ("int", 1):
                    ok = K.entails(atom_le(old, ln, True))
                found.append((n, ok, tshow(new), K.show()))
        Walker(F, b, on_node=on_node, assume=[atom_le(cur, ln)]).run()
        for n, ok, new, known in found:
            n_writes += 1
            rr.instances += 1
            key = "%s:cursor<=len" % short_fn(b.key)
            rr.ob(ok, key=key, sample={"fn": b.key, "new cursor": new, "established": known[:4]})
            if not ok:
                rr.violate(key, "%s moves the cursor to `%s` without `<= self.len` established (assuming next_bit_pos <= len on entry; established: %s): next() ends the iteration on `next_bit_pos == len` only, so a cursor beyond len yields bits that are not part of the vector and then reads past the backend" % (
                    b.key, new, "; ".join(known[:5]) or "nothing"), F.loc(n))
    if n_writes < 2:
        raise AnchorMissing("R06.7: expected the cursor updates of BitIterator::next and AtomicBitIterator::next, found %d" % n_writes)


@rule("R06.8", props=["C06", "C05", "C01", "C14"], floor=2, title="a method of a growable packed vector appends a word to its backend only where the contents are known to reach the end of the backend (the words are addressed by len / BITS, and a backend may have spare words)")
def r06_8(ctx, rr):
    """After pop, a shrinking resize, clear, or from_raw_parts over a longer vector the backend has more words than
    the contents need. `bits.push(w)` puts w after the *last word of the backend*; it is the word at len / BITS only
    when `bits.len() * BITS` does not exceed the position being written. push() tests exactly that before growing."""
    F = ctx.F()
    n_sites = 0
    for b in F.fns():
        if not b.file.endswith(("bits/bit_vec.rs", "bits/bit_field_vec.rs")) or not b.params or b.params[0].get("name") != "self":
            continue
        if not re.search(r"^(bits::bit_vec::BitVec|bits::bit_field_vec::BitFieldVec)(<|$)", (b.impl_self or "")):
            continue
        slf = ("var", "self", b.params[0]["id"])
        be = ("field", slf, "bits")
        sites = []
        subs = []

        def on_node(W, n, K, sites=sites, be=be, slf=slf, subs=subs):
            if not W.debug_depth and n.get("k") == "Binary" and n["op"] == "-" and F.ty(n) in ("usize", "u64", "u32"):
                # `needed - bits.len()`: the backend may well be longer than any count derived from the contents
                rt = W.expand(W.T.term(n["r"]))
                if rt[0] == "call" and rt[1].split("::")[-1] == "len" and len(rt[2]) == 1 and W.expand(rt[2][0]) in (be, ("call", "AsRef::as_ref", (be,))):
                    lt = W.expand(W.T.term(n["l"]))
                    okd = K.entails(atom_le(rt, lt))
                    subs.append((n, okd, K.show()))
            if W.debug_depth or n.get("k") != "MethodCall" or n["name"] not in ("push", "extend_from_slice", "extend", "resize", "insert") or cname(F, n) is None or not cname(F, n).startswith("Vec::"):
                return
            if W.expand(W.T.term(n["recv"])) != be:
                return
            def is_backend_len(x):
                return mentions(x, lambda y: y[0] == "call" and y[1].split("::")[-1] == "len" and len(y[2]) == 1 and W.expand(y[2][0]) in (be, ("call", "AsRef::as_ref", (be,))))
            def is_contents(x):
                return mentions(x, lambda y: y == ("field", slf, "len"))
            # resize(n, 0) with n computed from the new length is growth *to* a size, not an append
            if n["name"] == "resize":
                return
            ok = any(a[0] == "le" and is_backend_len(W.expand(a[1])) and not is_contents(W.expand(a[1])) and is_contents(W.expand(a[2])) for a in K.atoms)
            sites.append((n, ok, K.show()))
        try:
            Walker(F, b, on_node=on_node).run()
        except RecursionError:
            continue
        for n, okd, known in subs:
            rr.instances += 1
            key = "%s:backend-length-subtracted" % short_fn(b.key)
            rr.ob(okd, key=key, sample={"fn": b.key, "expr": show(F, n)[:80]})
            if not okd:
                rr.violate(key, "%s computes `%s` without `bits.len() <= ...` established (established: %s): after pop / a shrinking resize / clear the backend has more words than the contents need, and the subtraction underflows (a panic in debug builds, a huge reservation in release)" % (
                    b.key, show(F, n)[:80], "; ".join(known[:4]) or "nothing"), F.loc(n), props=(["C06", "C14"] if b.file.endswith("bits/bit_vec.rs") else ["C05", "C14"]))
        for n, ok, known in sites:
            n_sites += 1
            rr.instances += 1
            key = "%s:append-only-when-backend-is-exhausted" % short_fn(b.key)
            bitvec = b.file.endswith("bits/bit_vec.rs")
            rr.ob(ok, key=key, sample={"fn": b.key, "site": show(F, n)[:80], "established": known[:4]})
            if not ok:
                rr.violate(key, "%s: `%s` appends after the last word of the backend without `bits.len() * BITS <= (position written)` established (established: %s): on a vector whose backend has spare words (after pop / a shrinking resize / clear / from_raw_parts) the new word is not the word at len / BITS, and len advances over stale words" % (
                    b.key, show(F, n)[:80], "; ".join(known[:5]) or "nothing"), F.loc(n), props=(["C06", "C01", "C14"] if bitvec else ["C05", "C14"]))
    if n_sites < 2:
        raise AnchorMissing("R06.8: expected the guarded backend growth of BitVec::push and BitFieldVec::push, found %d sites" % n_sites)


_INT_W = {"u8": 8, "i8": 8, "u16": 16, "i16": 16, "u32": 32, "i32": 32, "u64": 64, "i64": 64, "usize": 64, "isize": 64, "u128": 128, "i128": 128}


@rule("R12.9", props=["C04", "C03", "C05", "C06", "C01", "C02", "C10", "C12", "C14", "C16", "C07", "C09", "C18"], floor=60, title="a mask or bound built from a literal shifted by a variable amount is computed in the type it is used in (not in a narrower or signed type -- the i32 a bare literal falls back to -- and widened by a cast afterwards)")
def r12_9(ctx, rr):
    """`((1 << l) - 1) as usize` type-checks with the literal falling back to i32: the shift overflows from l = 31
    (a panic in debug builds, a wrong mask in release) although the surrounding code is written for l up to 63."""
    F = ctx.F()
    n_sites = 0
    for b in F.bodies:
        if "::tests::" in b.path or "::test::" in b.path or not b.file.startswith("src/"):
            continue
        for n, ps in walk_with_parents(b.body):
            if not (n.get("k") == "Binary" and n["op"] == "<<" and n["l"].get("k") == "Lit" and n["r"].get("k") != "Lit"):
                continue
            n_sites += 1
            rr.instances += 1
            ty = F.ty(n)
            # the value flows through arithmetic into a cast?
            cast_ty = None
            child = n
            for p in reversed(ps):
                if p.get("k") == "Binary" and p["op"] in ("-", "+", "|", "&", "^", "*") and F.ty(p) == ty:
                    child = p
                    continue
                if p.get("k") == "Unary" and p.get("op") in ("!", "-"):
                    child = p
                    continue
                if p.get("k") == "Cast" and p.get("e") is child:
                    cast_ty = F.ty(p)
                break
            bad = cast_ty is not None and cast_ty in _INT_W and ty in _INT_W and (_INT_W[cast_ty] > _INT_W[ty] or (ty.startswith("i") and not cast_ty.startswith("i")))
            key = "%s:shift-computed-in-%s-used-as-%s" % (strip_generics(b.key or b.path).split("::")[-1], ty, cast_ty)
            rr.ob(not bad, key="literal-shift-type", nontrivial=bad)
            if bad:
                rr.violate(key, "%s: `%s` is computed in %s (the type its literal falls back to) and only then cast to %s: the shift overflows for amounts from %d upwards, which the %s-typed code around it allows" % (
                    b.key or b.path, show(F, n)[:60], ty, cast_ty, _INT_W[ty] - (1 if ty.startswith("i") else 0), cast_ty), F.loc(n))
    if n_sites < 60:
        raise AnchorMissing("R12.9 saw %d literal shifts by a variable amount, expected at least 60" % n_sites)


@rule("R05.9", props=["C05", "C06", "C18", "C03"], floor=5, title="an iterator that overrides nth/advance_by gives up (returns None) only in a state in which its own next() returns None (an overshooting jump leaves the iterator exhausted, as repeated next() would)")
def r05_9(ctx, rr):
    """`Iterator::nth(n)` is specified as n+1 calls of next(): when fewer than n+1 items remain it returns None *and
    the iterator is exhausted*. An override that returns None from the overshoot test without moving the cursor to
    the end keeps yielding the items it claimed to have skipped (skip(), step_by() and nth() are built on it)."""
    from guards import is_derived
    F = ctx.F()
    impls = {}
    for b in F.fns():
        if (b.impl_trait or "").endswith("iter::Iterator") and not is_derived(b) and b.file.startswith("src/") and b.name in ("next", "nth", "advance_by"):
            impls.setdefault(b.impl_self, {})[b.name] = b

    def none_exits(b):
        """[(node, atoms)] for the `None` values in return position"""
        pm = {id(n): ps for n, ps in walk_with_parents(b.body)}
        out = []

        def on_node(W, n, K):
            if n.get("k") == "Path" and n.get("name") == "None" and n.get("res") == "def" and not W.debug_depth:
                child = n
                ok = True
                for p in reversed(pm.get(id(n), ())):
                    k = p.get("k")
                    if k == "Block" and p.get("expr") is child:
                        pass
                    elif k == "If" and child is not p.get("c"):
                        pass
                    elif k == "Match" and child is not p.get("e"):
                        pass
                    elif k == "Ret":
                        break
                    elif k in ("Closure", "Loop"):
                        ok = k == "Loop"
                        if not ok:
                            break
                    elif k == "Block":
                        ok = False
                        break
                    else:
                        ok = False
                        break
                    child = p
                if ok:
                    out.append((n, list(K.atoms), K.copy()))
        Walker(F, b, on_node=on_node).run()
        return out
    n_impls = 0
    for ty, fs in sorted(impls.items(), key=lambda x: str(x[0])):
        if "next" not in fs:
            continue
        n_impls += 1
        rr.instances += 1
        ovr = [fs[k] for k in ("nth", "advance_by") if k in fs]
        if not ovr:
            rr.ob(True, key="iterator:no-jump-override", nontrivial=False)
            continue
        nx = none_exits(fs["next"])
        slf_next = ("var", "self", fs["next"].params[0]["id"])
        # the exhaustion test of next(): the facts about self under which it returns None
        ex = None
        for n, atoms, K in nx:
            mine = [a for a in atoms if mentions(a, lambda x: x == slf_next)]
            if mine:
                ex = mine
                break
        for o in ovr:
            slf_o = ("var", "self", o.params[0]["id"])
            key = "%s:%s:gives-up-only-when-exhausted" % (short_fn(o.key), o.name)
            if ex is None:
                rr.ob(True, key=key, nontrivial=False)
                continue
            for n, atoms, K in none_exits(o):
                need = [rewrite_term(a, slf_next, slf_o) for a in ex]
                ok = all(K.entails(a) for a in need)
                rr.instances += 1
                rr.ob(ok, key=key, sample={"fn": o.key, "next() is exhausted when": [ashow(a) for a in need], "established": K.show()[:5]})
                if not ok:
                    rr.violate(key, "%s returns None at %s in a state in which next() would still yield an item (next() gives up when %s; established here: %s): after an overshooting jump the iterator must be exhausted, as after the same number of next() calls" % (
                        o.key, F.loc(n), " and ".join(ashow(a) for a in need), "; ".join(K.show()[:5]) or "nothing"), F.loc(n))
    if n_impls < 5:
        raise AnchorMissing("R05.9 examined %d hand-written Iterator impls, expected at least 5" % n_impls)
