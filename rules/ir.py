"""Loader and helpers for the typed-HIR fact file written by /verif/driver (sux-facts).

Nodes are plain dicts as emitted by the driver; this module adds interned-table
resolution, child iteration, a source-like printer and a few classification
helpers (macro provenance, divergence, callee matching).
"""
import json
import os
import re

CHILD_KEYS_EXPR = (
    "f", "recv", "args", "l", "r", "e", "i", "c", "th", "el", "init", "body",
    "es", "base", "expr", "stmts", "els", "guard",
)


class Body:
    __slots__ = ("raw", "facts", "path", "dk", "name", "unsafe", "pub", "params",
                 "body", "in_trait", "impl_trait", "impl_trait_ref", "impl_self",
                 "impl_adt", "span", "file", "line", "endline", "mac", "impl_mac",
                 "sig_in", "ret", "preds", "impl_preds", "key")

    def __init__(self, raw, facts):
        self.raw = raw
        self.facts = facts
        self.path = raw["path"]
        self.dk = raw["dk"].split(" ")[0]
        self.name = raw.get("name", "")
        self.unsafe = raw.get("unsafe", False)
        self.pub = raw.get("pub", False)
        self.params = raw.get("params", [])
        self.body = raw["body"]
        if os.environ.get("VERIF_NO_ASTNORM") != "1":
            try:
                import astnorm
                self.body = astnorm.normalize_body(self.body)
            except RecursionError:
                pass
        P = facts.paths
        T = facts.types
        self.in_trait = P[raw["in_trait"]] if "in_trait" in raw else None
        self.impl_trait = P[raw["impl_trait"]] if "impl_trait" in raw else None
        self.impl_trait_ref = raw.get("impl_trait_ref")
        self.impl_self = T[raw["impl_self"]] if "impl_self" in raw else None
        self.impl_adt = P[raw["impl_adt"]] if "impl_adt" in raw else None
        fi, l0, l1 = raw["s"].split(":")
        self.file = facts.files[int(fi)]
        self.line = int(l0)
        self.endline = int(l1)
        self.span = "%s:%s" % (self.file, l0)
        self.mac = facts.macros[raw["m"]] if "m" in raw else ""
        self.impl_mac = facts.macros[raw["impl_m"]] if "impl_m" in raw else ""
        self.sig_in = [T[i] for i in raw.get("sig_in", [])]
        self.ret = T[raw["ret"]] if "ret" in raw else None
        self.preds = raw.get("preds", "")
        self.impl_preds = raw.get("impl_preds", "")
        self.key = None  # set by Facts (unique)

    def __repr__(self):
        return "<Body %s @%s>" % (self.path, self.span)


class Facts:
    def __init__(self, path):
        with open(path) as f:
            d = json.load(f)
        self.raw = d
        self.types = d["types"]
        self.macros = d["macros"]
        self.files = d["files"]
        self.paths = d["paths"]
        self.adts = {a["path"]: a for a in d["adts"]}
        self.impls = d["impls"]
        self.traits = {t["path"]: t for t in d["traits"]}
        self.bodies = [Body(b, self) for b in d["bodies"]]
        self.by_path = {}
        for b in self.bodies:
            self.by_path.setdefault(b.path, []).append(b)
        for p, bs in self.by_path.items():
            if len(bs) == 1:
                bs[0].key = p
            else:
                for i, b in enumerate(sorted(bs, key=lambda b: (b.file, b.line))):
                    b.key = "%s#%d" % (p, i)
        self.n_bodies = d["n_bodies"]
        # helpers the reference tree does not have are inlined into their callers (see rules/astnorm.py)
        self.inlined_sites = 0
        self.new_consts = {}
        self.renamed = {}
        if os.environ.get("VERIF_NO_ASTNORM") != "1":
            kp = os.path.join(os.path.dirname(os.path.dirname(os.path.abspath(__file__))), "tables", "known_fns.json")
            if os.path.exists(kp):
                import astnorm
                with open(kp) as f:
                    kd = json.load(f)
                known = set(kd["paths"])
                # a known function that is gone while exactly one unknown function of the same parent (impl / module)
                # and the same number of parameters appeared is that function under a new name: anchors written
                # against the old name keep finding it, and it is not treated as an extracted helper
                cur = {}
                for b in self.bodies:
                    if b.dk in ("Fn", "AssocFn"):
                        cur.setdefault(canon_generics(b.path), []).append(b)
                known_c = set(canon_generics(k) for k in known)
                missing = [k for k in sorted(known_c) if k not in cur]
                fresh = [k for k in sorted(cur) if k not in known_c]
                self.renamed = {}
                sigs = {canon_generics(k): v for k, v in kd.get("sigs", {}).items()}
                taken = set()
                for m in missing:
                    parent = m.rsplit("::", 1)[0]
                    cands = [f for f in fresh if f.rsplit("::", 1)[0] == parent and len(cur[f]) == 1 and f not in taken]
                    if len(cands) > 1 and m in sigs:
                        # several renames in one impl / module: the one with the same signature
                        same = [f for f in cands if "%s -> %s" % (", ".join(str(t) for t in cur[f][0].sig_in), cur[f][0].ret) == sigs[m]]
                        if len(same) > 1:
                            # ... and, among those, the one whose name contains the old name (or is contained in it)
                            old = m.rsplit("::", 1)[1]
                            near = [f for f in same if old in f.rsplit("::", 1)[1] or f.rsplit("::", 1)[1] in old]
                            same = near if len(near) == 1 else same
                        cands = same
                    if len(cands) == 1:
                        self.renamed[m] = cur[cands[0]][0]
                        taken.add(cands[0])
                known = known | set(b.path for b in self.renamed.values())
                kc = set(canon_generics(c) for c in kd.get("consts", []))
                # constants the reference tree does not have (introduced by an edit): expanded wherever they are used
                self.new_consts = {b.path: b for b in self.bodies if b.dk in ("Const", "AssocConst") and canon_generics(b.path) not in kc}
                self.ctor_sites = astnorm.inline_delegating_constructors(self)
                try:
                    self.inlined_sites = astnorm.inline_new_helpers(self, known)
                    if self.inlined_sites:
                        for b in self.bodies:
                            if any(isinstance(x, dict) and x.get("inlined") for x in astnorm._walk(b.body)):
                                b.body = astnorm.normalize_body(b.body)
                except RecursionError:
                    pass

    # ---- lookup
    def find(self, regex, dk=None, file=None):
        """Bodies whose path matches. Anchors are written against the paths of the tree they were confirmed on
        (`Ty::<W, B>::f`, `<Ty<2, 9, C> as Trait>::f`); when nothing matches literally, the anchor and the
        paths are compared with the names of generic type parameters dropped, so that adding or renaming a
        type parameter of an impl does not lose the anchor."""
        rx = re.compile(regex)
        out = []
        cands = []
        for b in self.bodies:
            if dk and b.dk != dk:
                continue
            if file and not b.file.endswith(file):
                continue
            cands.append(b)
            if rx.search(b.path):
                out.append(b)
        if not out and getattr(self, "renamed", None):
            # the anchor names a function that now lives under another name (see __init__)
            try:
                rxr = re.compile(canon_generics(regex))
                for old_path, b in self.renamed.items():
                    if rxr.search(old_path) and (not dk or b.dk == dk) and (not file or b.file.endswith(file)):
                        out.append(b)
            except re.error:
                pass
            if out:
                return out
        if not out:
            try:
                rx2 = re.compile(canon_generics(regex))
            except re.error:
                return out
            out = [b for b in cands if rx2.search(canon_generics(b.path))]
        return out

    def one(self, regex, **kw):
        r = self.find(regex, **kw)
        if len(r) != 1:
            raise AnchorMissing("expected exactly one body matching %r, found %d: %s" % (
                regex, len(r), [b.path for b in r][:6]))
        return r[0]

    def fns(self):
        return [b for b in self.bodies if b.dk in ("Fn", "AssocFn")]

    # ---- node attribute helpers
    def ty(self, n):
        t = n.get("t")
        return self.types[t] if t is not None else ""

    def tya(self, n):
        t = n.get("ta", n.get("t"))
        return self.types[t] if t is not None else ""

    def mac(self, n):
        m = n.get("m")
        return self.macros[m] if m is not None else ""

    def loc(self, n):
        s = n.get("s")
        if not s:
            return "?"
        fi, l0, _ = s.split(":")
        return "%s:%s" % (self.files[int(fi)], l0)

    def line(self, n):
        return int(n["s"].split(":")[1])

    def callee(self, n):
        c = n.get("callee")
        return self.paths[c] if c is not None else None

    def ctrait(self, n):
        c = n.get("ctrait")
        return self.paths[c] if c is not None else None

    def cself(self, n):
        c = n.get("cself")
        return self.types[c] if c is not None else None

    def defpath(self, n):
        c = n.get("def")
        return self.paths[c] if c is not None else None


_TYPARAM = re.compile(r"^(?:[A-Z][A-Za-z0-9_]*|'[a-z_]+)$")


def canon_generics(path):
    """Drops generic arguments that are bare type/const parameter names or lifetimes from every `<...>` list
    of a printed path (or of a regex written against one): `Ty::<W, B>::f` -> `Ty::f`,
    `<Ty<2, 9, C, I> as Tr<W>>::f` -> `<Ty<2, 9> as Tr>::f`. Concrete arguments are kept."""
    out = []
    i = 0
    n = len(path)
    # find innermost-first by recursion on balanced brackets
    def parse(i, closing):
        items, cur = [], ""
        while i < n:
            ch = path[i]
            if ch == "<" and not (i > 0 and path[i - 1] in "(?"):
                inner, i = parse(i + 1, ">")
                cur += inner
                continue
            if closing and ch == ">" and not cur.endswith("-"):
                items.append(cur)
                return render(items), i + 1
            if ch == "," and closing:
                items.append(cur)
                cur = ""
                i += 1
                continue
            cur += ch
            i += 1
        items.append(cur)
        return "".join(items) if not closing else render(items), i

    def render(items):
        # a list that is really `<X as Trait>` (qualified path) is kept as it is
        if len(items) == 1 and " as " in items[0]:
            return "<" + items[0] + ">"
        kept = [x.strip() for x in items if not _TYPARAM.match(x.strip().replace("\\", ""))]
        if not kept:
            return "<>"
        return "<" + ", ".join(kept) + ">"
    res, _ = parse(0, None)
    res = res.replace("::<>", "").replace("<>", "")
    return res


def path_matches(regex, path):
    """regex (written against printed paths) matches path literally, or after dropping the names of generic
    type parameters on both sides."""
    if re.search(regex, path):
        return True
    try:
        return re.search(canon_generics(regex), canon_generics(path)) is not None
    except re.error:
        return False


class AnchorMissing(Exception):
    pass


# ----------------------------------------------------------------------------
# traversal

def kids(n):
    """Child nodes (expressions, statements, patterns excluded) in evaluation order."""
    k = n.get("k")
    if k == "Match":
        yield n["e"]
        for a in n["arms"]:
            if "guard" in a:
                yield a["guard"]
            yield a["body"]
        return
    if k == "Struct":
        for f in n["fields"]:
            yield f["e"]
        if "base" in n:
            yield n["base"]
        return
    if k == "Block":
        for s in n["stmts"]:
            yield s
        if "expr" in n:
            yield n["expr"]
        return
    if k == "LetStmt":
        if "init" in n:
            yield n["init"]
        if "els" in n:
            yield n["els"]
        return
    if k == "MethodCall":
        yield n["recv"]
        for a in n["args"]:
            yield a
        return
    if k == "Call":
        yield n["f"]
        for a in n["args"]:
            yield a
        return
    for key in ("l", "r", "e", "i", "c", "th", "el", "init", "body", "base"):
        v = n.get(key)
        if isinstance(v, dict):
            yield v
    for key in ("es",):
        v = n.get(key)
        if isinstance(v, list):
            for x in v:
                yield x


def walk(n):
    """Pre-order over all expression/statement nodes."""
    stack = [n]
    while stack:
        x = stack.pop()
        yield x
        ks = list(kids(x))
        ks.reverse()
        stack.extend(ks)


def walk_with_parents(n, parents=()):
    yield n, parents
    p2 = parents + (n,)
    for c in kids(n):
        yield from walk_with_parents(c, p2)


def pat_bindings(p):
    """All (name, id) bound by a pattern."""
    out = []

    def rec(p):
        k = p.get("k")
        if k == "PBind":
            out.append((p["name"], p["id"]))
            if "sub" in p:
                rec(p["sub"])
        elif k in ("PTuple", "PTupleStruct", "POr"):
            for q in p.get("ps", []):
                rec(q)
        elif k == "PStruct":
            for f in p["fields"]:
                rec(f["p"])
        elif k in ("PRef", "PGuard"):
            rec(p["p"])
        elif k == "PSlice":
            for q in p.get("ps", []) + p.get("post", []):
                rec(q)
            if "mid" in p:
                rec(p["mid"])
    rec(p)
    return out


# ----------------------------------------------------------------------------
# printing

def strip_paths(s):
    return s


def show_pat(F, p):
    k = p.get("k")
    if k == "PWild":
        return "_"
    if k == "PBind":
        s = p["name"]
        if "sub" in p:
            s += " @ " + show_pat(F, p["sub"])
        return s
    if k == "PTuple":
        return "(" + ", ".join(show_pat(F, q) for q in p["ps"]) + ")"
    if k == "PTupleStruct":
        return "%s(%s)" % (p.get("name", "?"), ", ".join(show_pat(F, q) for q in p["ps"]))
    if k == "PStruct":
        return "%s{%s}" % (p.get("name", "?"), ", ".join(f["name"] + ": " + show_pat(F, f["p"]) for f in p["fields"]))
    if k == "POr":
        return " | ".join(show_pat(F, q) for q in p["ps"])
    if k == "PRef":
        return "&" + show_pat(F, p["p"])
    if k == "PLit":
        if "v" in p:
            return str(p["v"])
        return p.get("name", "?")
    if k == "PRange":
        lo = p.get("lo", {}).get("v", p.get("lo", {}).get("name", ""))
        hi = p.get("hi", {}).get("v", p.get("hi", {}).get("name", ""))
        return "%s%s%s" % (lo, "..=" if p.get("incl") else "..", hi)
    if k == "PGuard":
        return show_pat(F, p["p"])
    if k == "PSlice":
        return "[..]"
    return "?pat"


def show(F, n, depth=0):
    """Source-like rendering of a node (for reports; not used for matching)."""
    k = n.get("k")
    ind = "  " * depth
    if k == "Lit":
        return str(n.get("v", "<lit>")) if n.get("lk") != "str" else json.dumps(n.get("v"))
    if k == "Path":
        if n.get("res") == "local":
            return n["name"]
        if n.get("res") == "def":
            p = F.defpath(n) or n.get("name", "?")
            return short_path(p)
        return n.get("seg", n.get("res", "?"))
    if k == "Field":
        return "%s.%s" % (show(F, n["e"], depth), n["name"])
    if k == "Index":
        return "%s[%s]" % (show(F, n["e"], depth), show(F, n["i"], depth))
    if k == "Binary":
        return "(%s %s %s)" % (show(F, n["l"], depth), n["op"], show(F, n["r"], depth))
    if k == "Unary":
        return "%s%s" % (n["op"], show(F, n["e"], depth))
    if k == "Cast":
        return "(%s as %s)" % (show(F, n["e"], depth), F.ty(n))
    if k == "AddrOf":
        return "&%s%s" % ("mut " if n.get("mut") else "", show(F, n["e"], depth))
    if k == "MethodCall":
        return "%s.%s(%s)" % (show(F, n["recv"], depth), n["name"], ", ".join(show(F, a, depth) for a in n["args"]))
    if k == "Call":
        c = F.callee(n)
        fn = short_path(c) if c else show(F, n["f"], depth)
        return "%s(%s)" % (fn, ", ".join(show(F, a, depth) for a in n["args"]))
    if k == "Tup":
        return "(" + ", ".join(show(F, a, depth) for a in n["es"]) + ")"
    if k == "Array":
        return "[" + ", ".join(show(F, a, depth) for a in n["es"]) + "]"
    if k == "Repeat":
        return "[%s; _]" % show(F, n["e"], depth)
    if k == "Assign":
        return "%s = %s" % (show(F, n["l"], depth), show(F, n["r"], depth))
    if k == "AssignOp":
        return "%s %s %s" % (show(F, n["l"], depth), n["op"], show(F, n["r"], depth))
    if k == "Ret":
        return "return %s" % (show(F, n["e"], depth) if "e" in n else "")
    if k == "Break":
        return "break%s%s" % (" '" + n["label"] if "label" in n else "", " " + show(F, n["e"], depth) if "e" in n else "")
    if k == "Continue":
        return "continue"
    if k == "Let":
        return "let %s = %s" % (show_pat(F, n["pat"]), show(F, n["init"], depth))
    if k == "LetStmt":
        s = "let %s" % show_pat(F, n["pat"])
        if "init" in n:
            s += " = " + show(F, n["init"], depth)
        if "els" in n:
            s += " else " + show(F, n["els"], depth)
        return s
    if k == "If":
        s = "if %s %s" % (show(F, n["c"], depth), show(F, n["th"], depth))
        if "el" in n:
            s += " else " + show(F, n["el"], depth)
        return s
    if k == "Block":
        parts = [show(F, s, depth + 1) + ";" for s in n["stmts"]]
        if "expr" in n:
            parts.append(show(F, n["expr"], depth + 1))
        pre = "unsafe " if n.get("unsafe") else ""
        if not parts:
            return pre + "{}"
        if len(parts) == 1 and len(parts[0]) < 60:
            return pre + "{ " + parts[0] + " }"
        return pre + "{\n" + "\n".join(ind + "  " + p for p in parts) + "\n" + ind + "}"
    if k == "Loop":
        return "loop[%s] %s" % (n.get("src", ""), show(F, n["body"], depth))
    if k == "Match":
        arms = []
        for a in n["arms"]:
            g = " if " + show(F, a["guard"], depth + 1) if "guard" in a else ""
            arms.append("%s%s => %s" % (show_pat(F, a["pat"]), g, show(F, a["body"], depth + 1)))
        return "match[%s] %s {\n%s\n%s}" % (n.get("src", ""), show(F, n["e"], depth), "\n".join(ind + "  " + a + "," for a in arms), ind)
    if k == "Closure":
        return "|%s| %s" % (", ".join(show_pat(F, p) for p in n["params"]), show(F, n["body"], depth))
    if k == "Struct":
        nm = short_path(F.defpath(n) or n.get("res", "?"))
        s = "%s { %s" % (nm, ", ".join("%s: %s" % (f["name"], show(F, f["e"], depth)) for f in n["fields"]))
        if "base" in n:
            s += ", .." + show(F, n["base"], depth)
        return s + " }"
    if k == "ConstBlock":
        return "const " + show(F, n["body"], depth) if "body" in n else "const {}"
    return "<%s>" % k


def strip_generics(p):
    """Remove generic argument lists (`::<...>` and `Type<...>`) from a def path, keeping
    `<T as Trait>` qualifiers (whose inner paths are stripped too)."""
    out = []
    i = 0
    n = len(p)
    while i < n:
        c = p[i]
        if c == "<":
            prev = out[-1] if out else ""
            is_args = prev.isalnum() or prev == "_" or (len(out) >= 2 and out[-1] == ":" and out[-2] == ":")
            # find the matching '>'
            depth = 0
            j = i
            while j < n:
                if p[j] == "<":
                    depth += 1
                elif p[j] == ">" and not (j > 0 and p[j - 1] == "-"):
                    depth -= 1
                    if depth == 0:
                        break
                j += 1
            if p[i + 1:i + 6] == "impl ":
                out.append(p[i:j + 1])
                i = j + 1
                continue
            if is_args:
                if len(out) >= 2 and out[-1] == ":" and out[-2] == ":":
                    out.pop()
                    out.pop()
                i = j + 1
                continue
            inner = strip_generics(p[i + 1:j])
            out.append("<" + inner + ">")
            i = j + 1
            continue
        out.append(c)
        i += 1
    return "".join(out)


def short_path(p):
    if p is None:
        return "?"
    q = strip_generics(p)
    parts = q.split("::")
    return "::".join(parts[-2:]) if len(parts) >= 2 else q


# ----------------------------------------------------------------------------
# classification helpers

PANIC_CALLEES = (
    "core::panicking::panic", "core::panicking::panic_fmt", "std::rt::begin_panic",
    "core::panicking::assert_failed", "core::panicking::panic_explicit",
    "core::panicking::unreachable_display", "core::panicking::panic_display",
    "std::rt::panic_fmt", "core::panicking::panic_nounwind", "std::process::abort",
    "std::process::exit", "core::panicking::assert_failed_inner",
)


def is_panic_call(F, n):
    if n.get("k") != "Call":
        return False
    c = F.callee(n)
    if not c:
        return False
    c = strip_generics(c)
    return c.startswith("core::panicking::") or c in PANIC_CALLEES or c.startswith("std::rt::begin_panic")


def diverges(F, n):
    """Conservative: True only if every path through n leaves (panic/return/break/continue)."""
    k = n.get("k")
    if F.ty(n) == "!":
        return True
    if k in ("Ret", "Break", "Continue"):
        return True
    if is_panic_call(F, n):
        return True
    if k == "Block":
        for s in n["stmts"]:
            if s.get("k") != "LetStmt" and diverges(F, s):
                return True
            if s.get("k") == "LetStmt" and "init" in s and diverges(F, s["init"]):
                return True
        if "expr" in n:
            return diverges(F, n["expr"])
        return False
    if k == "If":
        return "el" in n and diverges(F, n["th"]) and diverges(F, n["el"])
    if k == "Match":
        return all(diverges(F, a["body"]) for a in n["arms"]) and len(n["arms"]) > 0
    if k in ("Call", "MethodCall"):
        # bail!/ensure! expand to `return Err(...)`, handled as Ret
        return False
    return False


def in_macro(F, n, name):
    m = F.mac(n)
    if not m:
        return False
    return name in re.split(r"[<]", m)


def macro_names(F, n):
    m = F.mac(n)
    return m.split("<") if m else []


def is_debug_only(F, n):
    """Node generated by debug_assert!/debug_assert_eq!/debug_assert_ne! (absent in release)."""
    for nm in macro_names(F, n):
        if nm.startswith("debug_assert"):
            return True
    return False


def callee_is(F, n, *suffixes):
    """True if n is a call whose resolved callee path (generics stripped) ends with one of suffixes."""
    if n.get("k") not in ("Call", "MethodCall", "Binary", "Index", "Unary", "AssignOp"):
        return False
    c = F.callee(n)
    if not c:
        return False
    c = strip_generics(c)
    for s in suffixes:
        if c == s or c.endswith("::" + s) or c.endswith(s):
            return True
    return False


def call_args(n):
    """Receiver-inclusive argument list for Call / MethodCall."""
    if n.get("k") == "MethodCall":
        return [n["recv"]] + n["args"]
    if n.get("k") == "Call":
        return n["args"]
    return []


def for_loops(body):
    """[(pattern, iterated expression, loop body)] of the `for` loops of a body (from their desugaring)"""
    out = []
    for x in walk(body):
        if x.get("k") == "Match" and x.get("src") == "ForLoopDesugar":
            scrut = x["e"]
            it = scrut["args"][0] if scrut.get("k") == "Call" and scrut.get("args") else scrut
            loop = x["arms"][0]["body"]
            while loop.get("k") == "Block" and "expr" in loop and not loop["stmts"]:
                loop = loop["expr"]
            if loop.get("k") != "Loop":
                continue
            lb = loop["body"]
            inner = lb.get("expr") or (lb["stmts"][0] if lb.get("stmts") else None)
            if inner is None or inner.get("k") != "Match":
                continue
            for a in inner["arms"]:
                if a["pat"].get("k") == "PTupleStruct" and a["pat"].get("ps"):
                    out.append((a["pat"]["ps"][0], it, a["body"]))
                elif a["pat"].get("k") == "PStruct" and a["pat"].get("fields"):
                    out.append((a["pat"]["fields"][0]["p"], it, a["body"]))
    return out
