"""Debug helper: print bodies matching a regex."""
import sys, os
sys.path.insert(0, os.path.dirname(os.path.abspath(__file__)))
from ir import *
from extract import get_facts
cfg = os.environ.get("CFG", "default")
p, _ = get_facts(cfg)
F = Facts(p)
for b in F.find(sys.argv[1]):
    print("====", b.key, b.span, "unsafe" if b.unsafe else "", "pub" if b.pub else "", "mac=" + b.mac if b.mac else "", "impl_mac=" + b.impl_mac if b.impl_mac else "")
    print("  params:", [show_pat(F, q) for q in b.params], "->", b.ret)
    if len(sys.argv) > 2 and sys.argv[2] == "-q":
        continue
    print(show(F, b.body))
