"""C15 (serialized structures answer identically after any way of loading them): the structural part.

Decided here (and only this): every loading path hands back a type that still offers the queries --
(R15.1) type-level witnesses: for each serializable structure, the type itself (full-copy
deserialization) and its zero-copy image `DeserType<'_>` (deserialize_eps / mmap) implement the query
traits / have the query methods; the witness crate is type-checked against the tree under analysis,
never run. (R15.2) the same fact at its source: every implementation of a query trait for a
serializable structure is generic in the storage parameters (no impl pinned to Vec / Box storage).
(R15.3) the zero-copy element types keep a fixed layout (repr(C) field order and sizes as compiled).
That the bytes written and read back are the same values is epserde's job and is not decided."""
import hashlib
import json
import os
import re
import shutil
import subprocess
from framework import rule, VERIF
from r_guards import short_fn
from ir import *  # noqa


def _witness_dir(ctx):
    src = getattr(ctx, "src", "/repo")
    base = os.environ.get("VERIF_TARGET_DIR")
    if base:
        root = base + "-witness"
    else:
        root = os.path.join(VERIF, ".cache", "witness-" + hashlib.sha256(src.encode()).hexdigest()[:10])
    return src, root


def run_witness(ctx):
    src, root = _witness_dir(ctx)
    crate = os.path.join(root, "crate")
    os.makedirs(os.path.join(crate, "src"), exist_ok=True)
    import fcntl
    lock = open(os.path.join(root, ".lock"), "w")
    fcntl.flock(lock, fcntl.LOCK_EX)     # one analysis at a time per witness directory
    try:
        return _run_witness_locked(src, root, crate)
    finally:
        fcntl.flock(lock, fcntl.LOCK_UN)
        lock.close()


def _run_witness_locked(src, root, crate):
    with open(os.path.join(VERIF, "witness", "Cargo.toml.in")) as f:
        toml = f.read().replace("@SUX@", src)
    with open(os.path.join(crate, "Cargo.toml"), "w") as f:
        f.write(toml)
    shutil.copy(os.path.join(VERIF, "witness", "src", "lib.rs"), os.path.join(crate, "src", "lib.rs"))
    shutil.copy(os.path.join(src, "Cargo.lock"), os.path.join(crate, "Cargo.lock"))
    tgt = os.path.join(root, "target")
    # artifacts of sux built from other scratch paths would only accumulate
    for sub in (".fingerprint", "deps", "incremental"):
        d = os.path.join(tgt, "debug", sub)
        if os.path.isdir(d) and src != "/repo":
            for f in os.listdir(d):
                if f.startswith(("sux-", "libsux-", "sux_witness", "libsux_witness", "sux-witness")):
                    p = os.path.join(d, f)
                    shutil.rmtree(p, ignore_errors=True) if os.path.isdir(p) else os.remove(p)
    env = dict(os.environ, CARGO_NET_OFFLINE="true", CARGO_TARGET_DIR=tgt, RUSTFLAGS="--cap-lints allow")
    env.pop("RUSTC_WORKSPACE_WRAPPER", None)
    r = subprocess.run(["cargo", "check", "--offline", "--message-format", "json", "--quiet"], cwd=crate, env=env, stdout=subprocess.PIPE, stderr=subprocess.PIPE, text=True)
    errors = []
    sux_errors = []
    for line in r.stdout.splitlines():
        if not line.startswith("{"):
            continue
        try:
            m = json.loads(line)
        except ValueError:
            continue
        if m.get("reason") != "compiler-message":
            continue
        msg = m["message"]
        if msg.get("level") != "error":
            continue
        tgt_name = m.get("target", {}).get("name", "")
        spans = [s for s in msg.get("spans", []) if s.get("is_primary")] or msg.get("spans", [])
        line_no = spans[0]["line_start"] if spans else 0
        if tgt_name.replace("-", "_") == "sux_witness":
            errors.append((line_no, msg.get("message", ""), (msg.get("code") or {}).get("code")))
        else:
            sux_errors.append(msg.get("message", ""))
    return r.returncode, errors, sux_errors, r.stderr[-600:], os.path.join(crate, "src", "lib.rs")


def _witness_fns(path):
    """[(first line, last line, fn name)] of the `pub fn w_*` items."""
    out = []
    cur = None
    with open(path) as f:
        for i, l in enumerate(f, 1):
            m = re.match(r"pub fn (w_\w+)", l)
            if m:
                if cur:
                    out.append((cur[0], i - 1, cur[1]))
                cur = (i, m.group(1))
        if cur:
            out.append((cur[0], i, cur[1]))
    return out


@rule("R15.1", props=["C15"], floor=40, title="type-level witnesses: every serializable structure and its zero-copy image (deserialize_eps / mmap) implement the query traits and methods of the original")
def r15_1(ctx, rr):
    rc, errors, sux_errors, tail, lib = run_witness(ctx)
    fns = _witness_fns(lib)
    with open(lib) as f:
        text = f.read().splitlines()
    n_wit = sum(1 for l in text if re.search(r"::<.*>\(\);\s*$", l) or re.search(r"\.(get|contains|len|iter|into_iter|iter_ones)\(", l))
    if sux_errors or (rc != 0 and not errors):
        raise AnchorMissing("the witness crate could not be type-checked against this tree (%s)" % ((sux_errors or [tail])[0][:200]))
    rr.instances += n_wit
    bad = {}
    for line_no, msg, code in errors:
        fn = next((name for a, b, name in fns if a <= line_no <= b), "?")
        src_line = text[line_no - 1].strip() if 0 < line_no <= len(text) else ""
        bad.setdefault((fn, src_line), []).append((msg, code))
    for _ in range(max(0, n_wit - len(bad))):
        rr.ob(True, key="witness", nontrivial=False)
    rr.nontrivial_keys.update("witness:%s" % name for _, _, name in fns)
    rr.samples.append({"witness_functions": [name for _, _, name in fns], "witness_lines": n_wit, "type_checked_against": getattr(ctx, "src", "/repo"), "rule": "cargo check of /verif/witness (never run)"})
    for (fn, src_line), msgs in bad.items():
        msg, code = msgs[0]
        key = "%s:%s" % (fn, re.sub(r"\s+", " ", src_line)[:90])
        rr.ob(False, key=key)
        rr.violate(key, "witness %s no longer type-checks: `%s` -- %s [%s]: a structure loaded by this path does not offer the query (it cannot answer as the original does)" % (fn, src_line[:140], msg[:300], code), "witness/src/lib.rs (%s)" % fn)


QUERY_TRAITS = ("traits::rank_sel::", "traits::indexed_dict::", "traits::bit_field_slice::BitFieldSliceCore", "traits::bit_field_slice::BitFieldSlice")
OWNED = re.compile(r"(?<![A-Za-z_])(Vec<|Box<|std::vec::Vec|std::boxed::Box|String\b)")


def top_args(ty):
    """Top-level generic arguments of a printed type `path<a, b<c>, d>`."""
    i = ty.find("<")
    if i < 0 or not ty.endswith(">"):
        return []
    out, depth, cur = [], 0, ""
    for ch in ty[i + 1:-1]:
        if ch in "<([":
            depth += 1
        elif ch in ">)]":
            depth -= 1
        if ch == "," and depth == 0:
            out.append(cur.strip())
            cur = ""
        else:
            cur += ch
    if cur.strip():
        out.append(cur.strip())
    return out


@rule("R15.2", props=["C15"], floor=120, title="query-trait impls of serializable structures are generic in their storage parameters (none pinned to Vec/Box storage)")
def r15_2(ctx, rr):
    F = ctx.F()
    ser = {i["adt"] for i in F.impls if str(i.get("trait")) == "epserde::ser::SerializeInner" and i.get("adt")}
    if len(ser) < 20:
        raise AnchorMissing("expected at least 20 serializable structures (impl SerializeInner), found %d" % len(ser))
    n = 0
    # number of generic parameters of each structure = the longest argument list any impl spells out
    # (the derived impls name all of them); rustc prints an impl for `S<B>` when the remaining
    # parameters are left at their defaults, i.e. pinned to the default (owned) storage
    arity = {}
    for i in F.impls:
        if i.get("adt"):
            arity[i["adt"]] = max(arity.get(i["adt"], 0), len(top_args(i["self"])))
    for i in F.impls:
        t = str(i.get("trait"))
        if i.get("adt") not in ser or not t.startswith(QUERY_TRAITS) or t.endswith(("BitFieldSliceMut", "AtomicBitFieldSlice")):
            continue
        n += 1
        rr.instances += 1
        s = i["self"]
        ok = not OWNED.search(s) and len(top_args(s)) == arity[i["adt"]]
        key = "%s for %s" % (t.split("::")[-1], strip_generics(s).split("::")[-1])
        rr.ob(ok, key=key, sample={"impl": "%s for %s" % (t, s)} if n % 40 == 1 else None)
        if not ok:
            rr.violate(key + ":storage-generic", "impl %s for %s is pinned to owned storage (a Vec/Box argument, or storage parameters left at their Box defaults): the zero-copy image of the structure (storage borrowed as slices) does not get this query" % (t, s), F.loc({"s": i["s"]}))


@rule("R15.3", props=["C15"], floor=15, title="no serializable structure asks for more alignment than every loader provides (ε-serde's load_mem allocates 64-byte-aligned memory and refuses types aligned beyond that)")
def r15_3(ctx, rr):
    """A `#[repr(align(N))]` with N > 64 on a structure deriving Epserde leaves serialization, load_full and mmap
    untouched, and makes `load_mem` fail with an alignment error for every instance: the loaded structure cannot answer
    at all through that path."""
    from guards import is_derived
    F = ctx.F()
    ser = sorted(set(b.impl_adt for b in F.fns() if b.impl_adt and "Epserde" in (b.mac + "<" + b.impl_mac).split("<") and b.file.startswith("src/")))
    if len(ser) < 15:
        raise AnchorMissing("expected at least 15 structures deriving Epserde, found %d" % len(ser))
    for adt in ser:
        a = F.adts.get(adt)
        if a is None:
            continue
        rr.instances += 1
        m = re.search(r"align: Some\(\s*Align\((\d+) bytes\)", a.get("repr", "")) or re.search(r"align: Some\((\d+)", a.get("repr", ""))
        al = int(m.group(1)) if m else None
        key = "%s:alignment-within-loader-limit" % adt.split("::")[-1]
        ok = al is None or al <= 64
        rr.ob(ok, key=key, sample={"type": adt, "repr align": al})
        if not ok:
            rr.violate(key, "%s derives Epserde and is declared `#[repr(align(%d))]`: load_mem (64-byte-aligned allocation) rejects every instance of it and of the structures that embed it, while the other loaders accept them -- the loaded structure does not answer like the original through that path" % (adt, al), a.get("s", ""))
