"""Rank structures: counter packing agreement and geometry (R01.3), tail trust in constructors (R01.4),
counters per block / documented overhead (R11.1, R11.2)."""
import re
from framework import rule
from guards import is_derived
from r_guards import short_fn
from r_ef import make_inliner, struct_literal_fields
from sym import *  # noqa
from ir import *  # noqa


def int_of(t):
    return t[1] if t[0] == "int" else None


def packing_of_rel(F, b):
    """rel(word): ((X >> (S * (word ^ K))) & M)  ->  dict(stride=S, flip=K, mask=M, src=X)"""
    W = Walker(F, b)
    W.run()
    t = W.T.term(b.body.get("expr")) if b.body.get("expr") is not None else W.T.term(b.body)
    word = ("var", b.params[1]["name"], b.params[1]["id"])
    if not (t[0] == "op" and t[1] == "&"):
        return None
    for sh, m in ((t[2], t[3]), (t[3], t[2])):
        if sh[0] == "op" and sh[1] == ">>":
            amt = sh[3]
            if amt[0] == "op" and amt[1] == "*":
                for s_, x in ((amt[2], amt[3]), (amt[3], amt[2])):
                    if s_[0] == "int" and x[0] == "op" and x[1] == "^" and word in (x[2], x[3]):
                        kk = x[3] if x[2] == word else x[2]
                        if kk[0] == "int" and m[0] == "int":
                            return {"stride": s_[1], "flip": kk[1], "mask": m[1], "src": sh[2]}
    return None


def packing_of_set_rel(F, b):
    """set_rel(word, counter): ... |= counter << (S * (word ^ K))"""
    word = ("var", b.params[1]["name"], b.params[1]["id"])
    counter = ("var", b.params[2]["name"], b.params[2]["id"])
    found = []

    def on_node(W, n, K):
        if n.get("k") == "AssignOp" and n["op"] == "|=":
            found.append(W.T.term(n["r"]))
    Walker(F, b, on_node=on_node).run()
    for t in found:
        if t[0] == "op" and t[1] == "<<" and t[2] == counter:
            amt = t[3]
            if amt[0] == "op" and amt[1] == "*":
                for s_, x in ((amt[2], amt[3]), (amt[3], amt[2])):
                    if s_[0] == "int" and x[0] == "op" and x[1] == "^" and word in (x[2], x[3]):
                        kk = x[3] if x[2] == word else x[2]
                        if kk[0] == "int":
                            return {"stride": s_[1], "flip": kk[1]}
    return None


@rule("R01.3", props=["C01", "C02"], floor=14, title="rank counters: set_rel/rel agree (stride = mask width = COUNTER_WIDTH, slots fit), builder and reader share the block geometry")
def r01_3(ctx, rr):
    F = ctx.F()
    # --- packed relative counters
    rels = [b for b in F.fns() if b.name == "rel" and (b.impl_adt or "").endswith(("BlockCounters", "Block32Counters")) and not is_derived(b)]
    sets = {b.impl_self: b for b in F.fns() if b.name == "set_rel" and (b.impl_adt or "").endswith(("BlockCounters", "Block32Counters")) and not is_derived(b)}
    if len(rels) < 6:
        raise AnchorMissing("expected rel() for BlockCounters and the five Block32Counters instantiations, found %d" % len(rels))
    for b in sorted(rels, key=lambda b: b.impl_self):
        r = packing_of_rel(F, b)
        sb = sets.get(b.impl_self)
        name = b.impl_self.split("::")[-1]
        rr.instances += 1
        if r is None or sb is None:
            rr.violate("%s::rel:shape" % name, "%s::rel is not of the form `(packed >> (W * (word ^ K))) & M` (or set_rel is missing)" % b.impl_self, b.span)
            continue
        s = packing_of_set_rel(F, sb)
        key = "%s:rel~set_rel" % name
        ok = s is not None and s["stride"] == r["stride"] and s["flip"] == r["flip"]
        rr.ob(ok, key=key, sample={"type": b.impl_self, "reader": {k: v for k, v in r.items() if k != "src"}, "writer": s})
        if not ok:
            rr.violate(key, "%s: set_rel stores counters at `%s` but rel reads them at stride %d / flip %d" % (b.impl_self, s, r["stride"], r["flip"]), b.span)
        # mask width == stride
        rr.instances += 1
        ok2 = r["mask"] == (1 << r["stride"]) - 1
        rr.check(ok2, "%s:rel-mask-width" % name, "%s::rel masks with %#x but counters are %d bits wide (stride): a saturated block loses its high bits" % (b.impl_self, r["mask"], r["stride"]), b.span)
        # COUNTER_WIDTH parameter equals the stride; slots fit the container
        m = re.search(r"Block32Counters<(\d+), (\d+)>", b.impl_self)
        if m:
            nu32, cw = int(m.group(1)), int(m.group(2))
            rr.instances += 1
            rr.check(cw == r["stride"], "%s:stride=COUNTER_WIDTH" % name, "%s: stride %d differs from COUNTER_WIDTH %d" % (b.impl_self, r["stride"], cw), b.span)
            slots = r["flip"] + 1
            container = {1: 32, 2: 64, 3: 96}.get(nu32, 0)
            rr.instances += 1
            # slot j lives at bit stride*(j ^ flip); slot 0 is never written (relative count 0) and may be truncated
            # the largest relative count slot j can hold is j * (block bits / slots), block bits = 2^COUNTER_WIDTH
            block_bits = 1 << cw
            fits = True
            for j in range(1, slots):
                avail = min(r["stride"], container - r["stride"] * (j ^ r["flip"]))
                need = (j * block_bits // slots).bit_length()
                if avail < need:
                    fits = False
            rr.check(fits and slots in (4, 8), "%s:slots-fit" % name, "%s: a saturated block does not fit: %d slots of %d bits in a %d-bit container (slot j must hold j*%d)" % (b.impl_self, slots, r["stride"], container, block_bits // max(slots, 1)), b.span)
        else:
            rr.instances += 1
            rr.check(r["stride"] == 9 and r["flip"] == 7, "%s:stride" % name, "Rank9 BlockCounters must pack seven 9-bit counters (stride 9, flip 7); found stride %d flip %d" % (r["stride"], r["flip"]), b.span)
    # --- Rank9 geometry
    nb = F.one(r"^rank_sel::rank9::Rank9::<B>::new$")
    rb = F.one(r"^<rank_sel::rank9::Rank9<B, C> as traits::rank_sel::RankUnchecked>::rank_unchecked$")
    wpb = ("def", "rank_sel::rank9::Rank9::WORDS_PER_BLOCK")
    st = {"step": None, "inner": None, "pushes_in": 0, "pushes_out": 0, "setrel": []}
    pm = {id(n): ps for n, ps in walk_with_parents(nb.body)}
    # the local(s) that become the field `counts` of the result (by role, not by name)
    counts_ids = set()
    for n in walk(nb.body):
        if n.get("k") == "Struct" and range_of(F, n) is None:
            for f in n["fields"]:
                if f["name"] == "counts":
                    counts_ids |= set(x["id"] for x in walk(f["e"]) if x.get("k") == "Path" and x.get("res") == "local")
    if not counts_ids:
        raise AnchorMissing("Rank9::new: no local flows into the field `counts`")

    def on_new(W, n, K):
        if n.get("k") == "MethodCall" and n["name"] == "step_by":
            st["step"] = W.T.term(n["args"][0])
        if n.get("k") == "MethodCall" and n["name"] == "push" and n["recv"].get("k") == "Path" and n["recv"].get("res") == "local" and n["recv"].get("id") in counts_ids:
            depth = sum(1 for p in pm.get(id(n), ()) if p.get("k") == "Loop")
            if depth == 1:
                st["pushes_in"] += 1
            elif depth == 0:
                st["pushes_out"] += 1
            else:
                st["pushes_in"] += 100
        if n.get("k") == "MethodCall" and n["name"] == "set_rel":
            st["setrel"].append([W.expand(W.T.term(a)) for a in n["args"]])
        if n.get("k") == "Struct" and range_of(F, n) is not None:
            lo, hi, incl = range_of(F, n)
            if lo is not None and hi is not None and W.T.term(lo) == ("int", 1):
                st["inner"] = W.T.term(hi)
    Walker(F, nb, on_node=on_new).run()
    wpb_val = None
    cb = F.find(r"^rank_sel::rank9::Rank9::<B, C>::WORDS_PER_BLOCK$")
    if cb:
        wpb_val = int_of(Termizer(F, cb[0]).term(cb[0].body))
    rr.instances += 1
    if st["step"] is None:
        # the while form: `let mut i = 0; while i < num_words { ..; i += STEP }` (the step of the outermost counted loop)
        for lp in [x for x in walk(nb.body) if x.get("k") == "Loop"]:
            incs = [x for x in walk(lp["body"]) if x.get("k") == "AssignOp" and x["op"] == "+=" and x["l"].get("k") == "Path" and x["l"].get("res") == "local"
                    and not any(p_.get("k") == "Loop" and p_ is not lp for p_ in pm.get(id(x), ()) if any(q is p_ for q in walk(lp["body"])))]
            conds = [x for x in walk(lp["body"]) if x.get("k") == "If" and x["c"].get("k") == "Binary" and x["c"]["op"] in ("<", ">", "<=", ">=")]
            for inc in incs:
                if any(c["c"]["l"].get("id") == inc["l"]["id"] or c["c"]["r"].get("id") == inc["l"]["id"] for c in conds):
                    st["step"] = Termizer(F, nb).term(inc["r"])
                    break
            if st["step"] is not None:
                break
    rr.check(st["step"] is not None and (st["step"] == ("def", "rank_sel::rank9::Rank9::WORDS_PER_BLOCK") or st["step"] == ("int", wpb_val)), "Rank9::new:block-step", "Rank9::new must step over the words by WORDS_PER_BLOCK; found %s" % (tshow(st["step"]) if st["step"] else None), nb.span)
    rr.instances += 1
    rr.check(st["inner"] is not None and (int_of(st["inner"]) == wpb_val or st["inner"] == ("def", "rank_sel::rank9::Rank9::WORDS_PER_BLOCK")), "Rank9::new:inner-range", "Rank9::new must fill the relative counters for words 1..WORDS_PER_BLOCK (=%s); found 1..%s" % (wpb_val, tshow(st["inner"]) if st["inner"] else None), nb.span)
    rr.instances += 1
    rr.check(st["pushes_in"] == 1 and st["pushes_out"] == 1, "Rank9::new:one-counter-per-block+sentinel", "Rank9::new must push exactly one counter per block and one sentinel after the loop (found %d in the block loop, %d after it)" % (st["pushes_in"], st["pushes_out"]), nb.span)
    # reader uses the same constant for block index and in-block offset
    W = Walker(F, rb)
    W.run()
    t = W.T.term(rb.body.get("expr"))
    pos = ("var", rb.params[1]["name"], rb.params[1]["id"])
    wp = mk_op("/", pos, ("def", "core::num::BITS"))
    want_block = None
    blocks = [x for x in subterms(t) if x[0] == "op" and x[1] == "/" and x[3][0] == "def" and x[3][1].endswith("WORDS_PER_BLOCK")]
    offs = [x for x in subterms(t) if x[0] == "op" and x[1] == "%" and x[3][0] == "def" and x[3][1].endswith("WORDS_PER_BLOCK")]
    rr.instances += 1
    rr.check(bool(blocks) and bool(offs) and all(x[2] == blocks[0][2] for x in blocks + offs), "Rank9::rank_unchecked:block/offset", "Rank9::rank_unchecked must split the word position by the same WORDS_PER_BLOCK into block index and offset", rb.span)
    # in-word mask: (word & ((1 << bit_pos) - 1)).count_ones()
    ok = mentions(t, lambda x: x[0] == "call" and x[1] == "int::count_ones" and x[2][0][0] == "op" and x[2][0][1] == "&" and any(y[0] == "op" and y[1] == "-" and y[3] == ("int", 1) and y[2][0] == "op" and y[2][1] == "<<" and y[2][2] == ("int", 1) for y in (x[2][0][2], x[2][0][3])))
    rr.instances += 1
    rr.check(ok, "Rank9::rank_unchecked:in-word-mask", "Rank9::rank_unchecked must count `word & ((1 << bit_pos) - 1)`", rb.span)
    # num_ones reads the sentinel
    ob = F.one(r"^<rank_sel::rank9::Rank9<B, C> as traits::rank_sel::NumBits>::num_ones$")
    s = show(F, ob.body)
    rr.instances += 1
    rr.check(".last()" in s and ".absolute" in s, "Rank9::num_ones:sentinel", "Rank9::num_ones must read the absolute count of the last (sentinel) counter", ob.span)
    # --- RankSmall geometry (one macro, five instantiations)
    news = F.find(r"^rank_sel::rank_small::RankSmall::<\d+, \d+, B>::new$")
    ranks = F.find(r"^<rank_sel::rank_small::RankSmall<\d+, \d+, B, C1, C2> as traits::rank_sel::RankUnchecked>::rank_unchecked$")
    if len(news) < 5 or len(ranks) < 5:
        raise AnchorMissing("expected 5 RankSmall::new and 5 rank_unchecked instantiations, found %d/%d" % (len(news), len(ranks)))
    for b in news:
        st = {"upper_push": [], "acc": None, "sb_mod": None, "count_push_in": 0, "absolute": []}
        pmn = {id(n): ps for n, ps in walk_with_parents(b.body)}
        acc_ids = set()
        for n in walk(b.body):
            if n.get("k") == "AssignOp" and n["op"] == "+=" and n["l"].get("k") == "Path" and "count_ones" in show(F, n["r"]):
                acc_ids.add(n["l"]["id"])

        def on_new2(W, n, K, st=st, acc_ids=acc_ids):
            if n.get("k") == "MethodCall" and n["name"] == "push":
                rcv = show(F, n["recv"])
                if rcv == "upper_counts":
                    cur = [W.T.env.get(i) for i in acc_ids]
                    st["upper_push"].append((W.T.term(n["args"][0]), cur, K.copy()))
                elif rcv == "counts":
                    depth = sum(1 for p in pmn.get(id(n), ()) if p.get("k") == "Loop")
                    st["count_push_in"] += 1 if depth == 1 else 100
            if n.get("k") == "Binary" and n["op"] == "%" and W.T.term(n["r"])[0] == "int":
                st["sb_mod"] = W.T.term(n["r"])
        Walker(F, b, on_node=on_new2).run()
        nm = short_fn(b.key)
        rr.instances += 1
        ok = len(st["upper_push"]) == 1 and len(acc_ids) == 1 and st["upper_push"][0][0] == st["upper_push"][0][1][0]
        rr.check(ok, "%s:upper-count-is-current" % nm, "%s: the upper count pushed for a new 2^32-bit superblock must be the number of ones counted so far (found `%s` while the running count is `%s`)" % (
            b.key, tshow(st["upper_push"][0][0]) if st["upper_push"] else None, tshow(st["upper_push"][0][1][0]) if st["upper_push"] and st["upper_push"][0][1] else None), b.span)
        rr.instances += 1
        rr.check(st["sb_mod"] == ("int", 1 << 26), "%s:superblock-2^26-words" % nm, "%s: a new upper count must start every 2^26 words (2^32 bits); found modulus %s" % (b.key, tshow(st["sb_mod"]) if st["sb_mod"] else None), b.span)
        rr.instances += 1
        rr.check(st["count_push_in"] == 1, "%s:one-counter-per-block" % nm, "%s must push exactly one Block32Counters per block" % b.key, b.span)
    for b in ranks:
        W = Walker(F, b)
        W.run()
        divs = []
        for n in walk(b.body):
            if n.get("k") == "Binary" and n["op"] == "/":
                t = Termizer(F, b).term(n["r"])
                if t[0] == "int" and t[1] >= 1 << 20:
                    divs.append(t[1])
        rr.instances += 1
        rr.check(divs == [1 << 26], "%s:superblock-2^26-words" % short_fn(b.key), "%s must select the upper count by word_pos / 2^26; found divisors %s" % (b.key, divs), b.span)


CONSTRUCTORS_TAIL = [
    r"^rank_sel::rank9::Rank9::<B>::new$",
    r"^rank_sel::rank_small::RankSmall::<\d+, \d+, B>::new$",
    r"^rank_sel::select9::Select9::<rank_sel::rank9::Rank9<B, C>>::new$",
    r"^rank_sel::select_adapt::SelectAdapt::<B>::_new$",
    r"^rank_sel::select_adapt_const::SelectAdaptConst::<B, std::boxed::Box<\[usize\]>, LOG2_ONES_PER_INVENTORY, LOG2_U64_PER_SUBINVENTORY>::new$",
    r"^rank_sel::select_zero_adapt::SelectZeroAdapt::<B>::_new$",
    r"^rank_sel::select_zero_adapt_const::SelectZeroAdaptConst::<B, std::boxed::Box<\[usize\]>, LOG2_ZEROS_PER_INVENTORY, LOG2_U64_PER_SUBINVENTORY>::new$",
]


@rule("R01.4", props=["C01", "C02", "C14"], floor=7, title="rank/select constructors do not count bits beyond len (tail trust)")
def r01_4(ctx, rr):
    """An accumulation `acc += count_ones(word)` where `word` is a raw backend word that may be the
    partial last word (or a spare word) must be clipped: the word masked by a len-derived mask, or the
    count clipped by `min(total - past)` (the idiom of the zero-selecting variants)."""
    F = ctx.F()
    for path in CONSTRUCTORS_TAIL:
        bs = F.find(path)
        if not bs:
            raise AnchorMissing("no constructor matching %s" % path)
        for b in bs:
            accs = []

            def on_node(W, n, K, accs=accs):
                if n.get("k") == "AssignOp" and n["op"] == "+=" and W.debug_depth == 0:
                    rt = W.expand(W.T.term(n["r"]))
                    cnts = [x for x in subterms(rt) if x[0] == "call" and x[1] in ("int::count_ones", "int::count_zeros")]
                    for c in cnts:
                        w = c[2][0]
                        raw = mentions(w, lambda x: x[0] == "index")
                        if not raw:
                            continue
                        clipped = mentions(rt, lambda x: x[0] == "op" and x[1] == "min" and mentions(x, lambda y: y == c))
                        masked = mentions(w, lambda x: x[0] == "op" and x[1] in ("&", "<<") and mentions(x, lambda y: y[0] == "op" and y[1] == "%"))
                        if masked and w[0] == "ite":
                            # the masked alternative must be taken exactly for the last word: idx + 1 == ceil(len / BITS)
                            c = w[1]
                            sides_ok = False
                            if c[0] == "op" and c[1] == "==":
                                for a, bb in ((c[2], c[3]), (c[3], c[2])):
                                    if bb[0] == "call" and bb[1] == "int::div_ceil" and mentions(bb, lambda y: y[0] == "call" and y[1].endswith("::len")):
                                        base, off = lin(a)
                                        if off == 1 and mentions(w[2], lambda y: y[0] == "index" and y[2] == base) and mentions(w[2], lambda y: y[0] == "op" and y[1] == "&"):
                                            sides_ok = True
                            masked = sides_ok
                        # a full-word-only index (i < len / BITS) would also be fine
                        accs.append((n, clipped or masked, tshow(rt)[:160]))
            Walker(F, b, on_node=on_node).run()
            rr.instances += 1
            if not accs:
                rr.ob(True, key="%s:no-accumulation" % short_fn(b.key), nontrivial=False)
                continue
            bad = [a for a in accs if not a[1]]
            key = "%s:unmasked-tail-count" % short_fn(b.key)
            for a in accs:
                rr.ob(a[1], key=key + str(a[1]), sample={"fn": b.key, "accumulates": a[2], "clipped_or_masked": a[1]})
            if bad:
                rr.violate(key, "%s counts the ones of raw backend words including the partial last word / spare words (`%s`) without masking by len or clipping by the known total: stale bits beyond len are counted" % (b.key, bad[0][2]), F.loc(bad[0][0]))


@rule("R01.6", props=["C01", "C14"], floor=6, title="rank constructors read the backend only below ceil(len / 64) words")
def r01_6(ctx, rr):
    """Every `bits.as_ref()[x]` in Rank9::new / RankSmall::new is dominated by x < num_words with
    num_words = len.div_ceil(64): spare words of the backend (left by pop/shrink, or supplied through
    from_raw_parts) are never read."""
    F = ctx.F()
    bodies = F.find(r"^rank_sel::rank9::Rank9::<B>::new$") + F.find(r"^rank_sel::rank_small::RankSmall::<\d+, \d+, B>::new$")
    if len(bodies) < 6:
        raise AnchorMissing("expected Rank9::new and five RankSmall::new")
    for b in bodies:
        bits = ("var", b.params[0]["name"], b.params[0]["id"])
        reads = []

        def on_node(W, n, K, reads=reads):
            x = None
            if n.get("k") == "Index" and W.T.term(n["e"]) == bits and W.debug_depth == 0 and W.closure_depth == 0:
                x = W.T.term(n["i"])
            elif n.get("k") == "Call" and n["f"].get("k") == "Path" and n["f"].get("id") in W.T.closures and W.debug_depth == 0:
                # a local closure reading the backend at its parameter: the read happens at the call
                c = W.T.closures[n["f"]["id"]]
                ps = c.get("params", [])
                if len(ps) == 1 and ps[0].get("k") == "PBind" and any(y.get("k") == "Index" and y["i"].get("k") == "Path" and y["i"].get("id") == ps[0]["id"] and W.T.term(y["e"]) == bits for y in walk(c["body"])):
                    x = W.T.term(n["args"][0])
            if x is not None:
                nw = set()
                for a in K.atoms:
                    for t in a[1:3]:
                        if isinstance(t, tuple):
                            for y in subterms(t):
                                if len(y) == 3 and y[0] == "call" and y[1] == "int::div_ceil" and isinstance(y[2], tuple) and len(y[2]) == 2 and y[2][0] == ("call", "BitLength::len", (bits,)) and (y[2][1] == ("int", 64) or (y[2][1][0] == "def" and y[2][1][1].endswith("BITS"))):
                                    nw.add(y)
                ok = any(K.entails(atom_le(x, w, True)) for w in nw)
                if not ok and x[0] == "op" and x[1] == "+":
                    # x = a + b with b < num_words - a (a guard hoisted out of the inner loop as `min(num_words - i, ..)`)
                    K2 = K.copy()
                    for a_ in list(K.atoms):
                        if a_[0] == "le" and a_[2][0] == "op" and a_[2][1] == "min":
                            K2.add([("le", a_[1], a_[2][2], a_[3]), ("le", a_[1], a_[2][3], a_[3])])
                    for a, bb in ((x[2], x[3]), (x[3], x[2])):
                        if any(K2.entails(atom_le(bb, mk_op("-", w, a), True)) for w in nw):
                            ok = True
                reads.append((n, ok, K.show()[:6]))
            # `(lo..hi).map(closure)` with the closure reading the backend at its parameter: the reads are at lo..hi
            if n.get("k") == "MethodCall" and n["name"] == "map" and W.debug_depth == 0 and n.get("args") and n["args"][0].get("k") == "Path" and n["args"][0].get("id") in W.T.closures and range_of(F, n["recv"]) is not None:
                c = W.T.closures[n["args"][0]["id"]]
                ps = c.get("params", [])
                if len(ps) == 1 and ps[0].get("k") == "PBind" and any(y.get("k") == "Index" and y["i"].get("k") == "Path" and y["i"].get("id") == ps[0]["id"] and W.T.term(y["e"]) == bits for y in walk(c["body"])):
                    lo, hi, incl = range_of(F, n["recv"])
                    ht = W.expand(W.T.term(hi)) if hi is not None else None
                    okm = ht is not None and not incl and ht[0] == "call" and ht[1] == "int::div_ceil" and len(ht[2]) == 2 and ht[2][0] == ("call", "BitLength::len", (bits,)) and (ht[2][1] == ("int", 64) or (ht[2][1][0] == "def" and ht[2][1][1].endswith("BITS")))
                    reads.append((n, okm, K.show()[:6]))
        Walker(F, b, on_node=on_node).run()
        if len(reads) < 1:
            raise AnchorMissing("%s: expected at least one read of the backend" % b.key)
        for n, ok, known in reads:
            rr.instances += 1
            key = "%s:reads-below-num_words" % short_fn(b.key)
            rr.ob(ok, key=key + str(ok), sample={"fn": b.key, "read": show(F, n), "established": known})
            if not ok:
                rr.violate(key, "%s reads the backend word `%s` without `index < len.div_ceil(64)` established (established: %s): whole words beyond the bit vector are counted" % (b.key, show(F, n), "; ".join(known) or "nothing"), F.loc(n))


@rule("R01.7", props=["C01"], floor=5, title="RankSmall::new stores block and sub-block counters relative to the 2^32-bit chunk's upper count, as rank_unchecked adds them back (upper + absolute + rel)")
def r01_7(ctx, rr):
    """Reader: rank = upper_counts[chunk] + counts[block].absolute + counts[block].rel(sub) + in-word rank.
    Writer: absolute = ones so far - upper count; rel = ones so far - upper count - absolute. Dropping the upper
    count from either is invisible below 2^32 bits."""
    F = ctx.F()
    news = [b for b in F.fns() if b.name == "new" and b.file.endswith("rank_sel/rank_small.rs") and (b.impl_adt or "").endswith("RankSmall")]
    if len(news) < 5:
        raise AnchorMissing("expected the five RankSmall::new bodies, found %d" % len(news))
    for b in news:
        # the local pushed onto the vector that becomes the field `upper_counts`
        upper_vec = None
        for n in walk(b.body):
            if n.get("k") == "Struct" and range_of(F, n) is None:
                for f in n["fields"]:
                    if f["name"] == "upper_counts":
                        ps = [x for x in walk(f["e"]) if x.get("k") == "Path" and x.get("res") == "local"]
                        if ps:
                            upper_vec = ps[0]["id"]
        # follow `let upper_counts = upper_counts.into_boxed_slice()`
        for _ in range(3):
            ls = [x for x in walk(b.body) if x.get("k") == "LetStmt" and x["pat"].get("k") == "PBind" and x["pat"]["id"] == upper_vec and "init" in x]
            if ls and ls[0]["init"].get("k") == "MethodCall" and ls[0]["init"]["name"] in ("into_boxed_slice", "into"):
                ps = [x for x in walk(ls[0]["init"]) if x.get("k") == "Path" and x.get("res") == "local"]
                if ps:
                    upper_vec = ps[0]["id"]
                    continue
            break
        pushes = [n for n in walk(b.body) if n.get("k") == "MethodCall" and n["name"] == "push" and n["recv"].get("k") == "Path" and n["recv"].get("id") == upper_vec]
        if len(pushes) != 1 or pushes[0]["args"][0].get("k") != "Path":
            raise AnchorMissing("%s: could not identify the upper count (one push of a local onto upper_counts)" % b.key)
        U = pushes[0]["args"][0]["id"]

        def mentions_id(e, lid, depth=0):
            for x in walk(e):
                if x.get("k") == "Path" and x.get("res") == "local":
                    if x.get("id") == lid:
                        return True
                    if depth < 2:
                        ls = [y for y in walk(b.body) if y.get("k") == "LetStmt" and y["pat"].get("k") == "PBind" and y["pat"]["id"] == x.get("id") and "init" in y]
                        if ls and mentions_id(ls[0]["init"], lid, depth + 1):
                            return True
            return False

        def mentions_field(e, name, depth=0):
            for x in walk(e):
                if x.get("k") == "Field" and x["name"] == name:
                    return True
                if x.get("k") == "Path" and x.get("res") == "local" and depth < 2:
                    ls = [y for y in walk(b.body) if y.get("k") == "LetStmt" and y["pat"].get("k") == "PBind" and y["pat"]["id"] == x.get("id") and "init" in y]
                    if ls and mentions_field(ls[0]["init"], name, depth + 1):
                        return True
            return False
        abs_asg = [n for n in walk(b.body) if n.get("k") == "Assign" and n["l"].get("k") == "Field" and n["l"]["name"] == "absolute"]
        rels = [n for n in walk(b.body) if n.get("k") == "MethodCall" and n["name"] == "set_rel"]
        rr.instances += 1
        # the counter's value: assigned to the field, or given in the struct literal that creates the counter
        abs_vals = [n["r"] for n in abs_asg] + [f["e"] for n in walk(b.body) if n.get("k") == "Struct" and range_of(F, n) is None for f in n["fields"] if f["name"] == "absolute"]
        ok_a = len(abs_vals) == 1 and mentions_id(abs_vals[0], U) and any(x.get("k") == "Binary" and x["op"] == "-" for x in walk(abs_vals[0]))
        key = "%s:absolute-relative-to-upper" % short_fn(b.key)
        rr.ob(ok_a, key=key)
        if not ok_a:
            rr.violate(key, "%s: the block counter `absolute` must be the ones so far minus the upper count of the 2^32-bit chunk (rank_unchecked adds the upper count back)" % b.key, F.loc(abs_asg[0]) if abs_asg else b.span)
        rr.instances += 1
        ok_r = bool(rels) and all(mentions_id(n["args"][1], U) and mentions_field(n["args"][1], "absolute") for n in rels)
        key = "%s:rel-relative-to-upper-and-absolute" % short_fn(b.key)
        rr.ob(ok_r, key=key)
        if not ok_r:
            rr.violate(key, "%s: a sub-block counter must be the ones so far minus the upper count minus the block's absolute counter (`past_ones - upper_count - absolute`); rank_unchecked computes upper + absolute + rel, so dropping one of the two terms makes every rank beyond the first 2^32 bits (or the first sub-block) wrong" % b.key, F.loc(rels[0]) if rels else b.span)


@rule("R01.8", props=["C01", "C14"], floor=8, title="rank_unchecked / rank_hinted count only bits below `pos`: whole words strictly before the word of `pos`, that word under the low mask of pos % 64")
def r01_8(ctx, rr):
    """rank(pos) is defined on the first `pos` bits; the bits of the backend at or after `len` are not part of
    the vector (C14) and the counters are built without them (R01.4). A reader that counts a whole word at or
    after the word of `pos`, or the word of `pos` under anything but the low mask of `pos % 64` (e.g. scanning
    backwards from the next counter), reads positions >= pos -- possibly >= len, where stale bits live."""
    F = ctx.F()
    bodies = F.find(r"^<rank_sel::rank_small::RankSmall<\d+, \d+, B, C1, C2> as traits::rank_sel::RankUnchecked>::rank_unchecked$")
    if len(bodies) != 5:
        raise AnchorMissing("expected the five RankSmall rank_unchecked bodies, found %d" % len(bodies))
    bodies.append(F.one(r"^<rank_sel::rank9::Rank9<B, C> as traits::rank_sel::RankUnchecked>::rank_unchecked$"))
    bodies.append(F.one(r"^<bits::bit_vec::BitVec<B> as traits::rank_sel::RankHinted<64>>::rank_hinted$"))

    def is_read(t):
        return (t[0] == "call" and t[1].endswith("get_unchecked") and len(t[2]) == 2) or t[0] == "index"

    def read_index(t):
        return t[2][1] if t[0] == "call" else t[2]

    def is_word_size(x):
        return x == ("int", 64) or (x[0] == "def" and x[1].endswith("BITS"))

    for b in bodies:
        pos_p = [p for p in b.params if p.get("k") == "PBind" and p["name"] != "self"][0]
        pos = ("var", pos_p["name"], pos_p["id"])
        found = []

        def on_node(W, n, K, found=found, pos=pos):
            if n.get("k") == "MethodCall" and n["name"] in ("count_ones", "count_zeros") and W.debug_depth == 0:
                t = canon_masks(W.expand(W.T.term(n["recv"])))
                if not mentions(t, is_read):
                    return
                ok, why = False, "the counted word `%s` is neither a whole word before the word of pos nor masked to the bits below pos %% 64" % tshow(t)[:160]
                if t[0] == "op" and t[1] == "&":
                    for m, w in ((t[2], t[3]), (t[3], t[2])):
                        if m[0] == "lowmask" and m[1][0] == "op" and m[1][1] == "%" and m[1][2] == pos and is_word_size(m[1][3]) and is_read(w):
                            ok = True
                elif is_read(t):
                    i = read_index(t)
                    # (i + 1) * 64 <= pos, or i < pos / 64
                    for a in K.atoms:
                        if a[0] == "le" and a[3] <= 0 and a[2] == pos and a[1][0] == "op" and a[1][1] == "*":
                            fs = (a[1][2], a[1][3])
                            if any(is_word_size(x) for x in fs) and any(x == mk_op("+", i, ("int", 1)) for x in fs):
                                ok = True
                    for ws in (("int", 64), ("def", "core::num::<impl usize>::BITS")):
                        if K.entails(atom_le(i, mk_op("/", pos, ws), True)):
                            ok = True
                    if not ok:
                        why = "the whole word `%s` is counted although it is not established to lie strictly before the word of pos (established: %s)" % (tshow(t)[:120], "; ".join(K.show()[:5]) or "nothing")
                found.append((n, ok, why))
        Walker(F, b, on_node=on_node).run()
        if not found and "RankSmall<2, 9" not in b.key and "rank_hinted" not in b.key and "Rank9" not in b.key:
            # the sparse variants may leave all the counting to rank_hinted
            pass
        for n, ok, why in found:
            rr.instances += 1
            key = "%s:counts-only-below-pos" % short_fn_local(b.key)
            rr.ob(ok, key=key, sample={"fn": b.key, "count": show(F, n)[:100]})
            if not ok:
                rr.violate(key, "%s: %s" % (b.key, why), F.loc(n))


def short_fn_local(key):
    from r_guards import short_fn
    m = re.search(r"RankSmall<(\d+), (\d+)", key)
    return short_fn(key) + ("<%s,%s>" % (m.group(1), m.group(2)) if m else "")
