"""C09 rear-coded list: VByte writer/reader tables (R09.1), block protocol agreement between the
builder and the three decoders (R09.2), sortedness tracking (R09.3)."""
import re
from framework import rule
from r_guards import short_fn
from r_const import ConstEval
from sym import *  # noqa
from ir import *  # noqa


def cev(CE, t):
    # pow support
    if t[0] == "call" and t[1].endswith("::pow"):
        a, b = CE.ev(t[2][0]), CE.ev(t[2][1])
        return a ** b if a is not None and b is not None else None
    if t[0] == "op":
        a, b = cev(CE, t[2]), cev(CE, t[3])
        if a is None or b is None:
            return None
        return CE.ev(("op", t[1], ("int", a), ("int", b)))
    if t[0] == "def":
        bs = CE.consts.get(t[1])
        if bs:
            return cev(CE, Termizer(CE.F, bs[0]).term(bs[0].body))
    return CE.ev(t)


def encode_rungs(F, CE, b):
    """[(guard bound value or None, offset value, pushes [(prefix, shift)])]"""
    rungs = []
    value = ("var", b.params[0]["name"], b.params[0]["id"])
    W = Walker(F, b)
    cur = {"pushes": [], "guard": None}
    state = {"rungs": []}
    pm = {id(n): ps for n, ps in walk_with_parents(b.body)}

    def on_node(Wk, n, K):
        if Wk.debug_depth:
            return
        if n.get("k") == "MethodCall" and n["name"] == "push":
            t = Wk.T.term(n["args"][0])
            # enclosing rung = nearest If with a `value < BOUND` condition
            # (a push in the else branch of an `if value < BOUND` is not under that bound: in an else-if chain the
            # final else is the unguarded fallback, like the code after the last early return)
            rung = None
            anc = list(pm.get(id(n), ())) + [n]
            for i in range(len(anc) - 2, -1, -1):
                p = anc[i]
                if p.get("k") == "If" and not is_debug_only(F, p):
                    if p.get("el") is anc[i + 1]:
                        continue
                    rung = p
                    break
            state["rungs"].append((id(rung) if rung is not None else 0, rung, t))
    W.on_node = on_node
    W.run()
    groups = []
    for rid, rung, t in state["rungs"]:
        if not groups or groups[-1][0] != rid:
            groups.append((rid, rung, []))
        groups[-1][2].append(t)
    out = []
    for rid, rung, pushes in groups:
        guard = None
        if rung is not None:
            c = Termizer(F, b).term(rung["c"])
            if c[0] == "op" and c[1] == "<":
                guard = cev(CE, c[3])
        decoded = []
        offset = None
        for t in pushes:
            prefix = 0
            x = t
            if x[0] == "op" and x[1] == "|":
                for a, bb in ((x[2], x[3]), (x[3], x[2])):
                    if a[0] == "int":
                        prefix = a[1]
                        x = bb
                        break
            if x[0] == "int":
                decoded.append((x[1], None, None))
                continue
            shift = 0
            if x[0] == "op" and x[1] == ">>" and x[3][0] == "int":
                shift = x[3][1]
                x = x[2]
            base, off = x, 0
            if x[0] == "op" and x[1] == "-":
                base, off = x[2], cev(CE, x[3])
            decoded.append((prefix, shift, off if base == value else "?"))
        out.append({"guard": guard, "pushes": decoded})
    return out


def decode_rungs(F, CE, b):
    data = ("var", b.params[0]["name"], b.params[0]["id"])
    first = ("index", data, ("int", 0))
    rets = []
    pm = {id(n): ps for n, ps in walk_with_parents(b.body)}

    def on_node(Wk, n, K):
        if n.get("k") == "Tup" and len(n["es"]) == 2:
            t = Wk.expand(Wk.T.term(n))
            rung = None
            for p in reversed(pm.get(id(n), ())):
                if p.get("k") == "If":
                    rung = p
                    break
            guard = None
            # an arm of an exhaustive match on the first byte (`0x80..=0xBF => ..`): the end of the arm's range
            anc = list(pm.get(id(n), ())) + [n]
            for i_ in range(len(anc) - 2, -1, -1):
                m_ = anc[i_]
                if m_.get("k") == "Match" and Wk.expand(Wk.T.term(m_["e"])) == first:
                    for a_ in m_["arms"]:
                        if any(x is anc[i_ + 1] for x in walk(a_["body"])) or a_["body"] is anc[i_ + 1]:
                            p_ = a_["pat"]
                            if p_.get("k") == "PRange" and isinstance(p_.get("hi"), dict) and p_["hi"].get("lk") == "int":
                                guard = int(p_["hi"]["v"], 0) + (1 if p_.get("incl") else 0) if isinstance(p_["hi"]["v"], str) else int(p_["hi"]["v"]) + (1 if p_.get("incl") else 0)
                            elif p_.get("k") == "PLit" and p_.get("lk") == "int":
                                guard = (int(p_["v"], 0) if isinstance(p_["v"], str) else int(p_["v"])) + 1
                    rung = None
                    break
            if rung is not None and guard is None:
                c = Wk.T.term(rung["c"])
                if c[0] == "op" and c[1] == "<" and c[2] == first:
                    guard = cev(CE, c[3])
                else:
                    # the first byte classified by ranges (`match x { 0x80..=0xBF => .. }`, an if-chain on `lo <= x && x <= hi`
                    # after normalisation): the exclusive upper end of the range is the threshold
                    def upper(c):
                        if c[0] == "op" and c[1] == "&&":
                            return upper(c[3]) or upper(c[2])
                        if c[0] == "op" and c[1] == "<=" and Wk.expand(c[2]) == first:
                            v = cev(CE, c[3])
                            return None if v is None else v + 1
                        if c[0] == "op" and c[1] == "<" and Wk.expand(c[2]) == first:
                            return cev(CE, c[3])
                        if c[0] == "op" and c[1] == "==" and Wk.expand(c[2]) == first:
                            v = cev(CE, c[3])
                            return None if v is None else v + 1
                        return None
                    guard = upper(c)
            rets.append((guard, t[1], t[2]))
    Walker(F, b, on_node=on_node).run()
    out = []
    for guard, val, rest in rets:
        off = 0
        v = val
        if v[0] == "op" and v[1] == "+":
            for a, bb in ((v[2], v[3]), (v[3], v[2])):
                o = cev(CE, bb) if bb[0] in ("def", "int") else None
                if o is not None:
                    off = o
                    v = a
                    break
        # collect (byte index, mask, shift)
        parts = []

        def ors(t):
            if t[0] == "op" and t[1] == "|":
                return ors(t[2]) + ors(t[3])
            return [t]
        for p in ors(v):
            sh = 0
            x = p
            if x[0] == "op" and x[1] == "<<" and x[3][0] == "int":
                sh = x[3][1]
                x = x[2]
            mask = None
            if x[0] == "op" and x[1] == "&":
                for a, bb in ((x[2], x[3]), (x[3], x[2])):
                    if a[0] == "index":
                        x = a
                        m = bb
                        if m[0] == "un" and m[1] == "!":
                            mask = cev(CE, m[2])
                            mask = (~mask) & 0xFF if mask is not None else "?"
                        else:
                            # the mask written out (`& 0x3F` for `& !0xC0`)
                            mask = cev(CE, m)
                            mask = (mask & 0xFF) if mask is not None else "?"
                        break
            bi = x[2][1] if x[0] == "index" and x[1] == data and x[2][0] == "int" else "?"
            parts.append((bi, mask, sh))
        consumed = None
        if rest[0] == "index" and rest[2][0] == "struct":
            st = dict(rest[2][2]).get("start")
            consumed = st[1] if st and st[0] == "int" else None
        out.append({"guard": guard, "offset": off, "parts": sorted(parts, key=lambda x: str(x[0])), "consumed": consumed})
    return out


@rule("R09.1", props=["C09"], floor=9, title="VByte: encode_int and decode_int agree per length on threshold, offset, prefix byte, mask and byte positions; encode_int_len switches at the same thresholds")
def r09_1(ctx, rr):
    F = ctx.F()
    CE = ConstEval(F)
    eb = F.one(r"^dict::rear_coded_list::encode_int$")
    db = F.one(r"^dict::rear_coded_list::decode_int$")
    UB = [0]
    for k in range(1, 9):
        bs = CE.consts.get("dict::rear_coded_list::UPPER_BOUND_%d" % k)
        if not bs:
            raise AnchorMissing("UPPER_BOUND_%d not found" % k)
        UB.append(cev(CE, Termizer(F, bs[0]).term(bs[0].body)))
    for k in range(1, 9):
        rr.instances += 1
        rr.check(UB[k] is not None and UB[k - 1] is not None and UB[k] - UB[k - 1] == 128 ** k, "UPPER_BOUND_%d" % k, "UPPER_BOUND_%d must be UPPER_BOUND_%d + 128^%d (the %d-byte code holds 7*%d payload bits); found %s" % (k, k - 1, k, k, k, UB[k]), eb.span)
    enc = encode_rungs(F, CE, eb)
    dec = decode_rungs(F, CE, db)
    if len(enc) != 9 or len(dec) != 9:
        raise AnchorMissing("expected 9 code lengths in encode_int (%d) and decode_int (%d)" % (len(enc), len(dec)))
    for k in range(1, 10):
        e = enc[k - 1]
        d = dec[k - 1]
        key = "vbyte[%d]" % k
        prefix = e["pushes"][0][0] if e["pushes"] else None
        want_prefix = 0 if k == 1 else (256 - (1 << (9 - k))) if k < 9 else 255
        want_off = UB[k - 1] if k <= 8 else 0
        problems = []
        if k <= 8 and e["guard"] != UB[k]:
            problems.append("encode_int emits %d bytes for values below %s, not below UPPER_BOUND_%d = %s" % (k, e["guard"], k, UB[k]))
        if len(e["pushes"]) != k:
            problems.append("encode_int pushes %d bytes in the %d-byte rung" % (len(e["pushes"]), k))
        if prefix != want_prefix:
            problems.append("encode_int uses prefix byte %s, expected %s" % (prefix, want_prefix))
        payload = [p for p in e["pushes"] if p[1] is not None]
        shifts = [p[1] for p in payload]
        nbytes = k if k < 8 else k - 1
        if k >= 8:
            want_shifts = [8 * i for i in range(k - 2, -1, -1)]
        else:
            want_shifts = [8 * i for i in range(k - 1, -1, -1)]
        if shifts != want_shifts:
            problems.append("encode_int writes the payload with shifts %s, expected %s" % (shifts, want_shifts))
        offs = set(p[2] for p in payload)
        if offs != {want_off} and not (want_off == 0 and offs == {0}):
            problems.append("encode_int subtracts %s, expected UPPER_BOUND_%d = %s" % (sorted(map(str, offs)), k - 1, want_off))
        # decoder
        nxt_prefix = (256 - (1 << (9 - (k + 1)))) if k + 1 < 9 else 255
        if k <= 8 and d["guard"] != (128 if k == 1 else nxt_prefix):
            problems.append("decode_int takes the %d-byte branch for first bytes below %s, expected %s" % (k, d["guard"], 128 if k == 1 else nxt_prefix))
        if d["consumed"] != k:
            problems.append("decode_int consumes %s bytes in the %d-byte branch" % (d["consumed"], k))
        if d["offset"] != want_off:
            problems.append("decode_int adds %s, expected UPPER_BOUND_%d = %s" % (d["offset"], k - 1, want_off))
        dparts = sorted((p[0], p[2]) for p in d["parts"] if p[0] != "?")
        if k == 1:
            want_parts = [(0, 0)]
        elif k >= 8:
            want_parts = sorted((i + 1, s) for i, s in enumerate(want_shifts))
        else:
            want_parts = sorted((i, s) for i, s in enumerate(want_shifts))
        if dparts != want_parts:
            problems.append("decode_int assembles bytes/shifts %s, expected %s" % (dparts, want_parts))
        if 2 <= k <= 7:
            m0 = [p[1] for p in d["parts"] if p[0] == 0]
            want_mask = (1 << (8 - k)) - 1
            if m0 != [want_mask]:
                problems.append("decode_int masks the first byte with %s, expected %#x (the %d payload bits below the prefix %#x and its terminating 0)" % ([hex(x) if isinstance(x, int) else x for x in m0], want_mask, 8 - k, want_prefix))
        rr.instances += 1
        rr.ob(not problems, key=key, sample={"length": k, "encode": e, "decode": d})
        if problems:
            rr.violate(key, "VByte code of length %d: %s" % (k, "; ".join(problems)), eb.span)
    # encode_int_len: thresholds are cumulative sums of 2^(7k)
    lb = F.one(r"^dict::rear_coded_list::encode_int_len$")
    # roles, not names: the value is the parameter, the length is the local returned at the end, the bound is
    # the local the loop compares the value with
    ok = False
    pid = lb.params[0]["id"] if lb.params and lb.params[0].get("k") == "PBind" else None
    tail = lb.body.get("expr") if lb.body.get("k") == "Block" else None
    len_id = tail.get("id") if tail is not None and tail.get("k") == "Path" and tail.get("res") == "local" else None
    T0 = Termizer(F, lb)
    inits = {}
    for n in walk(lb.body):
        if n.get("k") == "LetStmt" and n["pat"].get("k") == "PBind" and "init" in n:
            inits[n["pat"]["id"]] = T0.term(n["init"])
    ops = [(n["op"], n["l"].get("id"), n["r"].get("id") if n["r"].get("k") == "Path" else T0.term(n["r"])) for n in walk(lb.body) if n.get("k") == "AssignOp" and n["l"].get("k") == "Path"]
    loops = [n for n in walk(lb.body) if n.get("k") == "Loop"]
    max_id = None
    for n in walk(lb.body):
        if n.get("k") == "Binary" and n["op"] in (">=", "<=") and n["l"].get("k") == "Path" and n["r"].get("k") == "Path":
            l_, r_ = (n["l"], n["r"]) if n["op"] == ">=" else (n["r"], n["l"])
            if l_.get("id") == pid:
                max_id = r_.get("id")
    if pid is not None and len_id is not None and max_id is not None and len(loops) == 1:
        ok = inits.get(len_id) == ("int", 1) and inits.get(max_id) == ("int", 128) and ("+=", len_id, ("int", 1)) in ops and \
            (("<<=", max_id, ("int", 7)) in ops or ("*=", max_id, ("int", 128)) in ops) and ("-=", pid, max_id) in ops and len(ops) == 3
    rr.instances += 1
    rr.check(ok, "encode_int_len", "encode_int_len must start with one byte and a bound of 128 and, while the value reaches the bound, add a byte, subtract the bound and multiply it by 128 (the thresholds of encode_int)", lb.span)


@rule("R09.2", props=["C09"], floor=8, title="rear-coded list: builder and decoders agree on the block protocol (index % k == 0 verbatim, else rear length + suffix, NUL terminated)")
def r09_2(ctx, rr):
    F = ctx.F()
    pb = F.one(r"^dict::rear_coded_list::RearCodedListBuilder::push$")
    slf = ("var", "self", pb.params[0]["id"])
    T = Termizer(F, pb)
    # block predicate in the builder
    blk = None
    for n in walk(pb.body):
        if n.get("k") == "If":
            c = T.term(n["c"])
            if c == mk_op("==", mk_op("%", ("field", slf, "len"), ("field", slf, "k")), ("int", 0)):
                blk = n
    rr.instances += 1
    rr.check(blk is not None, "RearCodedListBuilder::push:block-predicate", "push must start a new block exactly when `self.len % self.k == 0`", pb.span)
    if blk is not None:
        # the variable holding the length of the common prefix: first component of longest_common_prefix(..)
        lcp_id = None
        for n in walk(pb.body):
            if n.get("k") == "LetStmt" and n.get("init") is not None and cname(F, n["init"]) == "rear_coded_list::longest_common_prefix" and n["pat"].get("k") == "PTuple" and n["pat"]["ps"][0].get("k") == "PBind":
                lcp_id = n["pat"]["ps"][0]["id"]
        if lcp_id is None:
            raise AnchorMissing("push: `let (lcp, order) = longest_common_prefix(..)` not found")

        def is_lcp(x):
            return x[0] == "var" and str(x[2]).split("#")[0] == str(lcp_id)
        W = Walker(F, pb)
        ev = {"ptr_th": 0, "ptr_el": 0, "enc_th": 0, "enc_el": [], "suffix_el": False}
        in_th = set(id(x) for x in walk(blk["th"]))
        in_el = set(id(x) for x in walk(blk["el"])) if "el" in blk else set()

        def on_node(Wk, n, K):
            if n.get("k") == "MethodCall" and n["name"] == "push" and Wk.T.term(n["recv"]) == ("field", slf, "pointers"):
                arg = Wk.T.term(n["args"][0])
                good = arg == ("call", "len", (("field", slf, "data"),))
                if id(n) in in_th and good:
                    ev["ptr_th"] += 1
                else:
                    ev["ptr_el"] += 1
            if cname(F, n) == "rear_coded_list::encode_int":
                a = Wk.T.term(n["args"][0])
                if a[0] == "var":
                    # a local computed before the branch (and snapshotted by the walker because last_str changes
                    # later): its defining expression
                    from r_guards import simple_env
                    a2 = simple_env(F, pb).term(n["args"][0])
                    if a2[0] == "op":
                        a = a2
                if id(n) in in_el:
                    ev["enc_el"].append(a)
                else:
                    ev["enc_th"] += 1
            if n.get("k") == "Index" and id(n) in in_el and range_of(F, n["i"]) is not None:
                lo, hi, incl = range_of(F, n["i"])
                if lo is not None and hi is None and is_lcp(Wk.T.term(lo)) and "[u8]" in F.tya(n["e"]) + F.ty(n["e"]):
                    # a byte slice: lcp is a byte count and may fall inside a multi-byte character of a str
                    ev["suffix_el"] = True
        W.on_node = on_node
        W.run()
        rr.instances += 1
        rr.check(ev["ptr_th"] == 1 and ev["ptr_el"] == 0, "RearCodedListBuilder::push:pointer-per-block", "a pointer to the current end of data must be pushed exactly when a block starts", F.loc(blk))
        rr.instances += 1
        want = [x for x in ev["enc_el"] if x[0] == "op" and x[1] == "-" and x[2] == ("call", "len", (("field", slf, "last_str"),)) and is_lcp(x[3])]
        rr.check(len(ev["enc_el"]) == 1 and len(want) == 1 and ev["enc_th"] == 0, "RearCodedListBuilder::push:rear-length", "inside a block the rear length `last_str.len() - lcp` must be encoded before the suffix; the first string of a block is stored verbatim", F.loc(blk))
        rr.instances += 1
        rr.check(ev["suffix_el"], "RearCodedListBuilder::push:suffix", "inside a block only the suffix after the common prefix is stored, sliced from the *bytes* of the string (the common prefix is a byte count and may end inside a multi-byte character)", F.loc(blk))
    pslf = ("var", "self", pb.params[0]["id"])
    pstr = pb.params[1]["id"]
    Tpb = Termizer(F, pb)

    def stmts_of(n):
        return n["stmts"] + ([n["expr"]] if "expr" in n else [])

    def is_call_on(n, field, name):
        while n.get("k") == "Block" and not n["stmts"] and "expr" in n:
            n = n["expr"]
        return n.get("k") == "MethodCall" and n["name"] == name and Tpb.term(n["recv"]) == ("field", pslf, field)
    top = stmts_of(pb.body)
    nul_ok = False
    for a_, b_ in zip(top, top[1:]):
        if is_call_on(a_, "data", "extend_from_slice") and is_call_on(b_, "data", "push"):
            arg = b_["args"][0] if b_.get("k") == "MethodCall" else None
            nul_ok = arg is not None and arg.get("k") == "Lit" and str(arg.get("v")) == "0"
    rr.instances += 1
    rr.check(nul_ok, "RearCodedListBuilder::push:nul", "every stored (suffix of a) string must be followed by a NUL terminator (`data.extend_from_slice(..)` directly followed by `data.push(0)`)", pb.span)
    rr.instances += 1
    seq = []

    def on_state(Wk, n, K):
        if n.get("k") == "MethodCall" and Wk.T.term(n["recv"]) == ("field", pslf, "last_str") and n["name"] in ("clear", "extend_from_slice"):
            whole = n["name"] == "clear" or (n["args"] and not any(x.get("k") == "Index" for x in walk(n["args"][0])) and mentions(Wk.expand(Wk.T.term(n["args"][0])), lambda x: x[0] == "var" and str(x[2]).split("#")[0] in (str(pstr),) or (x[0] == "var" and x[1] == pb.params[1]["name"])))
            seq.append((n["name"], whole))
        if n.get("k") == "AssignOp" and n["op"] == "+=" and Wk.T.term(n["l"]) == ("field", pslf, "len") and Wk.T.term(n["r"]) == ("int", 1):
            seq.append(("len+1", True))
            lhs_ids.add(id(n["l"]))
        elif n.get("k") == "Field" and n.get("name") == "len" and id(n) not in lhs_ids and any(x[0] == "len+1" for x in seq) and Wk.T.term(n) == ("field", pslf, "len"):
            # the count is read after it was advanced: the block test / statistics would see the next index
            seq.append(("len read after len+1", False))
    lhs_ids = set()
    Walker(F, pb, on_node=on_state).run()
    # the count is advanced once, after every use of it; remembering the string (clear, then extend) is independent of it
    rr.check([x[0] for x in seq if x[0] != "len+1"] == ["clear", "extend_from_slice"] and [x[0] for x in seq].count("len+1") == 1 and all(x[1] for x in seq), "RearCodedListBuilder::push:state", "push must remember the whole new string as last_str (clear, then extend from its bytes) and count it once; found %s" % seq, pb.span)
    # decoders: truncate by the decoded rear length before appending
    for path in (r"^<dict::rear_coded_list::Lend<'_, D, P> as lender::Lender>::next$", r"^dict::rear_coded_list::RearCodedList::<D, P>::get_in_place$", r"^dict::rear_coded_list::RearCodedList::<D, P>::index_of_sorted$"):
        b = F.one(path)
        hits = []

        def on_resize(Wk, n, K, hits=hits):
            if n.get("k") == "MethodCall" and n["name"] in ("resize", "truncate") and n["args"]:
                R = Wk.T.term(n["recv"])
                a = Wk.expand(Wk.T.term(n["args"][0]))
                ok = a[0] == "op" and a[1] == "-" and a[2] == ("call", "len", (R,)) and a[3][0] == "field" and a[3][2] == "0" and a[3][1][0] == "call" and a[3][1][1].endswith("decode_int")
                hits.append(ok)
        Walker(F, b, on_node=on_resize).run()
        rr.instances += 1
        rr.check(any(hits), "%s:truncate-by-rear-length" % short_fn(b.key), "%s must shorten the previous string to `len - (rear length decoded by decode_int)` before appending the suffix" % b.key, b.span)
    lb = F.one(r"^<dict::rear_coded_list::Lend<'_, D, P> as lender::Lender>::next$")
    ls = ("var", "self", lb.params[0]["id"])
    TL = Termizer(F, lb)
    okp = any(n.get("k") == "If" and TL.term(n["c"]) == mk_op("==", mk_op("%", ("field", ls, "index"), ("field", ("field", ls, "rca"), "k")), ("int", 0)) and any(x.get("k") == "MethodCall" and x["name"] == "clear" and TL.term(x["recv"]) == ("field", ls, "buffer") for x in walk(n["th"])) for n in walk(lb.body))
    if not okp:
        # the same test with the other polarity: `if index % k != 0 { rear-coded } else { verbatim }`
        pred_ne = mk_op("!=", mk_op("%", ("field", ls, "index"), ("field", ("field", ls, "rca"), "k")), ("int", 0))
        okp = any(n.get("k") == "If" and "el" in n and TL.term(n["c"]) == pred_ne and any(x.get("k") == "MethodCall" and x["name"] == "clear" and TL.term(x["recv"]) == ("field", ls, "buffer") for x in walk(n["el"]))
                  and not any(x.get("k") == "MethodCall" and x["name"] == "clear" for x in walk(n["th"])) for n in walk(lb.body))
    rr.instances += 1
    rr.check(okp, "Lend::next:block-predicate", "Lend::next must restart from a verbatim string exactly when `index % k == 0` (the builder's predicate)", lb.span)
    gb = F.one(r"^dict::rear_coded_list::RearCodedList::<D, P>::get_in_place$")
    gs = ("var", "self", gb.params[0]["id"])
    gi = ("var", gb.params[1]["name"], gb.params[1]["id"])
    got = {"block": None, "replay": None}

    def on_gip(Wk, n, K):
        if n.get("k") == "Index" and Wk.T.term(n["e"]) == ("field", gs, "pointers") and got["block"] is None:
            got["block"] = Wk.expand(Wk.T.term(n["i"]))
        if n.get("k") == "Struct" and range_of(F, n) is not None:
            lo, hi, incl = range_of(F, n)
            if lo is not None and hi is not None and not incl:
                got["replay"] = (Wk.expand(Wk.T.term(lo)), Wk.expand(Wk.T.term(hi)))
    Walker(F, gb, on_node=on_gip).run()
    rr.instances += 1
    ok = got["block"] == mk_op("/", gi, ("field", gs, "k"))
    rr.check(ok, "get_in_place:block/offset", "get_in_place must locate the block as index / k (pointer index found: %s)" % (tshow(got["block"]) if got["block"] else None), gb.span)
    # the output buffer is emptied before the block head is copied into it
    evs = []
    for n in walk(gb.body):
        if n.get("k") == "MethodCall" and n["name"] == "clear" and n["recv"].get("k") == "Path" and n["recv"].get("id") == gb.params[2]["id"]:
            evs.append(("clear", F.line(n)))
        if cname(F, n) == "rear_coded_list::strcpy":
            evs.append(("strcpy", F.line(n)))
    rr.instances += 1
    rr.check(bool(evs) and evs[0][0] == "clear", "get_in_place:clears-buffer", "get_in_place must clear the caller's buffer before decoding into it (the method exists to reuse one buffer across calls)", gb.span)
    rr.instances += 1
    rr.check(got["replay"] == (("int", 0), mk_op("%", gi, ("field", gs, "k"))), "get_in_place:replay-count", "get_in_place must replay exactly index %% k rear-coded strings after the block head (loop range found: %s)" % (tuple(map(tshow, got["replay"])) if got["replay"] else None,), gb.span)
    # the binary search of index_of_sorted runs over every block head
    ibs = F.one(r"^dict::rear_coded_list::RearCodedList::<D, P>::index_of_sorted$")
    ibs_s = ("var", "self", ibs.params[0]["id"])
    bsearch = []

    def on_bs(Wk, n, K):
        if n.get("k") == "MethodCall" and n["name"] in ("binary_search_by", "binary_search", "binary_search_by_key", "partition_point"):
            bsearch.append((n, Wk.expand(Wk.T.term(n["recv"]))))
    Walker(F, ibs, on_node=on_bs).run()
    rr.instances += 1
    okb = len(bsearch) == 1 and bsearch[0][1] == ("field", ibs_s, "pointers")
    if not okb and len(bsearch) == 1:
        # or an explicit prefix of exactly ceil(len / k) pointers
        t = bsearch[0][1]
        if t[0] == "index" and t[1] == ("field", ibs_s, "pointers") and t[2][0] == "struct":
            end = dict(t[2][2]).get("end")
            okb = end == ("call", "int::div_ceil", (("field", ibs_s, "len"), ("field", ibs_s, "k"))) and dict(t[2][2]).get("start") in (None, ("int", 0))
    rr.check(okb, "index_of_sorted:search-all-blocks", "index_of_sorted must binary-search the heads of all ceil(len / k) blocks (`self.pointers`): a shorter prefix leaves the last, partial block unreachable (found a search over %s)" % [tshow(t)[:100] for _, t in bsearch], ibs.span)
    # in-block scan of index_of_sorted is clamped by the strings remaining in the last block
    ib = F.one(r"^dict::rear_coded_list::RearCodedList::<D, P>::index_of_sorted$")
    isf = ("var", "self", ib.params[0]["id"])
    found = []

    def on_node(Wk, n, K):
        if n.get("k") == "Struct" and range_of(F, n) is not None:
            lo, hi, incl = range_of(F, n)
            if lo is not None and hi is not None:
                found.append((Wk.expand(Wk.T.term(hi)), n))
    Walker(F, ib, on_node=on_node).run()
    ok = False
    for t, n in found:
        if t[0] == "op" and t[1] == "min":
            leaves = [t[2], t[3]]
            k1 = mk_op("-", ("field", isf, "k"), ("int", 1))
            if k1 in leaves:
                other = leaves[1] if leaves[0] == k1 else leaves[0]
                if mentions(other, lambda x: x == ("field", isf, "len")) and mentions(other, lambda x: x == ("field", isf, "k")):
                    ok = True
    rr.instances += 1
    rr.check(ok, "index_of_sorted:scan-clamped", "the in-block scan of index_of_sorted must be bounded by min(k - 1, len - block * k - 1): a partially filled last block has fewer than k strings and scanning past them reads beyond the data", ib.span)


@rule("R09.3", props=["C09"], floor=5, title="sortedness flag: cleared exactly on a descent (including a string followed by its own proper prefix); index_of dispatches on it")
def r09_3(ctx, rr):
    F = ctx.F()
    lc = F.one(r"^dict::rear_coded_list::longest_common_prefix$")
    a = ("var", lc.params[0]["name"], lc.params[0]["id"])
    b_ = ("var", lc.params[1]["name"], lc.params[1]["id"])
    W = Walker(F, lc)
    W.run()
    t = W.T.term(lc.body.get("expr"))
    la, lb = ("call", "len", (a,)), ("call", "len", (b_,))
    # every pair the function can return: (.., a[i].cmp(&b[i])) at the first difference, (.., a.len().cmp(&b.len()))
    # when one string is a prefix of the other -- whatever the control flow that picks between them
    found = tshow(t)[:300]
    seconds = []
    for n in walk(lc.body):
        if n.get("k") == "Tup" and len(n.get("es", [])) == 2:
            seconds.append(W.expand(W.T.term(n["es"][1])))
    kinds = set()
    _T0 = Termizer(F, lc)
    _lets = {str(n_["pat"]["id"]): _T0.term(n_["init"]) for n_ in walk(lc.body) if n_.get("k") == "LetStmt" and n_["pat"].get("k") == "PBind" and "init" in n_}

    def _origin(z):
        return _lets.get(str(z[2]).split("#")[0], z) if z[0] == "var" else z
    for c in seconds:
        if c[0] == "call" and c[1] == "Ord::cmp" and len(c[2]) == 2:
            x, y = _origin(c[2][0]), _origin(c[2][1])
            if x[0] == "index" and y[0] == "index" and x[1] == a and y[1] == b_ and x[2] == y[2]:
                kinds.add("byte")
            elif (x, y) == (la, lb):
                kinds.add("len")
            elif all(mentions(z, lambda w: w[0] == "call" and isinstance(w[1], str) and w[1].endswith("from_be_bytes")) for z in (x, y)) and mentions(x, lambda w: w == a) and mentions(y, lambda w: w == b_):
                kinds.add("word-be")    # whole words loaded big-endian order like their bytes (R09.7 checks the loads)
            else:
                kinds.add("other:" + tshow(c)[:60])
        else:
            kinds.add("other:" + tshow(c)[:60])
    ok = {"byte", "len"} <= kinds <= {"byte", "len", "word-be"}
    rr.instances += 1
    rr.check(ok, "longest_common_prefix:order", "longest_common_prefix(a, b) must order by the first differing byte and, when one string is a prefix of the other, by the two *lengths* (a.len().cmp(&b.len())); found %s" % found, lc.span)
    # min_len = min(len a, len b) bounds the scan
    Tlc = Termizer(F, lc)
    mins = [n for n in walk(lc.body) if n.get("k") == "LetStmt" and "init" in n and Tlc.term(n["init"]) == mk_op("min", la, lb)]
    bounded = False
    if mins:
        mid = mins[0]["pat"].get("id")
        # the scan loop is bounded by it
        bounded = any(x.get("k") == "Path" and x.get("id") == mid for x in walk(lc.body) if x is not mins[0]["pat"])
    rr.instances += 1
    # ... or the two strings are walked in lockstep (zip stops at the shorter one)
    zipped = any(n.get("k") == "MethodCall" and n["name"] == "zip" and mentions(Tlc.term(n["recv"]), lambda x: x in (a, b_)) and n.get("args") and mentions(Tlc.term(n["args"][0]), lambda x: x in (a, b_)) for n in walk(lc.body))
    rr.check((bool(mins) and bounded) or zipped, "longest_common_prefix:min_len", "the scan must be bounded by min(a.len(), b.len())", lc.span)
    pb = F.one(r"^dict::rear_coded_list::RearCodedListBuilder::push$")
    pslf = ("var", "self", pb.params[0]["id"])
    clears = []

    pm_push = {id(n): ps for n, ps in walk_with_parents(pb.body)}

    def on_if(Wk, n, K):
        sets = [x for x in walk(n["th"]) if x.get("k") == "Assign" and Wk.T.term(x["l"]) == ("field", pslf, "is_sorted")]
        if sets and not any(x.get("k") == "If" and x is not n and any(y is sets[0] for y in walk(x)) for x in walk(n["th"])):
            # the test itself must not sit under another condition (every pair of consecutive strings is compared,
            # block heads included)
            nested = [p for p in pm_push.get(id(n), ()) if p.get("k") in ("If", "Match", "Loop")]
            clears.append((Wk.expand(Wk.T.term(n["c"])), "el" in n or bool(nested), [x["r"].get("v") for x in sets]))
    Wp = Walker(F, pb)
    Wp.on_if = on_if
    Wp.run()
    all_sets = [x for x in walk(pb.body) if x.get("k") == "Assign" and Termizer(F, pb).term(x["l"]) == ("field", pslf, "is_sorted")]
    rr.instances += 1
    ok = False
    cmp_call = None
    if len(clears) == 1 and len(all_sets) == 1 and not clears[0][1] and clears[0][2] == [False]:
        c = clears[0][0]
        if c[0] == "op" and c[1] == "==":
            sides = [c[2], c[3]]
            g = [x for x in sides if x[0] == "def" and x[1].endswith("Ordering::Greater")]
            o = [x for x in sides if x[0] == "field" and x[2] == "1" and x[1][0] == "call" and x[1][1].endswith("longest_common_prefix")]
            if g and o:
                ok = True
                cmp_call = o[0][1]
    rr.check(ok, "push:is_sorted", "push must clear is_sorted exactly when longest_common_prefix reports the previous string greater than the new one, for every push (the test must not be nested in another condition or have an else branch); found %s" % [(tshow(c[0]), "conditional" if c[1] else "unconditional") for c in clears], pb.span)
    # the order comes from longest_common_prefix(last_str, string)
    rr.instances += 1
    ok = cmp_call is not None and len(cmp_call[2]) == 2 and cmp_call[2][0] == ("field", pslf, "last_str") and mentions(cmp_call[2][1], lambda x: x[0] == "var" and x[1] == pb.params[1]["name"]) and not mentions(cmp_call[2][1], lambda x: x[0] == "field" and x[2] == "last_str")
    rr.check(ok, "push:compares-last-with-new", "push must compare (last_str, new string) in this order", pb.span)
    ib = F.one(r"^<dict::rear_coded_list::RearCodedList<D, P> as traits::indexed_dict::IndexedDict>::index_of$")
    t = Termizer(F, ib).term(ib.body)
    s = ("var", "self", ib.params[0]["id"])
    rr.instances += 1
    ok = t[0] == "ite" and t[1] == ("field", s, "is_sorted") and t[2][0] == "call" and t[2][1].endswith("index_of_sorted") and t[3][0] == "call" and t[3][1].endswith("index_of_unsorted")
    rr.check(ok, "RearCodedList::index_of:dispatch", "index_of must use the binary search only when is_sorted holds and the linear scan otherwise", ib.span)
    cb = F.one(r"^<dict::rear_coded_list::RearCodedList<D, P> as traits::indexed_dict::IndexedDict>::contains$")
    rr.instances += 1
    ct = Termizer(F, cb).term(cb.body)
    cs_ = ("var", "self", cb.params[0]["id"])
    cv_ = ("var", cb.params[1]["name"], cb.params[1]["id"])
    rr.check(ct == ("call", "Option::is_some", (("call", "IndexedDict::index_of", (cs_, cv_)),)), "RearCodedList::contains", "contains must be index_of(value).is_some(); found %s" % tshow(ct)[:120], cb.span)
    bb = F.one(r"^dict::rear_coded_list::RearCodedListBuilder::build$")
    from r_ef import struct_literal_fields
    sl = struct_literal_fields(F, bb)
    bs = ("var", "self", bb.params[0]["id"])
    rr.instances += 1
    rr.check(len(sl) == 1 and sl[0].get("is_sorted") == ("field", bs, "is_sorted") and sl[0].get("len") == ("field", bs, "len") and sl[0].get("k") == ("field", bs, "k"), "RearCodedListBuilder::build:carries", "build must carry len, k and is_sorted over unchanged", bb.span)


@rule("R09.7", props=["C09"], floor=2, title="longest_common_prefix orders byte strings by single bytes, byte slices or lengths only (a little-endian multi-byte load does not preserve the lexicographic order)")
def r09_7(ctx, rr):
    """is_sorted (hence the choice between binary search and linear scan in index_of) rests on the Ordering
    returned by longest_common_prefix. Every comparison that can decide it must be between u8 values, byte
    slices, or usize lengths; wider integers only when loaded big-endian."""
    F = ctx.F()
    b = F.one(r"^dict::rear_coded_list::longest_common_prefix$")
    T = Termizer(F, b)
    lets = {}
    for n in walk(b.body):
        if n.get("k") == "LetStmt" and n["pat"].get("k") == "PBind" and "init" in n:
            lets[n["pat"]["id"]] = n["init"]

    def origin(e, depth=0):
        """resolve a local to its initialiser (a few steps)"""
        while e.get("k") == "Path" and e.get("res") == "local" and e.get("id") in lets and depth < 6:
            e = lets[e["id"]]
            depth += 1
        return e

    def strip_ref(t):
        return re.sub(r"^&(mut )?", "", t.strip())

    cmps = [n for n in walk(b.body) if (n.get("k") == "MethodCall" and n["name"] in ("cmp", "partial_cmp", "lt", "gt", "le", "ge")) or
            (n.get("k") == "Binary" and n["op"] in ("<", ">", "<=", ">=") and any(x.get("k") in ("Index", "MethodCall", "Call") or True for x in [n["l"]]))]
    n_ord = 0
    for n in cmps:
        if n.get("k") == "MethodCall":
            recv = n["recv"]
        else:
            recv = n["l"]
        ty = strip_ref(F.ty(recv) or F.tya(recv))
        src = origin(recv)
        if n.get("k") == "Binary":
            # loop bounds and index tests compare positions (usize): irrelevant to the order unless both sides are data
            if ty == "usize":
                continue
        n_ord += 1
        rr.instances += 1
        key = "longest_common_prefix:order-by-bytes"
        ok = False
        why = ""
        if ty in ("u8", "[u8]") or ty.startswith("[u8;"):
            ok = True
        elif ty == "usize":
            # a length (tie-break when one string is a prefix of the other)
            t = T.term(src)
            ok = t[0] == "call" and t[1] == "len"
            why = "compares `%s`, which is not a length" % show(F, recv)[:60]
        else:
            be = any(x.get("k") in ("Call", "MethodCall") and (x.get("name") in ("from_be_bytes", "to_be", "swap_bytes") or (cname(F, x) or "").endswith(("from_be_bytes", "to_be", "swap_bytes"))) for x in walk(src))
            ok = be
            why = "compares `%s` of type %s, which is not loaded big-endian: the order of two words read little-endian (or natively) is decided by their *last* differing byte" % (show(F, recv)[:60], ty)
        rr.ob(ok, key=key, sample={"compare": show(F, n)[:100], "type": ty})
        if not ok:
            rr.violate(key, "longest_common_prefix decides the order of two byte strings with `%s`: %s" % (show(F, n)[:100], why), F.loc(n))
    if n_ord < 2:
        raise AnchorMissing("longest_common_prefix: expected the byte comparison and the length tie-break, found %d ordering comparisons" % n_ord)


@rule("R09.8", props=["C09"], floor=1, title="RearCodedList::index_of_sorted: the in-block scan starts after the block head, so every path that reaches it has already told the probe from the head (an equality outcome that returns the head's index)")
def r09_8(ctx, rr):
    """The linear scan decodes the strings *following* the first of the block and returns `block * k + idx + 1`; the
    head itself is only ever recognised by the search that picks the block (`binary_search_by .. Ok(i) => i * k`).
    A shortcut into the scan that merely checks `probe >= head` loses the head."""
    import paths
    F = ctx.F()
    b = F.one(r"^dict::rear_coded_list::RearCodedList::<D, P>::index_of_sorted$")
    stmts = list(b.body.get("stmts", []))
    cut = None
    for i, st in enumerate(stmts):
        if any(x.get("k") == "Loop" for x in walk(st)):
            cut = i
            break
    if cut is None or cut == 0:
        raise AnchorMissing("index_of_sorted: expected a block selection followed by a scan loop")
    prefix = {"k": "Block", "stmts": stmts[:cut], "s": b.body.get("s", "")}
    try:
        ps = paths.enum_paths(prefix)
    except paths.Unsupported as e:
        raise AnchorMissing("index_of_sorted: block selection could not be enumerated (%s)" % e)

    def equality_excluded(ev):
        for e in ev:
            if e[0] == "iflet" and e[2] is False:
                txt = show(F, e[1]["c"])
                if "Ok(" in txt:
                    return True     # `if let Ok(i) = <search result> { return .. }` not taken: the search found no equal head
            if e[0] == "arm":
                m, a = e[1], e[2]
                names = [x["pat"].get("name") for x in m["arms"]]
                # a match on the search result / on an Ordering in which the Ok / Equal arm leaves the function
                if a["pat"].get("name") in ("Err", "Less", "Greater") and any(nm in ("Ok", "Equal") for nm in names):
                    other = [x for x in m["arms"] if x["pat"].get("name") in ("Ok", "Equal")]
                    if other and any(y.get("k") == "Ret" for y in walk(other[0]["body"])):
                        return True
            if e[0] == "cond":
                txt = show(F, e[1])
                if "Equal" in txt and ((e[2] is False and "==" in txt) or (e[2] is True and "!=" in txt)):
                    return True
            if e[0] in ("let", "expr"):
                node = e[1] if e[0] == "expr" else e[1].get("init", {})
                # `let i = search?` / `.. .err()?`-style early exits on equality
                if isinstance(node, dict) and any(x.get("k") == "Match" and x.get("src") == "TryDesugar" for x in walk(node)):
                    return True
        return False
    n = 0
    for ev in ps:
        if _is_return_path(ev):
            continue
        n += 1
        rr.instances += 1
        ok = equality_excluded(ev)
        key = "index_of_sorted:head-recognised-before-scan"
        rr.ob(ok, key=key, sample={"tests on the path": [("%s%s" % ("" if e[2] else "!", show(F, e[1])[:60])) for e in ev if e[0] == "cond"][:6]})
        if not ok:
            conds = [("%s%s" % ("" if e[2] else "!", show(F, e[1])[:60])) for e in ev if e[0] == "cond"]
            rr.violate(key, "index_of_sorted reaches the scan of the strings that follow the block head along a path (%s) on which the probe was never found different from the head: a probe equal to the first string of the block is not found (the scan returns block * k + idx + 1 only)" % ("; ".join(conds) or "no test"), b.span)
    if n == 0:
        raise AnchorMissing("index_of_sorted: no path reaches the scan")


def _is_return_path(ev):
    return any(e[0] == "explicit-return" for e in ev)
