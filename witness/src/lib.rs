//! Type-level witnesses for C15: for every serializable structure, the type obtained by each loading
//! path implements the query traits the original implements.
//!
//! * full-copy deserialization returns the type itself;
//! * zero-copy deserialization from a buffer returns `DeserType<'a>`;
//! * memory mapping returns a `MemCase<DeserType<'static>>`, which dereferences to `DeserType`.
//!
//! This crate is only ever type-checked (`cargo check`); nothing in it runs. A witness that stops
//! compiling names the structure and the trait that a loaded instance no longer offers.
#![allow(dead_code, clippy::type_complexity)]
use epserde::deser::DeserializeInner;
use sux::dict::elias_fano::{EfDict, EfSeq, EfSeqDict};
use sux::func::shard_edge::{Mwhc3NoShards, Mwhc3Shards};
use sux::prelude::*;

type Eps<'a, T> = <T as DeserializeInner>::DeserType<'a>;

fn bits<T: BitLength + BitCount>() {}
fn hinted<T: RankHinted<64> + SelectHinted + SelectZeroHinted>() {}
fn rank<T: Rank + RankZero + RankUnchecked + BitLength + NumBits + BitCount>() {}
fn select<T: Select + SelectUnchecked + BitLength + NumBits>() {}
fn select_zero<T: SelectZero + SelectZeroUnchecked + BitLength + NumBits>() {}
fn field_slice<W: Word, T: BitFieldSlice<W> + BitFieldSliceCore<W>>() {}
fn seq<T: IndexedSeq + Types>() {}
fn dict<T: Types<Input = usize, Output = usize> + IndexedDict + Succ + Pred + SuccUnchecked + PredUnchecked + IndexedSeq>() {}
fn as_words<T: AsRef<[usize]>>() {}
fn indexable<T: core::ops::Index<usize, Output = bool>>() {}

type BV = BitVec<Vec<usize>>;
type BB = BitVec<Box<[usize]>>;

pub fn w_bit_vec<'a>() {
    bits::<BV>();
    bits::<Eps<'a, BV>>();
    bits::<BB>();
    bits::<Eps<'a, BB>>();
    hinted::<BV>();
    hinted::<Eps<'a, BV>>();
    as_words::<BV>();
    as_words::<Eps<'a, BV>>();
}

pub fn w_bit_field_vec<'a>() {
    field_slice::<usize, BitFieldVec<usize, Vec<usize>>>();
    field_slice::<usize, Eps<'a, BitFieldVec<usize, Vec<usize>>>>();
    field_slice::<u32, BitFieldVec<u32, Box<[u32]>>>();
    field_slice::<u32, Eps<'a, BitFieldVec<u32, Box<[u32]>>>>();
    field_slice::<u8, Eps<'a, BitFieldVec<u8, Vec<u8>>>>();
}

pub fn w_rank9<'a>() {
    rank::<Rank9<BV>>();
    rank::<Eps<'a, Rank9<BV>>>();
    rank::<Rank9<BB>>();
    rank::<Eps<'a, Rank9<BB>>>();
    hinted::<Rank9<BV>>();
    hinted::<Eps<'a, Rank9<BV>>>();
}

pub fn w_rank_small<'a>() {
    rank::<RankSmall<2, 9, BV>>();
    rank::<Eps<'a, RankSmall<2, 9, BV>>>();
    rank::<RankSmall<1, 9, BV>>();
    rank::<Eps<'a, RankSmall<1, 9, BV>>>();
    rank::<RankSmall<1, 10, BV>>();
    rank::<Eps<'a, RankSmall<1, 10, BV>>>();
    rank::<RankSmall<1, 11, BV>>();
    rank::<Eps<'a, RankSmall<1, 11, BV>>>();
    rank::<RankSmall<3, 13, BV>>();
    rank::<Eps<'a, RankSmall<3, 13, BV>>>();
}

pub fn w_select_adapt<'a>() {
    select::<SelectAdapt<AddNumBits<BV>>>();
    select::<Eps<'a, SelectAdapt<AddNumBits<BV>>>>();
    select::<SelectAdapt<Rank9<BV>>>();
    select::<Eps<'a, SelectAdapt<Rank9<BV>>>>();
    rank::<SelectAdapt<Rank9<BV>>>();
    rank::<Eps<'a, SelectAdapt<Rank9<BV>>>>();
    select_zero::<SelectZeroAdapt<AddNumBits<BV>>>();
    select_zero::<Eps<'a, SelectZeroAdapt<AddNumBits<BV>>>>();
    select_zero::<SelectZeroAdapt<SelectAdapt<Rank9<BV>>>>();
    select_zero::<Eps<'a, SelectZeroAdapt<SelectAdapt<Rank9<BV>>>>>();
    select::<SelectZeroAdapt<SelectAdapt<Rank9<BV>>>>();
    select::<Eps<'a, SelectZeroAdapt<SelectAdapt<Rank9<BV>>>>>();
    rank::<SelectZeroAdapt<SelectAdapt<Rank9<BV>>>>();
    rank::<Eps<'a, SelectZeroAdapt<SelectAdapt<Rank9<BV>>>>>();
}

pub fn w_select_adapt_const<'a>() {
    select::<SelectAdaptConst<AddNumBits<BV>>>();
    select::<Eps<'a, SelectAdaptConst<AddNumBits<BV>>>>();
    select::<SelectAdaptConst<AddNumBits<BB>, Box<[usize]>, 12, 3>>();
    select::<Eps<'a, SelectAdaptConst<AddNumBits<BB>, Box<[usize]>, 12, 3>>>();
    select_zero::<SelectZeroAdaptConst<AddNumBits<BV>>>();
    select_zero::<Eps<'a, SelectZeroAdaptConst<AddNumBits<BV>>>>();
    select_zero::<SelectZeroAdaptConst<SelectAdaptConst<AddNumBits<BB>, Box<[usize]>, 12, 3>, Box<[usize]>, 12, 3>>();
    select_zero::<Eps<'a, SelectZeroAdaptConst<SelectAdaptConst<AddNumBits<BB>, Box<[usize]>, 12, 3>, Box<[usize]>, 12, 3>>>();
    select::<SelectZeroAdaptConst<SelectAdaptConst<AddNumBits<BB>, Box<[usize]>, 12, 3>, Box<[usize]>, 12, 3>>();
    select::<Eps<'a, SelectZeroAdaptConst<SelectAdaptConst<AddNumBits<BB>, Box<[usize]>, 12, 3>, Box<[usize]>, 12, 3>>>();
}

pub fn w_select9<'a>() {
    select::<Select9<Rank9<BV>>>();
    select::<Eps<'a, Select9<Rank9<BV>>>>();
    rank::<Select9<Rank9<BV>>>();
    rank::<Eps<'a, Select9<Rank9<BV>>>>();
}

pub fn w_select_small<'a>() {
    select::<SelectSmall<2, 9, RankSmall<2, 9, BV>>>();
    select::<Eps<'a, SelectSmall<2, 9, RankSmall<2, 9, BV>>>>();
    rank::<SelectSmall<2, 9, RankSmall<2, 9, BV>>>();
    rank::<Eps<'a, SelectSmall<2, 9, RankSmall<2, 9, BV>>>>();
    select_zero::<SelectZeroSmall<2, 9, RankSmall<2, 9, BV>>>();
    select_zero::<Eps<'a, SelectZeroSmall<2, 9, RankSmall<2, 9, BV>>>>();
    select::<SelectSmall<1, 11, RankSmall<1, 11, BV>>>();
    select::<Eps<'a, SelectSmall<1, 11, RankSmall<1, 11, BV>>>>();
    select_zero::<SelectZeroSmall<3, 13, RankSmall<3, 13, BV>>>();
    select_zero::<Eps<'a, SelectZeroSmall<3, 13, RankSmall<3, 13, BV>>>>();
}

pub fn w_elias_fano<'a>() {
    seq::<EfSeq>();
    seq::<Eps<'a, EfSeq>>();
    fn su<T: Types<Input = usize, Output = usize> + SuccUnchecked + PredUnchecked>() {}
    su::<EfDict>();
    su::<Eps<'a, EfDict>>();
    dict::<EfSeqDict>();
    dict::<Eps<'a, EfSeqDict>>();
    seq::<EfSeqDict>();
    seq::<Eps<'a, EfSeqDict>>();
}

pub fn w_rear_coded_list<'a>() {
    seq::<RearCodedList>();
    seq::<Eps<'a, RearCodedList>>();
    fn d<T: IndexedDict>() {}
    d::<RearCodedList>();
    d::<Eps<'a, RearCodedList>>();
}

use sux::func::shard_edge::{FuseLge3FullSigs, FuseLge3NoShards, FuseLge3Shards};
use sux::func::VFunc;

/// Static functions and filters have inherent query methods: the witnesses call them on the
/// zero-copy image of each backend / signature / shard-edge combination.
pub fn w_vfunc<'a>(
    a: &Eps<'a, VFunc<usize, usize, Box<[usize]>>>,
    b: &Eps<'a, VFunc<usize, usize, BitFieldVec<usize>>>,
    c: &Eps<'a, VFunc<str, u8, Box<[u8]>, [u64; 1], FuseLge3NoShards>>,
    d: &Eps<'a, VFunc<usize, usize, BitFieldVec<usize>, [u64; 2], FuseLge3FullSigs>>,
    e: &Eps<'a, VFunc<usize, u64, Box<[u64]>, [u64; 2], FuseLge3Shards>>,
) -> (usize, usize, u8, usize, u64) {
    let _: (usize, usize, usize) = (a.len(), b.len(), c.len());
    // the unaligned queries exist on every bit-field backend, loaded ones included
    let _: (usize, usize) = (b.get_unaligned(1usize), d.get_unaligned(2usize));
    (a.get(0usize), b.get(1usize), c.get("x"), d.get(2usize), e.get(3usize))
}

/// Functions and filters over the optional MWHC logics (feature `mwhc`).
pub fn w_vfunc_mwhc<'a>(
    a: &Eps<'a, VFunc<usize, usize, BitFieldVec<usize>, [u64; 2], Mwhc3Shards>>,
    b: &Eps<'a, VFunc<usize, u8, Box<[u8]>, [u64; 2], Mwhc3NoShards>>,
    c: &Eps<'a, VFilter<u8, VFunc<usize, u8, Box<[u8]>, [u64; 2], Mwhc3NoShards>>>,
    d: &Eps<'a, VFilter<usize, VFunc<str, usize, BitFieldVec<usize>, [u64; 2], Mwhc3Shards>>>,
) -> (usize, u8, bool, bool, usize) {
    (a.get(0usize), b.get(1usize), c.contains(2usize), d.contains("x"), a.len() + b.len() + c.len() + d.len())
}

pub fn w_vfilter<'a>(
    a: &Eps<'a, VFilter<u8, VFunc<usize, u8, Box<[u8]>>>>,
    b: &Eps<'a, VFilter<usize, VFunc<str, usize, BitFieldVec<usize>>>>,
    c: &Eps<'a, VFilter<u16, VFunc<usize, u16, Box<[u16]>, [u64; 1], FuseLge3NoShards>>>,
) -> (bool, bool, bool, usize) {
    let _: bool = b.contains_unaligned("x");
    (a.contains(0usize), b.contains("x"), c.contains(7usize), a.len() + b.len() + c.len())
}

/// Iteration over the loaded images.
pub fn w_iter<'a>(
    ef: &Eps<'a, EfSeq>,
    bfv: &Eps<'a, BitFieldVec<usize, Vec<usize>>>,
    bv: &Eps<'a, BV>,
) -> usize {
    let mut s = 0;
    for x in ef.iter() {
        s += x;
    }
    for x in bfv.into_iter() {
        s += x;
    }
    for x in bv.iter_ones() {
        s += x;
    }
    s += bv.count_ones() + bv.par_count_ones();
    s + ef.len() + ef.get(0)
}


/// `x[i]` on the loaded images of bit vectors and of everything that delegates `Index` to one.
pub fn w_index<'a>() {
    indexable::<BV>();
    indexable::<Eps<'a, BV>>();
    indexable::<Eps<'a, BB>>();
    indexable::<Eps<'a, Rank9<BV>>>();
    indexable::<Eps<'a, RankSmall<2, 9, BV>>>();
    indexable::<Eps<'a, Select9<Rank9<BV>>>>();
    indexable::<Eps<'a, SelectAdapt<Rank9<BV>>>>();
    indexable::<Eps<'a, SelectAdaptConst<AddNumBits<BV>>>>();
    indexable::<Eps<'a, SelectZeroAdapt<AddNumBits<BV>>>>();
    indexable::<Eps<'a, SelectSmall<2, 9, RankSmall<2, 9, BV>>>>();
    indexable::<Eps<'a, SelectZeroSmall<2, 9, RankSmall<2, 9, BV>>>>();
}

/// The inherent `len()` of the wrappers ("provided to reduce ambiguity in method resolution") must exist on the
/// loaded images too: with the traits of the prelude in scope a missing inherent method makes the call ambiguous
/// (or resolves it to another trait's `len`).
pub fn w_inherent_len<'a>(
    a: &Eps<'a, Rank9<BV>>,
    b: &Eps<'a, RankSmall<2, 9, BV>>,
    c: &Eps<'a, Select9<Rank9<BV>>>,
    d: &Eps<'a, SelectAdapt<Rank9<BV>>>,
    e: &Eps<'a, SelectAdaptConst<AddNumBits<BV>>>,
    f: &Eps<'a, SelectZeroAdapt<AddNumBits<BV>>>,
    g: &Eps<'a, SelectZeroAdaptConst<AddNumBits<BV>>>,
    h: &Eps<'a, SelectSmall<2, 9, RankSmall<2, 9, BV>>>,
    i: &Eps<'a, SelectZeroSmall<2, 9, RankSmall<2, 9, BV>>>,
    j: &Eps<'a, BV>,
    k: &Eps<'a, EfSeq>,
    l: &Eps<'a, RearCodedList>,
) -> usize {
    a.len() + b.len() + c.len() + d.len() + e.len() + f.len() + g.len() + h.len() + i.len() + j.len() + k.len() + l.len()
}
