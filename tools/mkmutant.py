#!/usr/bin/env python3
"""tools/mkmutant.py <name> <file under /repo> <old text> <new text> [occurrence index]
Records a one-site mutation of /repo's current sources as /verif/mutants/<name>.patch (unified diff,
applies with patch -p1). /repo is not modified."""
import difflib, os, sys
name, rel, old, new = sys.argv[1:5]
occ = int(sys.argv[5]) if len(sys.argv) > 5 else 0
src = open(os.path.join("/repo", rel)).read()
idx = -1
for _ in range(occ + 1):
    idx = src.index(old, idx + 1)
mut = src[:idx] + new + src[idx + len(old):]
d = difflib.unified_diff(src.splitlines(True), mut.splitlines(True), "a/" + rel, "b/" + rel)
open(os.path.join("/verif/mutants", name + ".patch"), "w").write("".join(d))
print("wrote", name)
