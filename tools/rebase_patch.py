#!/usr/bin/env python3
"""tools/rebase_patch.py <patch>...  Re-creates a recorded patch whose context no longer matches /repo
(after a fix: commit touched neighbouring lines): applies it with fuzz to a scratch copy of the files it
touches and writes the resulting unified diff back. Prints FAILED when even that does not apply (rebase by hand)."""
import os, re, subprocess, sys, tempfile, shutil
for patch in sys.argv[1:]:
    patch = os.path.abspath(patch)
    if subprocess.run(["git", "-C", "/repo", "apply", "--check", patch], capture_output=True).returncode == 0:
        print("ok (applies)", patch)
        continue
    files = sorted(set(re.findall(r"^\+\+\+ b/(\S+)", open(patch).read(), re.M)))
    d = tempfile.mkdtemp(prefix="rbp-")
    try:
        for side in ("a", "b"):
            for f in files:
                os.makedirs(os.path.dirname(os.path.join(d, side, f)), exist_ok=True)
                shutil.copy(os.path.join("/repo", f), os.path.join(d, side, f))
        r = subprocess.run(["patch", "-p1", "-s", "--fuzz=3", "--no-backup-if-mismatch", "-i", patch], cwd=os.path.join(d, "b"), capture_output=True, text=True)
        if r.returncode != 0:
            print("FAILED", patch, r.stdout[-300:])
            continue
        out = ""
        for f in files:
            out += subprocess.run(["diff", "-u", "a/" + f, "b/" + f], cwd=d, capture_output=True, text=True).stdout
        shutil.copy(patch, patch + ".orig") if not os.path.exists(patch + ".orig") and "/seeded/" in patch else None
        open(patch, "w").write(out)
        ok = subprocess.run(["git", "-C", "/repo", "apply", "--check", patch], capture_output=True).returncode == 0
        print("rebased" if ok else "REBASED-BUT-NOT-APPLYING", patch)
    finally:
        shutil.rmtree(d, ignore_errors=True)
