#!/usr/bin/env python3
"""tools/rename_locals.py <out.patch> <file under /repo>...

Builds a behaviour-preserving patch that renames `let`-bound locals (and closure/for bindings are left
alone) in the given files: every local `x` becomes `x_r`. Names that are also struct fields, appear in
struct-literal shorthand, or make the crate fail to compile are left alone (compile errors are parsed and
the offending names dropped, a few rounds). Used to grow the benign corpus: no check may react to it."""
import os, re, shutil, subprocess, sys, tempfile

argv = [a for a in sys.argv[1:] if not a.startswith("--")]
WIDE = "--wide" in sys.argv      # also parameters, pattern bindings and names that coincide with field names
out = argv[0]
files = argv[1:]
base = tempfile.mkdtemp(prefix="rnl-")
repo = os.path.join(base, "repo")
subprocess.check_call(["rsync", "-a", "--exclude", "target", "--exclude", ".git", "/repo/", repo + "/"])
KEYWORDS = {"self", "mut", "ref", "_", "Some", "None", "Ok", "Err"}


def candidates(src):
    names = set(re.findall(r"\blet\s+(?:mut\s+)?([a-z_][a-z0-9_]*)\s*(?::|=|;)", src))
    names -= KEYWORDS
    # not field names, not used as shorthand in struct literals / patterns, not macro metavariables
    fields = set(re.findall(r"\b([a-z_][a-z0-9_]*)\s*:", src)) | set(re.findall(r"\.([a-z_][a-z0-9_]*)\b", src))
    short = set()
    for m in re.finditer(r"\{([^{}]*)\}", src):
        for part in m.group(1).split(","):
            part = part.strip()
            if re.fullmatch(r"[a-z_][a-z0-9_]*", part):
                short.add(part)
    fmt = set(re.findall(r"\{([a-z_][a-z0-9_]*)(?::[^}]*)?\}", src))
    if WIDE:
        # parameters `name: Type` inside fn signatures, closure parameters, for/pattern bindings
        for sig in re.findall(r"\bfn\s+\w+\s*(?:<[^{;]*?>)?\s*\(([^{;]*?)\)\s*(?:->|where|\{|;)", src, re.S):
            names |= set(re.findall(r"(?:^|[,(]\s*)(?:mut\s+)?([a-z_][a-z0-9_]*)\s*:", sig))
        names |= set(re.findall(r"\bfor\s+([a-z_][a-z0-9_]*)\s+in\b", src))
        names |= set(re.findall(r"\b(?:Some|Ok|Err)\((?:mut\s+)?([a-z_][a-z0-9_]*)\)\s*(?:=>|=)", src))
        names |= set(re.findall(r"\|\s*([a-z_][a-z0-9_]*)\s*\|", src))
        names -= KEYWORDS
        return {n for n in names if n not in short and n not in fmt and len(n) > 1 and n not in ("self", "super", "crate")}
    return {n for n in names if n not in fields and n not in short and n not in fmt and len(n) > 1}


def rename(src, names):
    for n in sorted(names, key=len, reverse=True):
        if WIDE:
            # not a field access / method (`.name`), not a field initialiser or struct-pattern key (`name:` but not `name::`)
            src = re.sub(r"(?<![A-Za-z0-9_$])(?<!(?<!\.)\.)%s(?![A-Za-z0-9_!(])(?!\s*:(?!:))" % re.escape(n), n + "_r", src)
            # parameters are `name: Type` inside signatures: rename those declarations too
            src = re.sub(r"(?<=[(,])(\s*(?:mut\s+)?)%s(\s*:(?!:))" % re.escape(n), r"\1%s_r\2" % n, src)
        else:
            src = re.sub(r"(?<![A-Za-z0-9_$])(?<!(?<!\.)\.)%s(?![A-Za-z0-9_!(])" % re.escape(n), n + "_r", src)
    return src


orig = {f: open(os.path.join("/repo", f)).read() for f in files}
names = {f: candidates(orig[f]) for f in files}
env = dict(os.environ, CARGO_TARGET_DIR=os.path.join(base, "target"), CARGO_NET_OFFLINE="true", RUSTFLAGS="--cap-lints allow")
for rnd in range(8):
    for f in files:
        open(os.path.join(repo, f), "w").write(rename(orig[f], names[f]))
    r = subprocess.run(["cargo", "check", "--offline", "--lib", "--message-format", "short"], cwd=repo, env=env, stdout=subprocess.PIPE, stderr=subprocess.STDOUT, text=True)
    if r.returncode == 0:
        break
    bad = set(re.findall(r"`([a-z_][a-z0-9_]*?)_r`", r.stdout)) | set(re.findall(r"`([a-z_][a-z0-9_]*)`", r.stdout))
    lines = set((m.group(1), int(m.group(2))) for m in re.finditer(r"(src/[\w/]+\.rs):(\d+):\d+: error", r.stdout))
    for f, ln in lines:
        if f in orig:
            txt = open(os.path.join(repo, f)).read().splitlines()[ln - 1]
            bad |= set(x[:-2] for x in re.findall(r"\b([a-z_][a-z0-9_]*_r)\b", txt))
    before = sum(len(v) for v in names.values())
    for f in files:
        names[f] -= bad
    if sum(len(v) for v in names.values()) == before:
        print("cannot make it compile; last errors:\n" + "\n".join(l for l in r.stdout.splitlines() if "error" in l)[:1500])
        shutil.rmtree(base, ignore_errors=True)
        sys.exit(1)
else:
    print("gave up")
    shutil.rmtree(base, ignore_errors=True)
    sys.exit(1)
import difflib
patch = ""
for f in files:
    new = open(os.path.join(repo, f)).read()
    patch += "".join(difflib.unified_diff(orig[f].splitlines(True), new.splitlines(True), "a/" + f, "b/" + f))
open(out, "w").write(patch)
print("renamed", {f: len(v) for f, v in names.items()}, "->", out)
shutil.rmtree(base, ignore_errors=True)
