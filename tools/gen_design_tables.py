#!/usr/bin/env python3
"""Regenerates the generated sections of DESIGN.md (between the GENERATED markers): the as-built rule
inventory (from the rule registry) and the table of seeded/recorded changes with the checks that
report them (from seeded/*/meta.json and mutants/index.json)."""
import json, os, sys, importlib, re
VERIF = os.path.dirname(os.path.dirname(os.path.abspath(__file__)))
sys.path.insert(0, os.path.join(VERIF, "rules"))
import framework
for f in sorted(os.listdir(os.path.join(VERIF, "rules"))):
    if f.startswith("r_") and f.endswith(".py"):
        importlib.import_module(f[:-3])
rules = framework.RULES
files = {}
for f in sorted(os.listdir(os.path.join(VERIF, "rules"))):
    if f.startswith("r_") and f.endswith(".py"):
        for m in re.finditer(r'@rule\("([^"]+)"', open(os.path.join(VERIF, "rules", f)).read()):
            files[m.group(1)] = f
out = []
out.append("| rule | file | properties | floor | what it decides |")
out.append("|---|---|---|---|---|")
def keyf(r):
    m = re.match(r"R(\d+)\.(\d+)", r)
    return (int(m.group(1)), int(m.group(2)))
for rid in sorted(rules, key=keyf):
    rd = rules[rid]
    out.append("| %s | %s | %s | %d | %s |" % (rid, files.get(rid, "?"), " ".join(rd.props), rd.floor, rd.title.replace("|", "/")))
inv = "\n".join(out)

idx = json.load(open(os.path.join(VERIF, "mutants", "index.json")))["mutants"] if os.path.exists(os.path.join(VERIF, "mutants", "index.json")) else {}
rows = ["| change | property it breaks | what it needs to manifest | reported by the checks of | rounds 2-5: reported at first contact (before any follow-up) |", "|---|---|---|---|---|"]
fc = {}
for rnd in ("round2_first_contact.json", "round3_first_contact.json", "round4_first_contact.json", "round5_first_contact.json"):
    if os.path.exists(os.path.join(VERIF, "seeded", rnd)):
        fc.update({k: v for k, v in json.load(open(os.path.join(VERIF, "seeded", rnd))).items() if not k.startswith("_")})
sd = os.path.join(VERIF, "seeded")
for d in sorted(os.listdir(sd)) if os.path.isdir(sd) else []:
    mp = os.path.join(sd, d, "meta.json")
    if not os.path.exists(mp):
        continue
    m = json.load(open(mp))
    det = idx.get("seeded/%s/patch.diff" % d, {}).get("detected_by", m.get("detected_by_checks") or [])
    summ = (m.get("summary") or "").replace("|", "/").replace("\n", " ")
    needs = (m.get("needs") or "").replace("|", "/").replace("\n", " ")
    f = fc.get(d)
    first = "—" if f is None else ((" ".join(f["first"]) if f["first"] else "**none**") + ("; follow-up: " + f["follow_up"].replace("|", "/") if f.get("follow_up") else ""))
    rows.append("| seeded/%s: %s | %s | %s | %s | %s |" % (d, summ[:220] + ("…" if len(summ) > 220 else ""), m.get("property"), needs[:200] + ("…" if len(needs) > 200 else ""), " ".join(det) if det else "**none**", first))
for k, v in sorted(idx.items()):
    if k.startswith("mutants/"):
        rows.append("| %s | (own mutation / revert of a fix) | — | %s | — |" % (k, " ".join(v["detected_by"]) if v["detected_by"] else "**none**"))
seeded = "\n".join(rows)

p = os.path.join(VERIF, "DESIGN.md")
s = open(p).read()
for tag, body in (("RULES", inv), ("SEEDED", seeded)):
    a, b = "<!-- GENERATED:%s:BEGIN -->" % tag, "<!-- GENERATED:%s:END -->" % tag
    if a in s and b in s:
        s = s[:s.index(a) + len(a)] + "\n" + body + "\n" + s[s.index(b):]
open(p, "w").write(s)
print(len(rules), "rules;", len(rows) - 2, "changes")
