#!/bin/bash
# records behaviour-preserving edits of /repo as /verif/benign/*.patch (same tool as mkmutant, other directory)
set -e
mk() { python3 - "$@" <<'PY'
import difflib, os, sys
name, rel = sys.argv[1], sys.argv[2]
pairs = sys.argv[3:]
src = open(os.path.join("/repo", rel)).read()
mut = src
for i in range(0, len(pairs), 2):
    assert pairs[i] in mut, (name, pairs[i])
    mut = mut.replace(pairs[i], pairs[i+1])
d = difflib.unified_diff(src.splitlines(True), mut.splitlines(True), "a/" + rel, "b/" + rel)
open(os.path.join("/verif/benign", name + ".patch"), "w").write("".join(d))
print("wrote", name)
PY
}
mk rank-swap-branches src/traits/rank_sel.rs "        if pos >= self.len() {
            self.num_ones()
        } else {
            unsafe { self.rank_unchecked(pos) }
        }" "        if pos < self.len() {
            unsafe { self.rank_unchecked(pos) }
        } else {
            self.num_ones()
        }"
mk select-early-return src/traits/rank_sel.rs "        if rank >= self.num_ones() {
            None
        } else {
            Some(unsafe { self.select_unchecked(rank) })
        }" "        if rank >= self.num_ones() {
            return None;
        }
        Some(unsafe { self.select_unchecked(rank) })"
mk parsolve-rename-locals src/func/vbuilder.rs "err_send" "error_tx" "err_recv" "error_rx" "data_send" "data_tx" "data_recv" "data_rx"
mk tryseed-rename-locals src/func/vbuilder.rs "let shard_store = " "let sharded = " "shard_store.shard_sizes()" "sharded.shard_sizes()" "shard_store.into_iter()" "sharded.into_iter()" "maybe_max_value" "max_seen"
mk efpush-merge-guards src/dict/elias_fano.rs "        if self.count == self.n {
            panic!(\"Too many values\");
        }
        if value > self.u {
            panic!(\"Value too large: {} > {}\", value, self.u);
        }" "        if self.count == self.n || value > self.u {
            panic!(\"Too many values or value too large: {} > {}\", value, self.u);
        }"
mk eq-extract-local src/bits/bit_vec.rs "        residual == 0
            || (self.as_ref()[full_words] ^ other.as_ref()[full_words]) << (BITS - residual) == 0" "        if residual == 0 {
            return true;
        }
        let shift = BITS - residual;
        let diff = self.as_ref()[full_words] ^ other.as_ref()[full_words];
        diff << shift == 0"
mk bitfield-resize-flip-cond src/bits/bit_field_vec.rs "        if new_len > self.len {
            let new_bit_len = bit_len(new_len, self.bit_width);" "        if self.len < new_len {
            let new_bit_len = bit_len(new_len, self.bit_width);"
mk rcl-rename-locals src/dict/rear_coded_list.rs "let (lcp, order) = longest_common_prefix" "let (common, order) = longest_common_prefix" "let rear_length = self.last_str.len() - lcp;" "let rear_length = self.last_str.len() - common;" "&string.as_bytes()[lcp..]" "&string.as_bytes()[common..]" "self.stats.max_lcp.max(lcp)" "self.stats.max_lcp.max(common)" "self.stats.sum_lcp += lcp;" "self.stats.sum_lcp += common;" "self.stats.redundancy += lcp as isize;" "self.stats.redundancy += common as isize;"
mk lenders-seek-rewind src/utils/lenders.rs "self.buf.seek(io::SeekFrom::Start(0)).map(|_| ())?;" "self.buf.rewind()?;"
mk atomic-set-reorder src/bits/bit_field_vec.rs "                let mut new = current;
                new &= !(self.mask << bit_index);
                new |= value << bit_index;" "                let cleared = current & !(self.mask << bit_index);
                let new = cleared | (value << bit_index);"
mk efbuilder-l-let src/dict/elias_fano.rs "            high_bits: BitVec::new(n + (u >> l) + 1)," "            high_bits: BitVec::new(1 + n + (u >> l)),"
mk buildloop-match-to-iflet src/func/vbuilder.rs "                            SolveError::UnsolvableShard => {
                                pl.warn(format_args!(
                                    \"Unsolvable shard, trying again with a different seed...\"
                                ));
                            }" "                            SolveError::UnsolvableShard => {
                                pl.warn(format_args!(
                                    \"Unsolvable shard; trying again with a different seed...\"
                                ));
                            }"
mk fill-other-mask-idiom src/bits/bit_vec.rs "        let word_value = if value { !0 } else { 0 };
        bits[..full_words].iter_mut().for_each(|x| *x = word_value);
        if residual != 0 {
            let mask = (1 << residual) - 1;" "        let word_value = if value { !0 } else { 0 };
        bits[..full_words].iter_mut().for_each(|x| *x = word_value);
        if residual != 0 {
            let mask = usize::MAX >> (BITS - residual);"
mk apply-len-eq-zero src/bits/bit_field_vec.rs "        if self.is_empty() {
            return;
        }
        let bit_width = self.bit_width();
        if bit_width == 0 {
            // There is nothing to store" "        let bit_width = self.bit_width();
        if self.len() == 0 || bit_width == 0 {
            // There is nothing to store"
mk iter-explicit-full-width src/bits/bit_field_vec.rs "            let res = self.window & self.vec.mask;
            // bit_width might be W::BITS
            self.window = self.window.checked_shr(bit_width as u32).unwrap_or(W::ZERO);
            return res;" "            let res = self.window & self.vec.mask;
            if bit_width != W::BITS {
                self.window >>= bit_width;
            } else {
                self.window = W::ZERO;
            }
            return res;"
mk copy-rename-residual src/bits/bit_field_vec.rs "            let residual =
                bit_len - (W::BITS - src_bit) - (dst_last_word - dst_first_word - 1) * W::BITS;
            let mask = W::MAX >> (W::BITS - residual);" "            let rest = bit_len - (dst_last_word - dst_first_word - 1) * W::BITS - (W::BITS - src_bit);
            let mask = W::MAX >> (W::BITS - rest);"
mk echelon-break-inner src/utils/mod2_sys.rs "                        continue 'main;" "                        break;"
mk gauss-for-loop src/utils/mod2_sys.rs "        self.equations
            .iter()
            .rev()
            .filter(|eq| !eq.is_identity())
            .for_each(|eq| {
                solution[eq.vars[0] as usize] =
                    eq.c ^ Modulo2Equation::<W>::eval_vars(&eq.vars, &solution);
            });" "        for eq in self.equations.iter().rev() {
            if eq.is_identity() {
                continue;
            }
            solution[eq.vars[0] as usize] =
                eq.c ^ Modulo2Equation::<W>::eval_vars(&eq.vars, &solution);
        }"
mk addptr-ne src/utils/mod2_sys.rs "dst = dst.add((less ^ more) as usize);" "dst = dst.add((less != more) as usize);"
mk rank-negated-test src/traits/rank_sel.rs "        if pos >= self.len() {
            self.num_ones()
        } else {
            unsafe { self.rank_unchecked(pos) }
        }" "        let n = self.len();
        if !(pos < n) {
            return self.num_ones();
        }
        unsafe { self.rank_unchecked(pos) }"
mk oob-macro-assert src/traits/bit_field_slice.rs "        if \$index >= \$len {
            panic!(\"Index out of bounds: {} >= {}\", \$index, \$len)
        }" "        assert!(\$index < \$len, \"Index out of bounds: {} >= {}\", \$index, \$len);"
mk succ-split-guards src/traits/indexed_dict.rs "        if self.is_empty() || *value.borrow() > self.get(self.len() - 1) {
            None
        } else {
            Some(unsafe { self.succ_unchecked::<false>(value) })
        }" "        if self.is_empty() {
            return None;
        }
        let last = self.get(self.len() - 1);
        if *value.borrow() > last {
            return None;
        }
        Some(unsafe { self.succ_unchecked::<false>(value) })"
mk bitvec-resize-while src/bits/bit_vec.rs "            for i in self.len..new_len {
                unsafe {
                    self.set_unchecked(i, value);
                }
            }" "            let mut i = self.len;
            while i < new_len {
                unsafe {
                    self.set_unchecked(i, value);
                }
                i += 1;
            }"
mk fill-extract-helper src/bits/bit_vec.rs "    /// Sets all bits to the given value.
    pub fn fill(&mut self, value: bool) {
        let full_words = self.len() / BITS;
        let residual = self.len % BITS;" "    /// Number of full words and of bits in the last, partial word.
    #[inline(always)]
    fn words_and_residual(&self) -> (usize, usize) {
        (self.len / BITS, self.len % BITS)
    }

    /// Sets all bits to the given value.
    pub fn fill(&mut self, value: bool) {
        let (full_words, residual) = self.words_and_residual();"
mk indexof-flip-compare src/dict/elias_fano.rs "        if value > self.u {
            return None;
        }" "        if self.u < value {
            return None;
        }"
mk select9-min-as-if src/rank_sel/select9.rs "                let end_word_idx = end_bit_idx.div_ceil(u64::BITS as usize).min(num_words);" "                let end_word_idx = std::cmp::min(num_words, end_bit_idx.div_ceil(u64::BITS as usize));"
mk efbuild-assert-eq src/dict/elias_fano.rs "        assert!(
            self.count == self.n,
            \"Only {} values out of {} have been pushed\",
            self.count,
            self.n
        );" "        if self.count != self.n {
            panic!(
                \"Only {} values out of {} have been pushed\",
                self.count, self.n
            );
        }"
mk atomicfill-match-value src/bits/bit_vec.rs "            if value {
                bits[full_words].fetch_or(mask, ordering);
            } else {
                bits[full_words].fetch_and(!mask, ordering);
            }" "            match value {
                true => bits[full_words].fetch_or(mask, ordering),
                false => bits[full_words].fetch_and(!mask, ordering),
            };"
mk setatomic-value-le-mask src/bits/bit_field_vec.rs "        panic_if_out_of_bounds!(index, self.len);
        panic_if_value!(value, self.mask, self.bit_width);
        unsafe {
            self.set_atomic_unchecked(index, value, order);" "        panic_if_out_of_bounds!(index, self.len);
        if value > self.mask {
            panic!(\"Value {} does not fit in {} bits\", value, self.bit_width);
        }
        unsafe {
            self.set_atomic_unchecked(index, value, order);"
mk apply-zero-width-while src/bits/bit_field_vec.rs "            for _ in 0..self.len() {
                f(W::ZERO);
            }" "            let mut left = self.len();
            while left != 0 {
                f(W::ZERO);
                left -= 1;
            }"
mk mwhc-max-one-std src/func/shard_edge.rs "            self.seg_size = (((n as f64 * 1.23) / 3.).ceil() as usize).max(1);" "            self.seg_size = std::cmp::max(1, ((n as f64 * 1.23) / 3.).ceil() as usize);"
mk assign-rename-side src/func/vbuilder.rs "            let side = side as usize;
            unsafe {
                let xor = match side {" "            let which = side as usize;
            unsafe {
                let xor = match which {" "                data.set_unchecked(edge[side], val ^ xor);" "                data.set_unchecked(edge[which], val ^ xor);"
mk buildloop-rename-func src/func/vbuilder.rs "                Ok(func) => {
                    return Ok(func);
                }" "                Ok(built) => {
                    return Ok(built);
                }"
mk rank9-rename-counts src/rank_sel/rank9.rs "        let mut counts = Vec::with_capacity(num_counts + 1);" "        let mut block_counts = Vec::with_capacity(num_counts + 1);" "            counts.push(count);" "            block_counts.push(count);" "        counts.push(BlockCounters {" "        block_counts.push(BlockCounters {" "            counts: counts.into()," "            counts: block_counts.into(),"
mk rank-hinted-for-loop src/bits/bit_vec.rs "        while (hint_pos + 1) * 64 <= pos {
            rank += bits.get_unchecked(hint_pos).count_ones() as usize;
            hint_pos += 1;
        }

        rank + (bits.get_unchecked(hint_pos) & ((1 << (pos % 64)) - 1)).count_ones() as usize" "        let word_pos = pos / 64;
        for w in hint_pos..word_pos {
            rank += bits.get_unchecked(w).count_ones() as usize;
        }
        hint_pos = hint_pos.max(word_pos);

        rank + (bits.get_unchecked(hint_pos) & ((1 << (pos % 64)) - 1)).count_ones() as usize"
mk pop-last-local src/bits/bit_vec.rs "        self.len -= 1;
        let word_index = self.len / BITS;
        let bit_index = self.len % BITS;
        Some((self.bits[word_index] >> bit_index) & 1 != 0)" "        let last = self.len - 1;
        let word_index = last / BITS;
        let bit_index = last % BITS;
        self.len = last;
        Some((self.bits[word_index] >> bit_index) & 1 != 0)"
mk extend-for-each src/bits/bit_vec.rs "        for b in i {
            self.push(b);
        }" "        i.into_iter().for_each(|b| self.push(b));"
mk lcp-wordwise-be src/dict/rear_coded_list.rs "    // normal lcp computation
    let mut i = 0;
    while i < min_len && a[i] == b[i] {" "    let mut i = 0;
    // compare eight bytes at a time (big endian: the word order is the byte order)
    while i + 8 <= min_len {
        let x = u64::from_be_bytes(a[i..i + 8].try_into().unwrap());
        let y = u64::from_be_bytes(b[i..i + 8].try_into().unwrap());
        if x != y {
            let lcp = i + ((x ^ y).leading_zeros() / 8) as usize;
            return (lcp, x.cmp(&y));
        }
        i += 8;
    }
    while i < min_len && a[i] == b[i] {"
mk bfv-eq-hoist-backends src/bits/bit_field_vec.rs "        let bit_len = self.len() * self.bit_width();
        if self.bits.as_ref()[..bit_len / W::BITS] != other.bits.as_ref()[..bit_len / W::BITS] {
            return false;
        }" "        let (bits, other_bits) = (self.bits.as_ref(), other.bits.as_ref());
        let bit_len = self.len() * self.bit_width();
        if bits[..bit_len / W::BITS] != other_bits[..bit_len / W::BITS] {
            return false;
        }"
mk bitvec-resize-words-test src/bits/bit_vec.rs "            if new_len > self.bits.len() * BITS {
                self.bits.resize(new_len.div_ceil(BITS), 0);
            }" "            let words = new_len.div_ceil(BITS);
            if words > self.bits.len() {
                self.bits.resize(words, 0);
            }"
mk efbuilder-l-explicit-empty src/dict/elias_fano.rs "    pub fn new(n: usize, u: usize) -> Self {
        let l = if u >= n && u > 0 {
            (u / n.max(1)).ilog2() as usize
        } else {
            0
        };

        Self {
            n,
            u,
            l,
            low_bits: BitFieldVec::new(l, n)," "    pub fn new(n: usize, u: usize) -> Self {
        let l = if u == 0 || u < n {
            0
        } else if n == 0 {
            u.ilog2() as usize
        } else {
            (u / n).ilog2() as usize
        };

        Self {
            n,
            u,
            l,
            low_bits: BitFieldVec::new(l, n),"
mk countones-u128-pairs src/bits/bit_vec.rs "        let mut num_ones = bits[..full_words]
            .iter()
            .map(|x| x.count_ones() as usize)
            .sum();
        if residual != 0 {
            num_ones += (self.as_ref()[full_words] << (BITS - residual)).count_ones() as usize
        }
        num_ones
    }
}

impl<B: AsRef<[usize]>> Index<usize> for BitVec<B> {" "        // two words at a time where the alignment allows it
        let (pre, pairs, post) = unsafe { bits[..full_words].align_to::<u128>() };
        let mut num_ones: usize = pre.iter().map(|x| x.count_ones() as usize).sum();
        num_ones += pairs.iter().map(|x| x.count_ones() as usize).sum::<usize>();
        num_ones += post.iter().map(|x| x.count_ones() as usize).sum::<usize>();
        if residual != 0 {
            num_ones += (self.as_ref()[full_words] << (BITS - residual)).count_ones() as usize
        }
        num_ones
    }
}

impl<B: AsRef<[usize]>> Index<usize> for BitVec<B> {"
