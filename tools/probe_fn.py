#!/usr/bin/env python3
"""tools/probe_fn.py <src> <regex of function path> [node kind]: prints the (normalised) AST nodes of a function"""
import sys, json, os, re
sys.path.insert(0, '/verif/rules')
import extract, ir
src, pat = sys.argv[1], sys.argv[2]
kind = sys.argv[3] if len(sys.argv) > 3 else None
p, inf = extract.get_facts("default", src_root=src)
F = ir.Facts(p)
for b in F.bodies:
    if re.search(pat, b.path):
        print("==", b.path)
        if kind is None:
            print(json.dumps(b.body, indent=1)[:20000])
        else:
            from astnorm import _walk
            for x in _walk(b.body):
                if x.get("k") == kind:
                    print(json.dumps(x, indent=1)[:6000])
