#!/usr/bin/env python3
"""tools/confirm_seeded.py [-j N] <mutant dir>...

Confirms seeded changes independently, each in a scratch git worktree of /repo outside /repo and
/verif: (1) the demonstration passes on the unmodified tree, (2) the patch applies and the library
builds, (3) the demonstration fails with the patch, (4) the repository's whole test suite still
passes with the patch. Appends one JSON line per mutant to /tmp/cf/results.jsonl and removes the
worktree. Worker k reuses the build directory /tmp/cf/target-k (removed at the end)."""
import json, os, shutil, subprocess, sys, time
from concurrent.futures import ThreadPoolExecutor
import threading

lock = threading.Lock()

def sh(cmd, cwd, env=None, timeout=3000):
    r = subprocess.run(cmd, cwd=cwd, env=env, stdout=subprocess.PIPE, stderr=subprocess.STDOUT, text=True, shell=isinstance(cmd, str), timeout=timeout)
    return r.returncode, r.stdout

def confirm(k, d):
    name = d.rstrip("/").replace("/tmp/mut4/", "r4-").replace("/tmp/mut5/", "r5-").replace("/tmp/mut3/", "r3-").replace("/tmp/mut2/", "r2-").replace("/tmp/mut/", "").replace("/", "-")
    wt = "/tmp/cf/wt-%s" % name
    res = {"mutant": d, "name": name}
    env = dict(os.environ, CARGO_TARGET_DIR="/tmp/cf/target-%d" % k, CARGO_NET_OFFLINE="true")
    try:
        meta = json.load(open(os.path.join(d, "meta.json")))
        demo_path = meta["demo_path"]
        demo_file = [f for f in os.listdir(d) if f.startswith("demo") and f.endswith(".rs")][0]
        test_name = os.path.basename(demo_path)[:-3]
        import re as _re
        mfe = _re.search(r"--features[ =](\S+)", meta.get("demo_cmd", ""))
        feat = ["--features", mfe.group(1)] if mfe else []
        if "--release" in meta.get("demo_cmd", ""):
            feat = ["--release"] + feat
        subprocess.run(["git", "-C", "/repo", "worktree", "remove", "--force", wt], stdout=subprocess.DEVNULL, stderr=subprocess.DEVNULL)
        rc, out = sh(["git", "-C", "/repo", "worktree", "add", "-q", "--detach", wt, "HEAD"], "/")
        if rc != 0:
            res["error"] = "worktree: " + out[-300:]
            return res
        shutil.copy(os.path.join(d, demo_file), os.path.join(wt, demo_path))
        t0 = time.time()
        rc, out = sh(["cargo", "test", "--offline"] + feat + ["--test", test_name], wt, env)
        res["demo_passes_without_patch"] = rc == 0
        res["demo_clean_tail"] = out[-400:] if rc != 0 else ""
        rc, out = sh(["git", "apply", "--3way", os.path.join(d, "patch.diff")], wt)
        if rc != 0:
            rc, out = sh("patch -p1 -s --no-backup-if-mismatch -i %s" % os.path.join(d, "patch.diff"), wt)
        res["patch_applies"] = rc == 0
        if rc != 0:
            res["error"] = "patch: " + out[-300:]
            return res
        rc, out = sh(["cargo", "test", "--offline"] + feat + ["--test", test_name], wt, env)
        res["demo_fails_with_patch"] = rc != 0
        fail_lines = [l for l in out.splitlines() if "panicked" in l or "assertion" in l or "FAILED" in l or "error" in l.lower()][:4]
        res["demo_failure"] = " | ".join(fail_lines)[:500]
        os.remove(os.path.join(wt, demo_path))
        rc, out = sh(["cargo", "test", "--workspace", "--no-fail-fast", "--offline"], wt, env, timeout=3600)
        res["suite_passes_with_patch"] = rc == 0
        res["suite_ok_lines"] = out.count("... ok")
        if rc != 0:
            res["suite_tail"] = "\n".join(l for l in out.splitlines() if "FAILED" in l or "failed" in l)[:600]
        res["wall_s"] = round(time.time() - t0)
        return res
    except Exception as e:
        res["error"] = repr(e)[:300]
        return res
    finally:
        subprocess.run(["git", "-C", "/repo", "worktree", "remove", "--force", wt], stdout=subprocess.DEVNULL, stderr=subprocess.DEVNULL)
        shutil.rmtree(wt, ignore_errors=True)
        with lock:
            with open("/tmp/cf/results.jsonl", "a") as f:
                f.write(json.dumps(res) + "\n")

def main():
    args = sys.argv[1:]
    j = 4
    if args and args[0] == "-j":
        j = int(args[1]); args = args[2:]
    os.makedirs("/tmp/cf", exist_ok=True)
    queues = [[] for _ in range(j)]
    for i, d in enumerate(args):
        queues[i % j].append(d)
    def worker(k):
        for d in queues[k]:
            r = confirm(k, d)
            print(json.dumps({x: r.get(x) for x in ("name", "demo_passes_without_patch", "demo_fails_with_patch", "suite_passes_with_patch", "error")}), flush=True)
        shutil.rmtree("/tmp/cf/target-%d" % k, ignore_errors=True)
    with ThreadPoolExecutor(max_workers=j) as ex:
        list(ex.map(worker, range(j)))

if __name__ == "__main__":
    main()
