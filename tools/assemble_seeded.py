#!/usr/bin/env python3
"""Copies confirmed seeded changes from /tmp/mut into /verif/seeded/<id>-<k>/ (patch.diff, demo, meta.json)
and records what was run to confirm them and which checks detect them (from tools/mutant.py output)."""
import json, os, re, shutil, sys
res = {}
for f in ("/tmp/cf/results.jsonl",):
    if os.path.exists(f):
        for l in open(f):
            d = json.loads(l)
            res[d["name"]] = d
det = {}
ONLY = os.environ.get("ONLY", "")
for f in sys.argv[1:]:
    for l in open(f):
        m = re.match(r"/tmp/mut([2345]?)/(C\d+)/(\d)/patch.diff: OK detected_by=(\S+)", l)
        if m:
            det["%s%s-%s" % ("r%s-" % m.group(1) if m.group(1) else "", m.group(2), m.group(3))] = [] if m.group(4) == "-" else m.group(4).split(",")
n = 0
for name, d in sorted(res.items()):
    if not (d.get("demo_passes_without_patch") and d.get("demo_fails_with_patch") and d.get("suite_passes_with_patch")):
        print("NOT CONFIRMED", name, d)
        continue
    src = d["mutant"]
    if ONLY and not name.startswith(ONLY):
        continue
    # round-2 changes are stored as <property>-r2-<k>
    dname = re.sub(r"^r([2345])-(C\d+)-(\d)$", r"\2-r\1-\3", name)
    dst = os.path.join("/verif/seeded", dname)
    os.makedirs(dst, exist_ok=True)
    shutil.copy(os.path.join(src, "patch.diff"), dst)
    demo = [f for f in os.listdir(src) if f.startswith("demo") and f.endswith(".rs")][0]
    if os.path.exists(os.path.join(src, "patch.orig.diff")):
        shutil.copy(os.path.join(src, "patch.orig.diff"), dst)
    shutil.copy(os.path.join(src, demo), dst)
    meta = json.load(open(os.path.join(src, "meta.json")))
    out = {
        "property": meta.get("property", name.split("-")[0]),
        "summary": meta.get("summary"),
        "needs": meta.get("needs"),
        "demo": demo,
        "demo_path": meta.get("demo_path"),
        "demo_cmd": meta.get("demo_cmd"),
        "author": "independent sub-agent given only the property text and a scratch worktree of /repo",
        "confirmed_by_me": {
            "how": "tools/confirm_seeded.py in a fresh scratch worktree of /repo: cargo test --offline --test <demo> on the clean tree (pass), git apply patch.diff, same demo (fail), cargo test --workspace --no-fail-fast --offline with the patch (pass); worktree and build output removed afterwards",
            "demo_passes_without_patch": d["demo_passes_without_patch"],
            "demo_fails_with_patch": d["demo_fails_with_patch"],
            "demo_failure_excerpt": d.get("demo_failure", "")[:300],
            "suite_passes_with_patch": d["suite_passes_with_patch"],
            "suite_ok_lines": d.get("suite_ok_lines"),
        },
        "detected_by_checks": det.get(name),
    }
    if meta.get("rebased"):
        out["rebased"] = meta["rebased"]
    json.dump(out, open(os.path.join(dst, "meta.json"), "w"), indent=1)
    n += 1
print("assembled", n)
