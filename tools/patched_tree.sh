#!/bin/bash
# tools/patched_tree.sh <patch> <dir>: scratch copy of /repo with the patch applied (for experiments with `check --src`)
set -e
rm -rf "$2"; mkdir -p "$2"
rsync -a --exclude target --exclude .git /repo/ "$2/"
patch -p1 -s --no-backup-if-mismatch -d "$2" -i "$(realpath $1)"
echo "$2"
