#!/usr/bin/env python3
"""Regenerates /verif/MANIFEST.json from the table below (kept in one place so the
manifest, the claimed list and the design stay in step)."""
import json, os
VERIF = os.path.dirname(os.path.dirname(os.path.abspath(__file__)))

CLAIMS = {
 "C01": ("guard dominance + writer/reader agreement + taint over typed HIR", "5 C01",
         "rank()/rank_zero() clamp before rank_unchecked on every path; counter geometry and rel/set_rel agreement; tail bits never counted unmasked in rank constructors; rank_unchecked/rank_hinted count only whole words before the word of pos and that word under the low mask of pos % 64; count_ones (the cached num_ones) reads only the logical contents. The remaining per-word arithmetic of rank_unchecked is not decided."),
 "C02": ("guard dominance + sibling-skeleton and writer/reader agreement over typed HIR", "5 C02",
         "select()/select_zero() bound checks; span encoding constants; Select9 and SelectAdapt* writer/reader addressing; sibling agreement of the four adaptive selectors; construction loops stay inside the counters (Select9 position loop bounded by the word count, SelectSmall inventory_begin closed by the inventory length); map() keeps the const parameters; the small selectors keep one inventory_begin slot per 2^32-bit superblock and never search blocks outside the superblock of the rank. The broadword search itself is not decided. Known limitation (DESIGN section 13): the sibling-skeleton rules also report a behaviour-preserving rewrite of only one of the hand-mirrored selector files when it changes that file's decision/arithmetic skeleton (4 of 227 refactors of the benign corpus)."),
 "C03": ("guard dominance + split/merge agreement + float-to-shift taint over typed HIR", "5 C03",
         "push validation, iterator start protocol, low/high split agreement between builders and readers, allocation formula, no float-derived shift amount. From<slice> hands the builder a bound that covers every value. Select on the high bits is C02."),
 "C04": ("guard dominance (existence and universe guards) over typed HIR", "5 C04",
         "succ/pred existence guards and STRICT flags, universe guard before selecting a zero, strict/non-strict branch shape. (also: the bound of From<slice> covers every value; lower-bit masks are computed in usize.) The bucket scan arithmetic is not decided."),
 "C05": ("guard dominance + field read-modify-write shape + growth rules over typed HIR", "5 C05",
         "index/value validation before unchecked accessors with the structure's own mask; growth writes every new element; conversions copy len/width/mask; no shift by the bit width or assertion on it excludes a legal width (0..=W::BITS); mask-building shifts stay below the word size.; a word is appended to the backend only where the contents reach its end, and the backend length is subtracted only where known not larger; an nth override gives up only when next() would; equality and Hash look at the same bits (no derived Hash next to the masking PartialEq); masks and bounds from a literal shifted by a variable amount are computed in the type they are used in. Histories as such are not explored."),
 "C06": ("guard dominance + reader-mask rules over typed HIR", "5 C06",
         "checked accessors, iterator bounds, last-word masks in count/eq, push clears the target bit; every access splits one position into word index and in-word offset; equality and counting never consult the number of backend words; extend advances the length with every element.; the bit iterators keep their cursor within 0..=len in every method that moves it; the word at the end of the contents is rewritten under the mask of the length residual only where that residual is non-zero. Histories as such are not explored."),
 "C13": ("atomic RMW discipline (load/store/CAS classification by receiver kind and data flow) + field-confinement law", "5 C13",
         "shared words are modified only by single fetch_* or by compare_exchange loops that refresh the expected value and recompute the new word from it; no load->store through &self; every word update is confined to the element's bits and agrees with the non-atomic writer; loads and failed-CAS orderings are derived through load_order, never the caller's raw ordering; partial last words of bulk operations are updated by one fetch_*; the concurrent Elias-Fano builder writes through these setters with the sequential split. Memory-order effects other than atomicity are not modelled."),
 "C14": ("storage-tail discipline: backend accesses classified as full-word slice / masked last word / element-addressed; field-confinement law", "5 C14",
         "readers use only the first len*width/BITS words and mask the partial last word; bulk writers store whole words only below that bound and confine the last-word update to the live bits; single-element writes obey the confinement law; ones/zeros iterators return only positions < len; observers never consult the backend's length or last word. apply_in_place and copy are covered by C10's rules."),
 "C07": ("typestate/ordering of the sharding calls, build/query edge agreement, result discipline over the structured HIR", "5 C07",
         "try_seed sets up the shards from the actual key count, unconditionally, before the store is split, and every geometry consumer sees that state; the backend has num_vertices*num_shards cells; the builder addresses chunks through local_edge and queries through edge; assignment XORs the other two cells; errors and rewinds are never dropped; no size cap asserted on shards before the balance test; the fuse logic decides its regime with the same test when sharding and when setting up graphs; slice keys are hashed over all their bytes; BitFieldVec backends are allocated with the padding word the unaligned queries need; every solver worker drains the channel. Solvability and the peelers are not decided."),
 "C08": ("build/query hash agreement and prefill-before-solve ordering over the structured HIR", "5 C08",
         "stored value and membership test apply the same mask/mix/edge-hash to the local signature; every membership entry point goes through contains_by_sig with the function's seed; random prefill precedes solving for filters only; silent dedup only for filters. ToSig of the integer key types hashes the whole key (no narrowing of the key before hashing); the store is split by shard_high_bits and shard() takes those bits. The false-positive rate is statistical and not decided."),
 "C17": ("error-discipline and must-pass-through flow rules over the structured HIR", "5 C17",
         "every Result of lenders, store and rewinds in build_loop/try_seed is propagated; fatal errors are returned unchanged; duplicate retries are bounded by counters; both lenders are rewound on every path to the next attempt (no continue); par_solve returns Ok only when no worker reported an error; Results reaching a sink are tabled one by one and none is replaced by a default; the duplicate scan directly follows an unconditional full sort. RadixKey levels of the signature/value pairs read distinct bytes, eight per signature word (the sort behind duplicate detection orders by the whole signature); the number of solver threads is at least one. Termination of the probabilistic retry is not decided."),
 "C20": ("must-pass-through flow rule (seek before Ok) and structural rules for the line reader", "5 C20",
         "rewind() of every Seek-based lender seeks to the start on every Ok path and rebuilds its decoder afterwards; no Ok is returned before the seek; FromIntoIterator restarts from a pristine clone; the shared reader strips exactly LF then CR, maps EOF/errors, and all line lenders use it; Take::rewind is a known finding."),
 "C16": ("symbolic evaluation of the ShardEdge methods and edge helpers + segment-domain argument + bit-slice agreement", "5 C16",
         "for every impl of ShardEdge: edge(sig) equals local_edge(local_sig(sig)) plus shard(sig)*num_vertices(); the local vertices lie in three consecutive segment windows of the (l+2)*2^s (or 3*seg) cells, hence are distinct and in range; sort_key < num_sort_keys; shard() and Sig::high_bits take the same top bits; set_up_graphs asserts the Vertex bound. The asserted Vertex bound is on num_vertices() itself; the builder takes vertices from local_edge only. The float formulas for s and l are not decided."),
 "C10": ("clamp/partition/flow rules on copy, writer-reader agreement on chunk views, unit rule on unaligned reads, seq/par sibling skeletons", "5 C10",
         "copy clamps by both vectors and shifts every source word by the difference of the bit offsets in the misaligned branches; try_chunks_mut slices exactly ceil(len*w/BITS) words into ceil(chunk*w/BITS)-word views of min(chunk, remaining) elements; the unaligned read uses bit/8 and bit%8; sequential and parallel fill/flip/reset/count agree; loops are bounded by the logical length; apply_in_place_unchecked touches the backend only below the word count, keeps the tail bits of the last word, and still calls f len times for width 0; every mask-building shift has an amount provably below the word size. Every exit of apply_in_place_unchecked other than for an empty vector has applied f in a loop; copy writes whole words only strictly between two words its branch updates under a mask. Bit-exact equality of the fast paths is not decided."),
 "C11": ("constant evaluation + compiler type layouts + documented-formula families + interval sampling of the expansion factor", "5 C11",
         "bytes of counters per block (from rustc's layouts) over the block size equal the documented overheads; Select9 inventory sizes; Elias-Fano l and high/low sizes follow the documented formula on integers; functions size l from ceil(c*max shard) with l >= 1 and c within 1.23 / 1.135 (known finding for the unsharded logic); packed vectors allocate ceil(len*w/BITS) words and grow to a size computed from the new logical length only; the Elias-Fano sizes evaluated on a grid of (n, u) (n = 0 included) stay within n(2 + lg(u/n)) plus three words; expansion factor times the shard-balance tolerance within the bound (known finding: 1.125 x 1.01). The cell width of a function is the bit length of its largest value (evaluated); cells per key of the fuse geometry evaluated for graphs of 10^6 to 3*10^8 keys; with_capacity reserves without creating words. mem_size itself and rounding for tiny inputs are not decided."),
 "C09": ("writer/reader table agreement for the VByte code, block-protocol agreement between builder and decoders, iterator start protocol", "5 C09",
         "encode_int/decode_int agree per code length on threshold, offset, prefix, mask and byte positions (thresholds = cumulative 128^k); builder and the three decoders use the same block predicate, NUL termination and truncate-by-rear-length; the in-block scan is clamped to the strings present; is_sorted is cleared exactly on a descent (length tie-break included) and index_of dispatches on it; lenders starting at len are exhausted; the order of two strings is decided on single bytes, byte slices, lengths or big-endian loads only. Every path into the in-block scan of index_of has excluded equality with the block head. Byte-string comparison routines are otherwise not decided on all inputs."),
 "C18": ("sibling agreement (online/offline store, file/memory iterator) and formula rules over the typed HIR", "5 C18",
         "both try_push count the pair once per table using the high bits with the matching mask; both into_shard_store aggregate sizes over chunks of 2^(max - shard bits) under the asserted bound; both shard iterators aggregate/split by the same powers of two, route by the high bits minus the bucket's base, advance both cursors and destroy buckets only when not borrowed; regime-sensitive (more shards than buckets / fewer) formulas checked separately; shard() and Sig::high_bits take the same bits. Multiset preservation as such is not decided."),
 "C12": ("unsafe-site census with guard dominance and a table of construction invariants", "5 C12",
         "every unsafe call in a safe function is discharged by dominating facts or rests on a tabled construction invariant; unchecked-precondition functions are unsafe fn; iterator start protocol; universe guard; size products of caller-supplied lengths are checked multiplications; no reinterpretation of storage assumes more alignment than the element type gives. The construction invariants themselves are assumptions."),
 "C19": ("control/error-discipline rules on the solvers and a term-level check of the sorted-merge XOR (typed HIR)", "5 C19",
         "PARTIAL. Decided: echelon_form tests every pivot row non-empty, turns an emptied row with non-zero constant into an error and leaves the inner loop on an identity row before it is indexed again; gaussian_elimination propagates that error and back-substitutes in reverse over non-identity rows with c ^ eval(vars); lazy_gaussian_elimination classifies fully eliminated rows (unsolvable -> error, identity -> skipped, else dense), propagates the dense error and back-substitutes each pivot from its own row; Modulo2Equation::add is the sorted symmetric difference (advance by l<=r, l>=r, output by their XOR, both tails copied, constants XORed); every explicit error return is guarded by is_unsolvable() of a row or is the tabled input check; an identity row continues the reduction (never ends it); no count is narrowed by a cast. echelon_form visits every row (outer loop to len - 1, inner to len) and every solution vector has num_vars entries. NOT decided: that the returned assignment satisfies every equation and that an error is returned only for unsolvable systems (the weight/priority bookkeeping of the lazy phase is run-time state)."),
 "C15": ("type-level witnesses (a crate that is only type-checked against the tree) + impl-generality rule over the resolved impls", "5 C15",
         "PARTIAL. Decided: for every serializable structure (bit vectors, bit-field vectors, rank/select structures and their compositions, the Elias-Fano aliases, rear-coded lists, functions and filters with each backend / signature / shard-edge logic) both the type itself (full-copy deserialization) and its zero-copy image DeserType<'_> (deserialize_eps, mmap) implement the query traits and have the query methods of the original; every query-trait impl of a serializable structure is generic in all storage parameters; the optional mwhc logics are witnessed too; no query path reinterprets storage assuming more alignment than the element type gives (loaded buffers are only that aligned). no serializable structure is aligned beyond what every loader provides (64 bytes). NOT decided: that the bytes read back equal the values written (epserde's generated code and run-time data) -- answering *identically* is not decided, only that every loaded instance can be asked."),
}

NA = {
}
PENDING = {}

def main():
    checks = []
    for pid in sorted(CLAIMS):
        tech, ref, text = CLAIMS[pid]
        checks.append({
            "property_id": pid,
            "quick_cmd": "./check %s --tier quick" % pid,
            "thorough_cmd": "./check %s --tier thorough" % pid,
            "evidence_file": "/verif/evidence/%s.json" % pid,
            "replay_cmd_template": "./check %s --replay {path}" % pid,
            "engine": "sux-facts + rules",
            "level_claimed": {"category": "other", "text": "Necessary structural clauses of the property hold on every path of the named functions / every call site of the named callees in the current source: " + text, "design_ref": "DESIGN.md section " + ref},
            "level_note": "Trusted: rustc name/type resolution, the driver's typed-HIR dump (cross-checked by per-rule floors), the frozen tables under /verif/tables (each entry printed as an assumption), ideal-integer arithmetic in guards. The behaviour itself is not decided.",
            "technique": "static analysis: " + tech,
        })
    na = [{"property_id": k, "reason": v} for k, v in sorted(NA.items())]
    for k, v in sorted(PENDING.items()):
        if k not in CLAIMS:
            na.append({"property_id": k, "reason": v})
    m = {
        "version": 1,
        "setup_cmd": "cd /verif/driver && CARGO_NET_OFFLINE=true cargo build --release --offline",
        "hooks": {"guard": "sux_verif", "enable": "none needed: static analysis reads the sources; no instrumentation of /repo", "baseline_off_cmd": "cd /repo && cargo test --workspace --no-fail-fast --offline", "source_commits": [], "add_only": True},
        "engines": [
            {"name": "sux-facts", "path": "/verif/driver", "serves_properties": sorted(CLAIMS), "kind_free_text": "rustc_private driver dumping typed HIR (resolved callees, types, macro provenance) of the sux crate"},
            {"name": "rules", "path": "/verif/rules", "serves_properties": sorted(CLAIMS), "kind_free_text": "Python rule engines: guard dominance (difference-bound facts on structured paths), symbolic agreement, flow, taint, constants, atomic RMW discipline"},
        ],
        "checks": checks,
        "not_applicable": na,
        "notes": "All checks are static: they re-extract facts from /repo's working tree on every run (cached by a hash of the sources) and never execute sux. Known findings: /verif/known_findings.json.",
    }
    json.dump(m, open(os.path.join(VERIF, "MANIFEST.json"), "w"), indent=1)
    print("claimed:", sorted(CLAIMS), "n/a:", [x["property_id"] for x in na])

if __name__ == "__main__":
    main()
