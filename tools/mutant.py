#!/usr/bin/env python3
"""tools/mutant.py [-j N] [--props C01,C02] patch.diff...

Applies each patch to a scratch copy of /repo's current working tree (outside /repo and
/verif), runs the registered quick checks against the copy (`check --src`), prints which
properties report a violation, and removes the scratch copy. Used for the mutant self-test
and for evaluating seeded changes; never touches /repo."""
import json, os, shutil, subprocess, sys, tempfile
from concurrent.futures import ThreadPoolExecutor

VERIF = os.path.dirname(os.path.dirname(os.path.abspath(__file__)))
sys.path.insert(0, VERIF)

def claimed():
    m = json.load(open(os.path.join(VERIF, "MANIFEST.json")))
    return [c["property_id"] for c in m["checks"]]

def run_one(idx, patch, props, tier):
    w = "w%d" % idx
    base = tempfile.mkdtemp(prefix="sxm-")
    repo = os.path.join(base, "repo")
    try:
        os.makedirs(repo)
        subprocess.check_call(["rsync", "-a", "--exclude", "target", "--exclude", ".git", "/repo/", repo + "/"])
        r = subprocess.run(["patch", "-p1", "-s", "--no-backup-if-mismatch", "-i", os.path.abspath(patch)], cwd=repo, stdout=subprocess.PIPE, stderr=subprocess.STDOUT, text=True)
        if r.returncode != 0:
            return patch, "PATCH-FAILED", {}, r.stdout
        env = dict(os.environ, VERIF_TARGET_DIR=os.path.join(VERIF, ".cache", "target-" + w), VERIF_NO_EVIDENCE="1", VERIF_TIER=tier)
        res = {}
        logs = []
        for p in props:
            r = subprocess.run([os.path.join(VERIF, "check"), p, "--src", repo, "--tier", tier], env=env, stdout=subprocess.PIPE, stderr=subprocess.STDOUT, text=True)
            res[p] = r.returncode
            if r.returncode == 2 and any(v == 2 for k, v in res.items() if k != p):
                continue
            if r.returncode != 0:
                logs.append("\n".join(l for l in r.stdout.splitlines() if not l.startswith("WARNING conda"))[:3000])
        return patch, "OK", res, "\n".join(logs)
    finally:
        shutil.rmtree(base, ignore_errors=True)

def main():
    args = sys.argv[1:]
    j = 4
    props = None
    tier = "quick"
    verbose = False
    patches = []
    i = 0
    while i < len(args):
        if args[i] == "-j": j = int(args[i+1]); i += 2
        elif args[i] == "--props": props = args[i+1].split(","); i += 2
        elif args[i] == "--tier": tier = args[i+1]; i += 2
        elif args[i] == "-v": verbose = True; i += 1
        else: patches.append(args[i]); i += 1
    if props is None:
        props = claimed()
    with ThreadPoolExecutor(max_workers=j) as ex:
        futs = [ex.submit(run_one, k % j, p, props, tier) for k, p in enumerate(patches)]
        # note: worker index reuse is safe because extract.py locks per target dir
        for f in futs:
            patch, st, res, log = f.result()
            hit = [p for p, rc in res.items() if rc == 1]
            broken = [p for p, rc in res.items() if rc not in (0, 1)]
            print("%s: %s detected_by=%s%s" % (patch, st, ",".join(hit) or "-", (" MACHINERY=" + ",".join(broken)) if broken else ""))
            if verbose:
                print(log)
            elif broken or st != "OK":
                print("\n".join(log.splitlines()[:12]))
    # the per-worker build directories of the C15 witness crate are large and cheap to rebuild
    for d in os.listdir(os.path.join(VERIF, ".cache")):
        if d.startswith("target-w") and d.endswith("-witness"):
            shutil.rmtree(os.path.join(VERIF, ".cache", d), ignore_errors=True)
    return 0

if __name__ == "__main__":
    sys.exit(main())
