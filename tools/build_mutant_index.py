#!/usr/bin/env python3
"""Runs every recorded mutation (/verif/mutants/*.patch and /verif/seeded/*/patch.diff) against every
claimed check on a scratch copy of /repo and records, in /verif/mutants/index.json, which properties'
checks report it. The thorough tier replays the mutations listed for its property and requires each to
be reported again (self-test of the rules: a rule that silently stopped matching is machinery failure)."""
import json, os, re, subprocess, sys
VERIF = os.path.dirname(os.path.dirname(os.path.abspath(__file__)))
patches = sorted([os.path.join("mutants", f) for f in os.listdir(os.path.join(VERIF, "mutants")) if f.endswith(".patch")])
sd = os.path.join(VERIF, "seeded")
if os.path.isdir(sd):
    patches += sorted(os.path.join("seeded", d, "patch.diff") for d in os.listdir(sd) if os.path.exists(os.path.join(sd, d, "patch.diff")))
r = subprocess.run([os.path.join(VERIF, "tools", "mutant.py"), "-j", "8"] + [os.path.join(VERIF, p) for p in patches], stdout=subprocess.PIPE, stderr=subprocess.STDOUT, text=True)
idx = {}
for l in r.stdout.splitlines():
    m = re.match(r"(/verif/)?(\S+): (\S+) detected_by=(\S+)", l)
    if m:
        idx[m.group(2)] = {"status": m.group(3), "detected_by": [] if m.group(4) == "-" else m.group(4).split(",")}
json.dump({"_comment": "which checks report which recorded mutation (measured by tools/build_mutant_index.py)", "mutants": idx}, open(os.path.join(VERIF, "mutants", "index.json"), "w"), indent=1)
print(len(idx), "mutants;", sum(1 for v in idx.values() if v["detected_by"]), "detected by at least one check")
for k, v in sorted(idx.items()):
    if not v["detected_by"]:
        print("  undetected:", k, v["status"])
# keep the per-change records in step with what was measured
for k, v in idx.items():
    if k.startswith("seeded/") and v["status"] == "OK":
        mp = os.path.join(VERIF, os.path.dirname(k), "meta.json")
        if os.path.exists(mp):
            m = json.load(open(mp))
            m["detected_by_checks"] = v["detected_by"]
            json.dump(m, open(mp, "w"), indent=1)
