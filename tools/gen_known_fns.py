#!/usr/bin/env python3
"""Writes tables/known_fns.json: the paths of all functions of the crate on the reference tree (/repo HEAD), both
configurations. A function that is NOT in this table and is called from one that is, is a helper introduced by a later
edit ("extract a helper"): the analysis inlines it into its callers at AST level (rules/astnorm.py) so that every
rule sees the same program as before the extraction. Regenerate after every fix: commit in /repo that adds functions."""
import json, os, sys
VERIF = os.path.dirname(os.path.dirname(os.path.abspath(__file__)))
sys.path.insert(0, os.path.join(VERIF, "rules")); sys.path.insert(0, VERIF)
os.environ["VERIF_NO_ASTNORM"] = "1"
import extract
from ir import Facts
paths = set()
consts = set()
sigs = {}
for cfg in ("default", "mwhc"):
    p, inf = extract.get_facts(cfg, src_root="/repo")
    F = Facts(p)
    for b in F.bodies:
        if b.dk in ("Fn", "AssocFn"):
            paths.add(b.path)
            sigs[b.path] = "%s -> %s" % (", ".join(str(t) for t in b.sig_in), b.ret)
        elif b.dk in ("Const", "AssocConst", "Static"):
            consts.add(b.path)
json.dump({"_comment": "function and constant paths of the reference tree; see tools/gen_known_fns.py", "paths": sorted(paths), "consts": sorted(consts), "sigs": sigs}, open(os.path.join(VERIF, "tables", "known_fns.json"), "w"), indent=0)
print(len(paths), "functions", len(consts), "constants")
