#!/usr/bin/env python3
"""tools/gen_round_prompts.py <round> [Cxx ...]

Prepares a round of independent seeded changes: for every property (or the listed ones) writes
/tmp/mut<round>/prop_<id>.json (the property text only) and /tmp/mut<round>/PROMPT_<id>.md (instructions
for a fresh sub-agent, with one line per change already recorded under /verif/seeded for that property so
that it looks elsewhere), and creates the scratch worktree /tmp/wt<round>/<id> of /repo's HEAD.
Nothing from /verif is given to the sub-agent except those one-line summaries."""
import json, os, subprocess, sys
VERIF = os.path.dirname(os.path.dirname(os.path.abspath(__file__)))
rnd = sys.argv[1]
only = sys.argv[2:]
props = [json.loads(l) for l in open(os.path.join(VERIF, "properties.jsonl"))]
out = "/tmp/mut%s" % rnd
wt = "/tmp/wt%s" % rnd
os.makedirs(out, exist_ok=True)
os.makedirs(wt, exist_ok=True)
seeded = {}
for d in sorted(os.listdir(os.path.join(VERIF, "seeded"))):
    mp = os.path.join(VERIF, "seeded", d, "meta.json")
    if os.path.exists(mp):
        m = json.load(open(mp))
        seeded.setdefault(d.split("-")[0], []).append((m.get("summary") or "")[:300])

TEMPLATE = open(os.path.join(VERIF, "tools", "round_prompt.md")).read()
for p in props:
    pid = p["id"]
    if only and pid not in only:
        continue
    json.dump(p, open(os.path.join(out, "prop_%s.json" % pid), "w"), indent=1)
    prev = "\n".join("  - " + s.replace("\n", " ") for s in seeded.get(pid, []))
    txt = TEMPLATE.replace("{PID}", pid).replace("{RND}", rnd).replace("{PREV}", prev)
    open(os.path.join(out, "PROMPT_%s.md" % pid), "w").write(txt)
    w = os.path.join(wt, pid)
    if not os.path.exists(w):
        subprocess.run(["git", "-C", "/repo", "worktree", "remove", "--force", w], stdout=subprocess.DEVNULL, stderr=subprocess.DEVNULL)
        subprocess.check_call(["git", "-C", "/repo", "worktree", "add", "-q", "--detach", w, "HEAD"])
    for k in "123":
        os.makedirs(os.path.join(out, pid, k), exist_ok=True)
    print("prepared", pid, len(seeded.get(pid, [])), "earlier changes listed")
