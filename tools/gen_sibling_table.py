#!/usr/bin/env python3
"""Records the present differences of the sibling groups of R02.3 and R02.9 as the tables of confirmed
differences (tables/select_siblings.json, tables/sibling_groups.json). Run by hand after reading the
differences (the reasons below were written after reading them); never run by a check. Prints the number
of entries per group so that a regeneration can be compared with the previous table."""
import json, os, re, sys
VERIF = os.path.dirname(os.path.dirname(os.path.abspath(__file__)))
sys.path.insert(0, os.path.join(VERIF, "rules"))
import r_select
from r_select import sk_items, SIBLING_GROUPS, unified_skeletons, SELECT_FNS, NEW_FNS, OPAQUE, NEW_PARAM_TERMS
from ir import Facts
from extract import get_facts
p, _ = get_facts()
F = Facts(p)
# the same environment as in `check`: every rule module loaded (r_ef installs the default inliner of small helpers),
# powers of two of the crate's constants registered
import importlib
for _f in sorted(os.listdir(os.path.join(os.path.dirname(os.path.dirname(os.path.abspath(__file__))), "rules"))):
    if _f.startswith("r_") and _f.endswith(".py"):
        importlib.import_module(_f[:-3])
import r_const
r_const.register_pow2(F)
REASONS = {
    "ef-scan": "index_of additionally rejects values above u, stops at the end of the high bits and tests for equality/overshoot; succ_unchecked relies on its caller's contract (read and confirmed)",
    "select-small": "zero-selecting counterpart: zeros before position p are p - ones, so counters are compared as block position minus (upper ones + absolute), upper ranks as (i << 32) - ones, and a linear partition point replaces the binary one (read and confirmed)",
}
ADAPT_REASONS = {
    ("SelectAdapt", "SelectZeroAdapt"): "run-time adaptivity preamble: the non-const variants derive ones_per_inventory, log2_u64_per_subinventory = max.min(log2_ones_per_inventory - 2) and log2_ones_per_sub16 at run time; the const variants take them from const parameters (read and confirmed)",
    ("SelectZeroAdapt", "SelectZeroAdaptConst"): "the zero variants clip the zeros of the (negated) last word to the known number of zeros (the spurious zeros after the end must not be counted); repaired form of F-17 (read and confirmed)",
    ("SelectAdapt", "SelectAdaptConst"): "counterpart of the clip above: the ones variants count the word (masked by the `word` helper for the last word, F-1) -- same quantity, other spelling (read and confirmed)",
}
def listify(x):
    return [listify(y) for y in x] if isinstance(x, tuple) else x


tab = {"_reference": {}, "_comment": "R02.9: confirmed differences between sibling implementations (exact skeleton item, which sibling has it, why). Anything else present in one sibling only is reported. _reference: the skeleton of the first sibling of each group as it was when the differences were confirmed (used only to carry its local names over renames)."}
for g in SIBLING_GROUPS:
    bodies = [F.one(x) for x in g["fns"]]
    sks = unified_skeletons(F, bodies, g["opaque"])
    union = set().union(*sks); common = set.intersection(*sks)
    rows = []
    for it in sorted(union - common, key=repr):
        have = [g["labels"][i] for i, s in enumerate(sks) if it in s]
        rows.append({"item": repr(it[0]) if it[1] == 1 else repr(it), "only_in": have, "reason": REASONS[g["name"]]})
    tab[g["name"]] = rows
    tab["_reference"][g["name"]] = [listify(sorted(sk_items(F, b, g["opaque"]), key=repr)) for b in bodies]
    print(g["name"], len(common), "common,", len(rows), "confirmed differences")
json.dump(tab, open(os.path.join(VERIF, "tables", "sibling_groups.json"), "w"), indent=1)

names = ["SelectAdapt", "SelectAdaptConst", "SelectZeroAdapt", "SelectZeroAdaptConst"]
tab2 = {"_reference": {}, "_comment": "R02.3: confirmed legitimate differences between the four adaptive selectors (exact skeleton items -- an item with a count is `(item, n)` --, the siblings they occur in, and why). Any other item present in some siblings only is reported."}
for what, paths in (("select_unchecked", SELECT_FNS), ("constructor", NEW_FNS)):
    bodies = [F.one(x) for x in paths]
    sks = unified_skeletons(F, bodies, OPAQUE, NEW_PARAM_TERMS if what == 'constructor' else None)
    union = set().union(*sks); common = set.intersection(*sks)
    rows = []
    for it in sorted(union - common, key=repr):
        have = [names[i] for i, s in enumerate(sks) if it in s]
        base = repr(it[0]) if it[1] == 1 else repr(it)
        reason = ADAPT_REASONS.get(tuple(have))
        if reason is not None and ("'WORD'" in base or ("'word'" in base and tuple(have) in (("SelectAdapt", "SelectAdaptConst"), ("SelectZeroAdapt", "SelectZeroAdaptConst")))):
            reason = "same statement in the four files; the ones variants read the word of the bit vector in place (bits[i]) where the zero variants bind its complement to a local first, so the operand is spelled differently (read and confirmed)"
        if reason is None:
            print("   UNEXPLAINED difference in", what, have, base[:200])
            continue
        rows.append({"item": "^" + re.escape(base) + "$", "only_in": have, "reason": reason})
    tab2[what] = rows
    tab2["_reference"][what] = [listify(sorted(sk_items(F, b, OPAQUE, None, pt), key=repr)) for b, pt in zip(bodies, (NEW_PARAM_TERMS if what == 'constructor' else [None] * 4))]
    print(what, len(common), "common,", len(rows), "confirmed differences")
json.dump(tab2, open(os.path.join(VERIF, "tables", "select_siblings.json"), "w"), indent=1)
