#!/usr/bin/env python3
"""Records the present differences of the sibling groups of R02.9 as the table of confirmed differences
(tables/sibling_groups.json). Run by hand after reading the differences; never run by a check."""
import json, os, sys
VERIF = os.path.dirname(os.path.dirname(os.path.abspath(__file__)))
sys.path.insert(0, os.path.join(VERIF, "rules"))
from r_select import SIBLING_GROUPS, sk_items
from ir import Facts
from extract import get_facts
p, _ = get_facts()
F = Facts(p)
REASONS = {
    "ef-scan": "index_of additionally rejects values above u, stops at the end of the high bits and tests for equality/overshoot; succ_unchecked relies on its caller's contract (read and confirmed)",
    "select-small": "zero-selecting counterpart: zeros before position p are p - ones, so counters are compared as block position minus (upper ones + absolute), upper ranks as (i << 32) - ones, and a linear partition point replaces the binary one (read and confirmed)",
}
tab = {"_comment": "R02.9: confirmed differences between sibling implementations (exact skeleton item, which sibling has it, why). Anything else present in one sibling only is reported."}
for g in SIBLING_GROUPS:
    bodies = [F.one(x) for x in g["fns"]]
    sks = [sk_items(F, b, g["opaque"]) for b in bodies]
    union = set().union(*sks); common = set.intersection(*sks)
    rows = []
    for it in sorted(union - common, key=repr):
        have = [g["labels"][i] for i, s in enumerate(sks) if it in s]
        rows.append({"item": repr(it[0]) if it[1] == 1 else repr(it), "only_in": have, "reason": REASONS[g["name"]]})
    tab[g["name"]] = rows
    print(g["name"], len(common), "common,", len(rows), "confirmed differences")
json.dump(tab, open(os.path.join(VERIF, "tables", "sibling_groups.json"), "w"), indent=1)
