#!/usr/bin/env python3
"""tools/gen_benign_prompts.py  Prepares a round of independent *behaviour-preserving* refactors: per area a prompt
(/tmp/mutb/PROMPT_<area>.md), the text of the properties anchored there (/tmp/mutb/props_<area>.json) and a scratch
worktree /tmp/wtb/<area>. Nothing else from /verif is given to the sub-agent."""
import json, os, subprocess, sys
VERIF = os.path.dirname(os.path.dirname(os.path.abspath(__file__)))
AREAS = {
    "bitvec": (["src/bits/bit_vec.rs"], ["C06", "C14", "C13", "C10"]),
    "bitfieldvec": (["src/bits/bit_field_vec.rs", "src/traits/bit_field_slice.rs"], ["C05", "C10", "C14", "C13"]),
    "rank": (["src/rank_sel/rank9.rs", "src/rank_sel/rank_small.rs", "src/traits/rank_sel.rs"], ["C01", "C11"]),
    "selectadapt": (["src/rank_sel/select_adapt.rs", "src/rank_sel/select_zero_adapt.rs", "src/rank_sel/select_adapt_const.rs", "src/rank_sel/select_zero_adapt_const.rs"], ["C02"]),
    "selectother": (["src/rank_sel/select9.rs", "src/rank_sel/select_small.rs", "src/rank_sel/select_zero_small.rs"], ["C02", "C11"]),
    "eliasfano": (["src/dict/elias_fano.rs", "src/traits/indexed_dict.rs"], ["C03", "C04", "C12"]),
    "rcl": (["src/dict/rear_coded_list.rs"], ["C09"]),
    "vbuilder": (["src/func/vbuilder.rs", "src/func/vfunc.rs", "src/dict/vfilter.rs"], ["C07", "C08", "C17"]),
    "shardedge": (["src/func/shard_edge.rs", "src/func/mod.rs"], ["C16", "C11"]),
    "sigstore": (["src/utils/sig_store.rs"], ["C18"]),
    "mod2lenders": (["src/utils/mod2_sys.rs", "src/utils/lenders.rs"], ["C19", "C20"]),
}
props = {json.loads(l)["id"]: json.loads(l) for l in open(os.path.join(VERIF, "properties.jsonl"))}
tmpl = open(os.path.join(VERIF, "tools", "benign_prompt.md")).read()
os.makedirs("/tmp/mutb", exist_ok=True)
os.makedirs("/tmp/wtb", exist_ok=True)
for area, (files, pids) in AREAS.items():
    if sys.argv[1:] and area not in sys.argv[1:]:
        continue
    json.dump([{k: props[p][k] for k in ("id", "title", "statement")} for p in pids], open("/tmp/mutb/props_%s.json" % area, "w"), indent=1)
    open("/tmp/mutb/PROMPT_%s.md" % area, "w").write(tmpl.replace("{AREA}", area).replace("{FILES}", ", ".join(files)))
    w = "/tmp/wtb/%s" % area
    if not os.path.exists(w):
        subprocess.run(["git", "-C", "/repo", "worktree", "remove", "--force", w], stdout=subprocess.DEVNULL, stderr=subprocess.DEVNULL)
        subprocess.check_call(["git", "-C", "/repo", "worktree", "add", "-q", "--detach", w, "HEAD"])
    for k in "12345":
        os.makedirs("/tmp/mutb/%s/%s" % (area, k), exist_ok=True)
    print("prepared", area)
