#!/usr/bin/env python3
"""tools/gen_benign_prompts.py  Prepares a round of independent *behaviour-preserving* refactors: per area a prompt
(/tmp/mutb/PROMPT_<area>.md), the text of the properties anchored there (/tmp/mutb/props_<area>.json) and a scratch
worktree /tmp/wtb/<area>. Nothing else from /verif is given to the sub-agent."""
import json, os, subprocess, sys
VERIF = os.path.dirname(os.path.dirname(os.path.abspath(__file__)))
AREAS = {
    "bitvec": (["src/bits/bit_vec.rs"], ["C06", "C14", "C13", "C10"]),
    "bitfieldvec": (["src/bits/bit_field_vec.rs", "src/traits/bit_field_slice.rs"], ["C05", "C10", "C14", "C13"]),
    "rank": (["src/rank_sel/rank9.rs", "src/rank_sel/rank_small.rs", "src/traits/rank_sel.rs"], ["C01", "C11"]),
    "selectadapt": (["src/rank_sel/select_adapt.rs", "src/rank_sel/select_zero_adapt.rs", "src/rank_sel/select_adapt_const.rs", "src/rank_sel/select_zero_adapt_const.rs"], ["C02"]),
    "selectother": (["src/rank_sel/select9.rs", "src/rank_sel/select_small.rs", "src/rank_sel/select_zero_small.rs"], ["C02", "C11"]),
    "eliasfano": (["src/dict/elias_fano.rs", "src/traits/indexed_dict.rs"], ["C03", "C04", "C12"]),
    "rcl": (["src/dict/rear_coded_list.rs"], ["C09"]),
    "vbuilder": (["src/func/vbuilder.rs", "src/func/vfunc.rs", "src/dict/vfilter.rs"], ["C07", "C08", "C17"]),
    "shardedge": (["src/func/shard_edge.rs", "src/func/mod.rs"], ["C16", "C11"]),
    "sigstore": (["src/utils/sig_store.rs"], ["C18"]),
    "mod2lenders": (["src/utils/mod2_sys.rs", "src/utils/lenders.rs"], ["C19", "C20"]),
}
props = {json.loads(l)["id"]: json.loads(l) for l in open(os.path.join(VERIF, "properties.jsonl"))}
tmpl = open(os.path.join(VERIF, "tools", "benign_prompt.md")).read()
RND = os.environ.get("BENIGN_ROUND", "")
OUT, WT = "/tmp/mutb" + RND, "/tmp/wtb" + RND
os.makedirs(OUT, exist_ok=True)
os.makedirs(WT, exist_ok=True)
prev_meta = json.load(open(os.path.join(VERIF, "benign", "sa-meta.json"))) if os.path.exists(os.path.join(VERIF, "benign", "sa-meta.json")) else {}
for area, (files, pids) in AREAS.items():
    if sys.argv[1:] and area not in sys.argv[1:]:
        continue
    json.dump([{k: props[p][k] for k in ("id", "title", "statement")} for p in pids], open("%s/props_%s.json" % (OUT, area), "w"), indent=1)
    txt = tmpl.replace("/tmp/wtb/", WT + "/").replace("/tmp/mutb/", OUT + "/").replace("{AREA}", area).replace("{FILES}", ", ".join(files))
    done = [v for k, v in sorted(prev_meta.items()) if k.startswith("sa-%s-" % area) or k.startswith("sb-%s-" % area) or k.startswith("sc-%s-" % area)]
    if done:
        txt += "\nThe following refactors were already made in this area by other people: do NOT repeat them (nor the same idea on the same function); choose other functions and other kinds of transformation:\n" + "\n".join("  - [%s] %s" % (d.get("kind"), (d.get("summary") or "")[:260].replace("\n", " ")) for d in done) + "\n"
    open("%s/PROMPT_%s.md" % (OUT, area), "w").write(txt)
    w = "%s/%s" % (WT, area)
    if not os.path.exists(w):
        subprocess.run(["git", "-C", "/repo", "worktree", "remove", "--force", w], stdout=subprocess.DEVNULL, stderr=subprocess.DEVNULL)
        subprocess.check_call(["git", "-C", "/repo", "worktree", "add", "-q", "--detach", w, "HEAD"])
    for k in "12345":
        os.makedirs("%s/%s/%s" % (OUT, area, k), exist_ok=True)
    print("prepared", area)
