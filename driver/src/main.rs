//! sux-facts: a rustc_private driver that dumps the typed HIR of the crate
//! named by $DRV_CRATE (default `sux`) as one JSON fact file ($DRV_OUT).
//! Used as RUSTC_WORKSPACE_WRAPPER: argv[1] is the real rustc, dropped.
#![feature(rustc_private)]
#![allow(clippy::all)]

extern crate rustc_abi;
extern crate rustc_ast;
extern crate rustc_driver;
extern crate rustc_hir;
extern crate rustc_interface;
extern crate rustc_middle;
extern crate rustc_span;

use rustc_ast::ast::LitKind;
use rustc_driver::{Callbacks, Compilation};
use rustc_hir as hir;
use rustc_hir::def::{DefKind, Res};
use rustc_hir::def_id::{DefId, LOCAL_CRATE};
use rustc_interface::interface::Compiler;
use rustc_middle::ty::{self, TyCtxt, TypeckResults};
use rustc_span::hygiene::ExpnKind;
use rustc_span::Span;
use std::collections::HashMap;
use std::fmt::Write as _;

fn esc(s: &str, out: &mut String) {
    out.push('"');
    for c in s.chars() {
        match c {
            '"' => out.push_str("\\\""),
            '\\' => out.push_str("\\\\"),
            '\n' => out.push_str("\\n"),
            '\r' => out.push_str("\\r"),
            '\t' => out.push_str("\\t"),
            c if (c as u32) < 0x20 => {
                let _ = write!(out, "\\u{:04x}", c as u32);
            }
            c => out.push(c),
        }
    }
    out.push('"');
}

struct Interner {
    map: HashMap<String, usize>,
    list: Vec<String>,
}
impl Interner {
    fn new() -> Self {
        Interner { map: HashMap::new(), list: Vec::new() }
    }
    fn get(&mut self, s: String) -> usize {
        if let Some(&i) = self.map.get(&s) {
            return i;
        }
        let i = self.list.len();
        self.map.insert(s.clone(), i);
        self.list.push(s);
        i
    }
    fn dump(&self, out: &mut String) {
        out.push('[');
        for (i, s) in self.list.iter().enumerate() {
            if i > 0 {
                out.push(',');
            }
            esc(s, out);
        }
        out.push(']');
    }
}

struct Cx<'tcx> {
    tcx: TyCtxt<'tcx>,
    types: Interner,
    macros: Interner,
    files: Interner,
    paths: Interner,
}

struct BodyCx<'a, 'tcx> {
    cx: &'a mut Cx<'tcx>,
    tr: &'tcx TypeckResults<'tcx>,
    out: String,
}

impl<'tcx> Cx<'tcx> {
    fn macro_chain(&mut self, span: Span) -> Option<usize> {
        if !span.from_expansion() {
            return None;
        }
        let mut names: Vec<String> = Vec::new();
        let mut ctxt = span.ctxt();
        let mut guard = 0;
        loop {
            let data = ctxt.outer_expn_data();
            match data.kind {
                ExpnKind::Root => break,
                ExpnKind::Macro(_, name) => names.push(name.to_string()),
                ExpnKind::AstPass(_) => names.push("<astpass>".to_string()),
                ExpnKind::Desugaring(k) => names.push(format!("<{}>", k.descr())),
            }
            ctxt = data.call_site.ctxt();
            guard += 1;
            if guard > 40 {
                break;
            }
        }
        if names.is_empty() {
            return None;
        }
        // innermost first
        Some(self.macros.get(names.join("<")))
    }

    fn span_str(&mut self, span: Span) -> String {
        // use the outermost call site so the line is in the user's file
        let sp = span.source_callsite();
        let sm = self.tcx.sess.source_map();
        let lo = sm.lookup_char_pos(sp.lo());
        let hi = sm.lookup_char_pos(sp.hi());
        let fname = format!("{}", lo.file.name.prefer_local_unconditionally());
        let fi = self.files.get(fname);
        format!("{}:{}:{}", fi, lo.line, hi.line)
    }

    fn ty_id(&mut self, t: ty::Ty<'tcx>) -> usize {
        let s = ty::print::with_no_trimmed_paths!(format!("{}", t));
        self.types.get(s)
    }

    fn path_id(&mut self, d: DefId) -> usize {
        let s = ty::print::with_no_trimmed_paths!(self.tcx.def_path_str(d));
        self.paths.get(s)
    }
}

impl<'a, 'tcx> BodyCx<'a, 'tcx> {
    fn key(&mut self, k: &str) {
        self.out.push('"');
        self.out.push_str(k);
        self.out.push_str("\":");
    }
    fn kv_str(&mut self, k: &str, v: &str) {
        self.out.push(',');
        self.key(k);
        esc(v, &mut self.out);
    }
    fn kv_num(&mut self, k: &str, v: usize) {
        self.out.push(',');
        self.key(k);
        let _ = write!(self.out, "{}", v);
    }
    fn kv_bool(&mut self, k: &str, v: bool) {
        self.out.push(',');
        self.key(k);
        self.out.push_str(if v { "true" } else { "false" });
    }

    fn head(&mut self, kind: &str, span: Span) {
        self.out.push('{');
        self.key("k");
        esc(kind, &mut self.out);
        let s = self.cx.span_str(span);
        self.kv_str("s", &s);
        if let Some(m) = self.cx.macro_chain(span) {
            self.kv_num("m", m);
        }
    }

    fn callee_info(&mut self, d: DefId, hir_id: hir::HirId) {
        let tcx = self.cx.tcx;
        let p = self.cx.path_id(d);
        self.kv_num("callee", p);
        let dk = tcx.def_kind(d);
        if matches!(dk, DefKind::Fn | DefKind::AssocFn) {
            let sig = tcx.fn_sig(d).skip_binder();
            if sig.safety().is_unsafe() {
                self.kv_bool("cu", true);
            }
        }
        let cn = tcx.crate_name(d.krate).to_string();
        self.kv_str("cc", &cn);
        // generic args at this node (Self type of trait calls is args[0])
        if let Some(args) = self.tr.node_args_opt(hir_id) {
            if !args.is_empty() {
                let s = ty::print::with_no_trimmed_paths!(format!("{:?}", args));
                let _ = s;
                let mut v: Vec<String> = Vec::new();
                for a in args.iter() {
                    v.push(ty::print::with_no_trimmed_paths!(format!("{}", a)));
                }
                self.out.push(',');
                self.key("ga");
                self.out.push('[');
                for (i, s) in v.iter().enumerate() {
                    if i > 0 {
                        self.out.push(',');
                    }
                    esc(s, &mut self.out);
                }
                self.out.push(']');
            }
        }
        // container: trait or impl
        if let Some(parent) = tcx.opt_parent(d) {
            match tcx.def_kind(parent) {
                DefKind::Trait => {
                    let p = self.cx.path_id(parent);
                    self.kv_num("ctrait", p);
                }
                DefKind::Impl { of_trait } => {
                    if of_trait {
                        let tr = tcx.impl_trait_ref(parent).skip_binder();
                        let p = self.cx.path_id(tr.def_id);
                        self.kv_num("ctrait", p);
                    }
                    let st = tcx.type_of(parent).skip_binder();
                    let t = self.cx.ty_id(st);
                    self.kv_num("cself", t);
                }
                _ => {}
            }
        }
    }

    fn res(&mut self, res: Res, _hir_id: hir::HirId) {
        match res {
            Res::Local(id) => {
                self.kv_str("res", "local");
                let s = format!("{}", id.local_id.as_u32());
                self.kv_str("id", &s);
                let name = self.cx.tcx.hir_name(id).to_string();
                self.kv_str("name", &name);
            }
            Res::Def(dk, d) => {
                self.kv_str("res", "def");
                let dks = format!("{:?}", dk);
                self.kv_str("dk", &dks);
                let p = self.cx.path_id(d);
                self.kv_num("def", p);
                let nm = self.cx.tcx.opt_item_name(d).map(|s| s.to_string()).unwrap_or_default();
                self.kv_str("name", &nm);
            }
            Res::SelfCtor(_) => {
                self.kv_str("res", "selfctor");
            }
            Res::SelfTyAlias { .. } | Res::SelfTyParam { .. } => {
                self.kv_str("res", "selfty");
            }
            _ => {
                self.kv_str("res", "other");
            }
        }
    }

    fn qpath(&mut self, qp: &hir::QPath<'tcx>, hir_id: hir::HirId) {
        let res = self.tr.qpath_res(qp, hir_id);
        self.res(res, hir_id);
        // textual last segment for TypeRelative
        if let hir::QPath::TypeRelative(_, seg) = qp {
            let s = seg.ident.name.to_string();
            self.kv_str("seg", &s);
        }
    }

    fn lit(&mut self, l: &hir::Lit, neg: bool) {
        match l.node {
            LitKind::Int(v, _) => {
                let s = if neg { format!("-{}", v.get()) } else { format!("{}", v.get()) };
                self.kv_str("lk", "int");
                self.kv_str("v", &s);
            }
            LitKind::Bool(b) => {
                self.kv_str("lk", "bool");
                self.kv_bool("v", b);
            }
            LitKind::Float(sym, _) => {
                self.kv_str("lk", "float");
                let s = if neg { format!("-{}", sym) } else { sym.to_string() };
                self.kv_str("v", &s);
            }
            LitKind::Str(sym, _) => {
                self.kv_str("lk", "str");
                self.kv_str("v", sym.as_str());
            }
            LitKind::Char(c) => {
                self.kv_str("lk", "char");
                self.kv_str("v", &c.to_string());
            }
            LitKind::Byte(b) => {
                self.kv_str("lk", "int");
                self.kv_str("v", &format!("{}", b));
            }
            LitKind::ByteStr(..) | LitKind::CStr(..) => {
                self.kv_str("lk", "bytes");
            }
            LitKind::Err(_) => {
                self.kv_str("lk", "err");
            }
        }
    }

    fn pat(&mut self, p: &'tcx hir::Pat<'tcx>) {
        use hir::PatKind::*;
        match p.kind {
            Wild | Missing | Never | Err(_) => {
                self.head("PWild", p.span);
            }
            Binding(mode, id, ident, sub) => {
                self.head("PBind", p.span);
                self.kv_str("name", ident.name.as_str());
                self.kv_str("id", &format!("{}", id.local_id.as_u32()));
                let ms = format!("{:?}", mode);
                self.kv_bool("byref", ms.contains("Ref") && !ms.contains("ByRef::No"));
                self.kv_bool("mut", ms.contains("Mutability::Mut") || ms.contains("Mut)"));
                let t = self.tr.pat_ty(p);
                let ti = self.cx.ty_id(t);
                self.kv_num("t", ti);
                if let Some(sp) = sub {
                    self.out.push(',');
                    self.key("sub");
                    self.pat(sp);
                }
            }
            Struct(ref qp, fields, _) => {
                self.head("PStruct", p.span);
                self.qpath(qp, p.hir_id);
                self.out.push(',');
                self.key("fields");
                self.out.push('[');
                for (i, f) in fields.iter().enumerate() {
                    if i > 0 {
                        self.out.push(',');
                    }
                    self.out.push('{');
                    self.key("name");
                    esc(f.ident.name.as_str(), &mut self.out);
                    self.out.push(',');
                    self.key("p");
                    self.pat(f.pat);
                    self.out.push('}');
                }
                self.out.push(']');
            }
            TupleStruct(ref qp, ps, _) => {
                self.head("PTupleStruct", p.span);
                self.qpath(qp, p.hir_id);
                self.pats("ps", ps);
            }
            Or(ps) => {
                self.head("POr", p.span);
                self.pats("ps", ps);
            }
            Tuple(ps, _) => {
                self.head("PTuple", p.span);
                self.pats("ps", ps);
            }
            Box(q) | Deref(q) | Ref(q, _, _) => {
                self.head("PRef", p.span);
                self.out.push(',');
                self.key("p");
                self.pat(q);
            }
            Expr(pe) => {
                self.head("PLit", p.span);
                self.pat_expr(pe);
            }
            Guard(q, e) => {
                self.head("PGuard", p.span);
                self.out.push(',');
                self.key("p");
                self.pat(q);
                self.out.push(',');
                self.key("g");
                self.expr(e);
            }
            Range(lo, hi, end) => {
                self.head("PRange", p.span);
                self.kv_bool("incl", matches!(end, hir::RangeEnd::Included));
                if let Some(lo) = lo {
                    self.out.push(',');
                    self.key("lo");
                    self.out.push_str("{\"k\":\"PE\"");
                    self.pat_expr(lo);
                    self.out.push('}');
                }
                if let Some(hi) = hi {
                    self.out.push(',');
                    self.key("hi");
                    self.out.push_str("{\"k\":\"PE\"");
                    self.pat_expr(hi);
                    self.out.push('}');
                }
            }
            Slice(a, m, b) => {
                self.head("PSlice", p.span);
                self.pats("ps", a);
                if let Some(m) = m {
                    self.out.push(',');
                    self.key("mid");
                    self.pat(m);
                }
                self.pats("post", b);
            }
        }
        self.out.push('}');
    }

    fn pat_expr(&mut self, pe: &'tcx hir::PatExpr<'tcx>) {
        match pe.kind {
            hir::PatExprKind::Lit { lit, negated } => {
                self.lit(&lit, negated);
            }
            hir::PatExprKind::Path(ref qp) => {
                self.qpath(qp, pe.hir_id);
            }
        }
    }

    fn pats(&mut self, k: &str, ps: &'tcx [hir::Pat<'tcx>]) {
        self.out.push(',');
        self.key(k);
        self.out.push('[');
        for (i, p) in ps.iter().enumerate() {
            if i > 0 {
                self.out.push(',');
            }
            self.pat(p);
        }
        self.out.push(']');
    }

    fn exprs(&mut self, k: &str, es: &'tcx [hir::Expr<'tcx>]) {
        self.out.push(',');
        self.key(k);
        self.out.push('[');
        for (i, e) in es.iter().enumerate() {
            if i > 0 {
                self.out.push(',');
            }
            self.expr(e);
        }
        self.out.push(']');
    }

    fn sub(&mut self, k: &str, e: &'tcx hir::Expr<'tcx>) {
        self.out.push(',');
        self.key(k);
        self.expr(e);
    }

    fn block(&mut self, b: &'tcx hir::Block<'tcx>, label: Option<String>) {
        self.head("Block", b.span);
        if let Some(l) = label {
            self.kv_str("label", &l);
        }
        if !matches!(b.rules, hir::BlockCheckMode::DefaultBlock) {
            self.kv_bool("unsafe", true);
        }
        self.out.push(',');
        self.key("stmts");
        self.out.push('[');
        let mut first = true;
        for st in b.stmts {
            match st.kind {
                hir::StmtKind::Let(l) => {
                    if !first {
                        self.out.push(',');
                    }
                    first = false;
                    self.head("LetStmt", st.span);
                    self.out.push(',');
                    self.key("pat");
                    self.pat(l.pat);
                    if let Some(i) = l.init {
                        self.sub("init", i);
                    }
                    if let Some(e) = l.els {
                        self.out.push(',');
                        self.key("els");
                        self.block(e, None);
                    }
                    self.out.push('}');
                }
                hir::StmtKind::Item(_) => {}
                hir::StmtKind::Expr(e) | hir::StmtKind::Semi(e) => {
                    if !first {
                        self.out.push(',');
                    }
                    first = false;
                    self.expr(e);
                }
            }
        }
        self.out.push(']');
        if let Some(e) = b.expr {
            self.sub("expr", e);
        }
        self.out.push('}');
    }

    fn expr(&mut self, e: &'tcx hir::Expr<'tcx>) {
        use hir::ExprKind::*;
        // transparent wrappers
        match e.kind {
            DropTemps(inner) | Use(inner, _) | Type(inner, _) => {
                return self.expr(inner);
            }
            Block(b, label) => {
                let l = label.map(|l| l.ident.name.to_string());
                self.block(b, l);
                // splice the type in: remove closing brace, add t
                self.out.pop();
                let t = self.tr.expr_ty(e);
                let ti = self.cx.ty_id(t);
                self.kv_num("t", ti);
                self.out.push('}');
                return;
            }
            _ => {}
        }
        let kind = match e.kind {
            ConstBlock(..) => "ConstBlock",
            Array(..) => "Array",
            Call(..) => "Call",
            MethodCall(..) => "MethodCall",
            Tup(..) => "Tup",
            Binary(..) => "Binary",
            Unary(..) => "Unary",
            Lit(..) => "Lit",
            Cast(..) => "Cast",
            Let(..) => "Let",
            If(..) => "If",
            Loop(..) => "Loop",
            Match(..) => "Match",
            Closure(..) => "Closure",
            Assign(..) => "Assign",
            AssignOp(..) => "AssignOp",
            Field(..) => "Field",
            Index(..) => "Index",
            Path(..) => "Path",
            AddrOf(..) => "AddrOf",
            Break(..) => "Break",
            Continue(..) => "Continue",
            Ret(..) => "Ret",
            Become(..) => "Become",
            InlineAsm(..) => "InlineAsm",
            OffsetOf(..) => "OffsetOf",
            Struct(..) => "Struct",
            Repeat(..) => "Repeat",
            Yield(..) => "Yield",
            UnsafeBinderCast(..) => "UnsafeBinderCast",
            Err(_) => "Err",
            _ => "Other",
        };
        self.head(kind, e.span);
        let t = self.tr.expr_ty(e);
        let ti = self.cx.ty_id(t);
        self.kv_num("t", ti);
        // overloaded deref adjustments are interesting only rarely; record adjusted type when it differs
        let ta = self.tr.expr_ty_adjusted(e);
        if ta != t {
            let tai = self.cx.ty_id(ta);
            self.kv_num("ta", tai);
        }
        match e.kind {
            Array(es) | Tup(es) => self.exprs("es", es),
            Call(f, args) => {
                self.sub("f", f);
                self.exprs("args", args);
                if let Path(ref qp) = f.kind {
                    if let Res::Def(dk, d) = self.tr.qpath_res(qp, f.hir_id) {
                        if matches!(dk, DefKind::Fn | DefKind::AssocFn | DefKind::Ctor(..)) {
                            self.callee_info(d, f.hir_id);
                            if matches!(dk, DefKind::Ctor(..)) {
                                self.kv_bool("ctor", true);
                            }
                        }
                    }
                }
            }
            MethodCall(seg, recv, args, _) => {
                self.kv_str("name", seg.ident.name.as_str());
                self.sub("recv", recv);
                self.exprs("args", args);
                if let Some(d) = self.tr.type_dependent_def_id(e.hir_id) {
                    self.callee_info(d, e.hir_id);
                }
            }
            Binary(op, l, r) => {
                self.kv_str("op", op.node.as_str());
                self.sub("l", l);
                self.sub("r", r);
                if let Some(d) = self.tr.type_dependent_def_id(e.hir_id) {
                    self.callee_info(d, e.hir_id);
                }
            }
            Unary(op, x) => {
                let s = match op {
                    hir::UnOp::Deref => "*",
                    hir::UnOp::Not => "!",
                    hir::UnOp::Neg => "-",
                };
                self.kv_str("op", s);
                self.sub("e", x);
                if let Some(d) = self.tr.type_dependent_def_id(e.hir_id) {
                    self.callee_info(d, e.hir_id);
                }
            }
            Lit(l) => self.lit(&l, false),
            Cast(x, _) => self.sub("e", x),
            Let(l) => {
                self.out.push(',');
                self.key("pat");
                self.pat(l.pat);
                self.sub("init", l.init);
            }
            If(c, t, el) => {
                self.sub("c", c);
                self.sub("th", t);
                if let Some(el) = el {
                    self.sub("el", el);
                }
            }
            Loop(b, label, src, _) => {
                let s = format!("{:?}", src);
                self.kv_str("src", &s);
                if let Some(l) = label {
                    self.kv_str("label", l.ident.name.as_str());
                }
                self.out.push(',');
                self.key("body");
                self.block(b, None);
            }
            Match(scrut, arms, src) => {
                let s = format!("{:?}", src);
                let s = s.split('(').next().unwrap_or("").to_string();
                self.kv_str("src", &s);
                self.sub("e", scrut);
                self.out.push(',');
                self.key("arms");
                self.out.push('[');
                for (i, a) in arms.iter().enumerate() {
                    if i > 0 {
                        self.out.push(',');
                    }
                    self.out.push('{');
                    self.key("pat");
                    self.pat(a.pat);
                    if let Some(g) = a.guard {
                        self.sub("guard", g);
                    }
                    self.sub("body", a.body);
                    self.out.push('}');
                }
                self.out.push(']');
            }
            Closure(c) => {
                let body = self.cx.tcx.hir_body(c.body);
                self.out.push(',');
                self.key("params");
                self.out.push('[');
                for (i, p) in body.params.iter().enumerate() {
                    if i > 0 {
                        self.out.push(',');
                    }
                    self.pat(p.pat);
                }
                self.out.push(']');
                self.sub("body", body.value);
            }
            Assign(l, r, _) => {
                self.sub("l", l);
                self.sub("r", r);
            }
            AssignOp(op, l, r) => {
                self.kv_str("op", op.node.as_str());
                self.sub("l", l);
                self.sub("r", r);
                if let Some(d) = self.tr.type_dependent_def_id(e.hir_id) {
                    self.callee_info(d, e.hir_id);
                }
            }
            Field(x, id) => {
                self.kv_str("name", id.name.as_str());
                self.sub("e", x);
            }
            Index(x, i, _) => {
                self.sub("e", x);
                self.sub("i", i);
                if let Some(d) = self.tr.type_dependent_def_id(e.hir_id) {
                    self.callee_info(d, e.hir_id);
                }
            }
            Path(ref qp) => {
                self.qpath(qp, e.hir_id);
            }
            AddrOf(_, m, x) => {
                self.kv_bool("mut", matches!(m, hir::Mutability::Mut));
                self.sub("e", x);
            }
            Break(dest, x) => {
                if let Some(l) = dest.label {
                    self.kv_str("label", l.ident.name.as_str());
                }
                if let Ok(t) = dest.target_id {
                    self.kv_str("target", &format!("{}", t.local_id.as_u32()));
                }
                if let Some(x) = x {
                    self.sub("e", x);
                }
            }
            Continue(dest) => {
                if let Some(l) = dest.label {
                    self.kv_str("label", l.ident.name.as_str());
                }
            }
            Ret(x) => {
                if let Some(x) = x {
                    self.sub("e", x);
                }
            }
            Struct(qp, fields, tail) => {
                self.qpath(qp, e.hir_id);
                self.out.push(',');
                self.key("fields");
                self.out.push('[');
                for (i, f) in fields.iter().enumerate() {
                    if i > 0 {
                        self.out.push(',');
                    }
                    self.out.push('{');
                    self.key("name");
                    esc(f.ident.name.as_str(), &mut self.out);
                    self.kv_bool("short", f.is_shorthand);
                    self.sub("e", f.expr);
                    self.out.push('}');
                }
                self.out.push(']');
                if let hir::StructTailExpr::Base(b) = tail {
                    self.sub("base", b);
                }
            }
            Repeat(x, _) => {
                self.sub("e", x);
            }
            ConstBlock(cb) => {
                let body = self.cx.tcx.hir_body(cb.body);
                self.sub("body", body.value);
            }
            _ => {}
        }
        self.out.push('}');
    }
}

struct Cb;

fn generics_str<'tcx>(tcx: TyCtxt<'tcx>, d: DefId) -> String {
    let preds = tcx.predicates_of(d).instantiate_identity(tcx);
    let mut v: Vec<String> = Vec::new();
    for (p, _) in preds.predicates.iter().zip(preds.spans.iter()) {
        v.push(ty::print::with_no_trimmed_paths!(format!("{:?}", p)));
    }
    v.join("; ")
}

impl Callbacks for Cb {
    fn after_analysis<'tcx>(&mut self, _c: &Compiler, tcx: TyCtxt<'tcx>) -> Compilation {
        let want = std::env::var("DRV_CRATE").unwrap_or_else(|_| "sux".to_string());
        let name = tcx.crate_name(LOCAL_CRATE).to_string();
        if name != want {
            return Compilation::Continue;
        }
        // only the library target (not bins of the same package, which have other crate names anyway)
        let out_path = match std::env::var("DRV_OUT") {
            Ok(p) => p,
            Err(_) => return Compilation::Continue,
        };
        let mut cx = Cx {
            tcx,
            types: Interner::new(),
            macros: Interner::new(),
            files: Interner::new(),
            paths: Interner::new(),
        };
        let mut out = String::with_capacity(64 << 20);
        out.push_str("{\"crate\":");
        esc(&name, &mut out);

        // ---- bodies
        out.push_str(",\"bodies\":[");
        let mut nb = 0usize;
        for ldid in tcx.hir_body_owners() {
            let did = ldid.to_def_id();
            let dk = tcx.def_kind(did);
            if matches!(dk, DefKind::Closure | DefKind::InlineConst | DefKind::SyntheticCoroutineBody) {
                continue;
            }
            let Some(body) = tcx.hir_maybe_body_owned_by(ldid) else { continue };
            let tr = tcx.typeck(ldid);
            if nb > 0 {
                out.push(',');
            }
            nb += 1;
            let mut b = BodyCx { cx: &mut cx, tr, out: String::new() };
            b.out.push('{');
            b.key("path");
            let p = ty::print::with_no_trimmed_paths!(tcx.def_path_str(did));
            esc(&p, &mut b.out);
            b.kv_str("dk", &format!("{:?}", dk));
            b.kv_str("name", &tcx.opt_item_name(did).map(|s| s.to_string()).unwrap_or_default());
            let sp = tcx.def_span(did);
            let full = tcx.hir_span_with_body(tcx.local_def_id_to_hir_id(ldid));
            let s = b.cx.span_str(full);
            b.kv_str("s", &s);
            if let Some(m) = b.cx.macro_chain(sp) {
                b.kv_num("m", m);
            }
            if matches!(dk, DefKind::Fn | DefKind::AssocFn) {
                let sig = tcx.fn_sig(did).skip_binder();
                b.kv_bool("unsafe", sig.safety().is_unsafe());
                let vis = tcx.visibility(did);
                b.kv_bool("pub", vis.is_public());
                let sig = sig.skip_binder();
                let mut ins: Vec<usize> = Vec::new();
                for t in sig.inputs() {
                    ins.push(b.cx.ty_id(*t));
                }
                b.out.push(',');
                b.key("sig_in");
                b.out.push('[');
                for (i, t) in ins.iter().enumerate() {
                    if i > 0 {
                        b.out.push(',');
                    }
                    let _ = write!(b.out, "{}", t);
                }
                b.out.push(']');
                let rt = b.cx.ty_id(sig.output());
                b.kv_num("ret", rt);
                let g = generics_str(tcx, did);
                b.kv_str("preds", &g);
            }
            if let Some(parent) = tcx.opt_parent(did) {
                match tcx.def_kind(parent) {
                    DefKind::Trait => {
                        let pi = b.cx.path_id(parent);
                        b.kv_num("in_trait", pi);
                    }
                    DefKind::Impl { of_trait } => {
                        if of_trait {
                            let trf = tcx.impl_trait_ref(parent).skip_binder();
                            let pi = b.cx.path_id(trf.def_id);
                            b.kv_num("impl_trait", pi);
                            let s = ty::print::with_no_trimmed_paths!(format!("{}", trf));
                            b.kv_str("impl_trait_ref", &s);
                        }
                        let st = tcx.type_of(parent).skip_binder();
                        let ti = b.cx.ty_id(st);
                        b.kv_num("impl_self", ti);
                        if let ty::Adt(adt, _) = st.kind() {
                            let pi = b.cx.path_id(adt.did());
                            b.kv_num("impl_adt", pi);
                        }
                        let isp = tcx.def_span(parent);
                        if let Some(m) = b.cx.macro_chain(isp) {
                            b.kv_num("impl_m", m);
                        }
                        let g = generics_str(tcx, parent);
                        b.kv_str("impl_preds", &g);
                    }
                    _ => {}
                }
            }
            b.out.push(',');
            b.key("params");
            b.out.push('[');
            for (i, p) in body.params.iter().enumerate() {
                if i > 0 {
                    b.out.push(',');
                }
                b.pat(p.pat);
            }
            b.out.push(']');
            b.out.push(',');
            b.key("body");
            b.expr(body.value);
            b.out.push('}');
            let s = std::mem::take(&mut b.out);
            out.push_str(&s);
        }
        out.push(']');

        // ---- ADTs and impls, traits
        out.push_str(",\"adts\":[");
        let mut first = true;
        for id in tcx.hir_free_items() {
            let item = tcx.hir_item(id);
            let did = item.owner_id.to_def_id();
            match item.kind {
                hir::ItemKind::Struct(..) | hir::ItemKind::Enum(..) | hir::ItemKind::Union(..) => {
                    if !first {
                        out.push(',');
                    }
                    first = false;
                    let adt = tcx.adt_def(did);
                    out.push_str("{\"path\":");
                    esc(&ty::print::with_no_trimmed_paths!(tcx.def_path_str(did)), &mut out);
                    let _ = write!(out, ",\"kind\":\"{:?}\"", adt.adt_kind());
                    let _ = write!(out, ",\"repr\":");
                    esc(&format!("{:?}", adt.repr()), &mut out);
                    let _ = write!(out, ",\"pub\":{}", tcx.visibility(did).is_public());
                    out.push_str(",\"s\":");
                    let s = cx.span_str(item.span);
                    esc(&s, &mut out);
                    out.push_str(",\"variants\":[");
                    for (vi, v) in adt.variants().iter().enumerate() {
                        if vi > 0 {
                            out.push(',');
                        }
                        out.push_str("{\"name\":");
                        esc(v.name.as_str(), &mut out);
                        out.push_str(",\"fields\":[");
                        for (fi, f) in v.fields.iter().enumerate() {
                            if fi > 0 {
                                out.push(',');
                            }
                            out.push_str("{\"name\":");
                            esc(f.name.as_str(), &mut out);
                            let t = tcx.type_of(f.did).skip_binder();
                            let ti = cx.ty_id(t);
                            let _ = write!(out, ",\"t\":{}", ti);
                            let _ = write!(out, ",\"pub\":{}", f.vis.is_public());
                            out.push('}');
                        }
                        out.push_str("]}");
                    }
                    out.push_str("]}");
                }
                _ => {}
            }
        }
        out.push(']');

        out.push_str(",\"impls\":[");
        let mut first = true;
        for id in tcx.hir_free_items() {
            let item = tcx.hir_item(id);
            let did = item.owner_id.to_def_id();
            if let hir::ItemKind::Impl(imp) = item.kind {
                if !first {
                    out.push(',');
                }
                first = false;
                out.push_str("{\"self\":");
                let st = tcx.type_of(did).skip_binder();
                esc(&ty::print::with_no_trimmed_paths!(format!("{}", st)), &mut out);
                if let ty::Adt(adt, _) = st.kind() {
                    out.push_str(",\"adt\":");
                    esc(&ty::print::with_no_trimmed_paths!(tcx.def_path_str(adt.did())), &mut out);
                }
                if imp.of_trait.is_some() {
                    let trf = tcx.impl_trait_ref(did).skip_binder();
                    out.push_str(",\"trait\":");
                    esc(&ty::print::with_no_trimmed_paths!(tcx.def_path_str(trf.def_id)), &mut out);
                    out.push_str(",\"trait_ref\":");
                    esc(&ty::print::with_no_trimmed_paths!(format!("{}", trf)), &mut out);
                }
                out.push_str(",\"s\":");
                let s = cx.span_str(item.span);
                esc(&s, &mut out);
                if let Some(m) = cx.macro_chain(item.span) {
                    let _ = write!(out, ",\"m\":{}", m);
                }
                out.push_str(",\"preds\":");
                esc(&generics_str(tcx, did), &mut out);
                out.push_str(",\"items\":[");
                for (i, ii) in imp.items.iter().enumerate() {
                    if i > 0 {
                        out.push(',');
                    }
                    let idid = ii.owner_id.to_def_id();
                    out.push_str("{\"name\":");
                    esc(tcx.item_name(idid).as_str(), &mut out);
                    let _ = write!(out, ",\"dk\":\"{:?}\"", tcx.def_kind(idid));
                    out.push_str(",\"path\":");
                    esc(&ty::print::with_no_trimmed_paths!(tcx.def_path_str(idid)), &mut out);
                    out.push('}');
                }
                out.push_str("]}");
            }
        }
        out.push(']');

        out.push_str(",\"traits\":[");
        let mut first = true;
        for id in tcx.hir_free_items() {
            let item = tcx.hir_item(id);
            let did = item.owner_id.to_def_id();
            if let hir::ItemKind::Trait { .. } = item.kind {
                if !first {
                    out.push(',');
                }
                first = false;
                out.push_str("{\"path\":");
                esc(&ty::print::with_no_trimmed_paths!(tcx.def_path_str(did)), &mut out);
                out.push_str(",\"items\":[");
                for (i, ai) in tcx.associated_items(did).in_definition_order().enumerate() {
                    if i > 0 {
                        out.push(',');
                    }
                    out.push_str("{\"name\":");
                    esc(ai.name().as_str(), &mut out);
                    let _ = write!(out, ",\"kind\":\"{}\"", if ai.is_fn() { "fn" } else { "other" });
                    let _ = write!(out, ",\"has_default\":{}", ai.defaultness(tcx).has_value());
                    if ai.is_fn() {
                        let sig = tcx.fn_sig(ai.def_id).skip_binder();
                        let _ = write!(out, ",\"unsafe\":{}", sig.safety().is_unsafe());
                    }
                    out.push('}');
                }
                out.push_str("]}");
            }
        }
        out.push(']');

        // ---- layouts of monomorphic self types of impls (e.g. Block32Counters<2, 9>) and of non-generic ADTs
        out.push_str(",\"layouts\":{");
        {
            use rustc_middle::ty::TypeVisitableExt;
            let mut seen: std::collections::BTreeMap<String, (u64, u64)> = std::collections::BTreeMap::new();
            let typing_env = ty::TypingEnv::fully_monomorphized();
            for id in tcx.hir_free_items() {
                let item = tcx.hir_item(id);
                let did = item.owner_id.to_def_id();
                let t = match item.kind {
                    hir::ItemKind::Impl(..) => Some(tcx.type_of(did).skip_binder()),
                    hir::ItemKind::Struct(..) => {
                        if tcx.generics_of(did).count() == 0 { Some(tcx.type_of(did).skip_binder()) } else { None }
                    }
                    _ => None,
                };
                if let Some(t) = t {
                    if t.has_param() || t.has_infer() || t.has_aliases() || !matches!(t.kind(), ty::Adt(..)) {
                        continue;
                    }
                    if let Ok(l) = tcx.layout_of(typing_env.as_query_input(t)) {
                        let name = ty::print::with_no_trimmed_paths!(format!("{}", t));
                        seen.insert(name, (l.size.bytes(), l.align.abi.bytes()));
                    }
                }
            }
            let mut first = true;
            for (k, (sz, al)) in seen.iter() {
                if !first { out.push(','); }
                first = false;
                esc(k, &mut out);
                let _ = write!(out, ":{{\"size\":{},\"align\":{}}}", sz, al);
            }
        }
        out.push('}');

        out.push_str(",\"types\":");
        cx.types.dump(&mut out);
        out.push_str(",\"macros\":");
        cx.macros.dump(&mut out);
        out.push_str(",\"files\":");
        cx.files.dump(&mut out);
        out.push_str(",\"paths\":");
        cx.paths.dump(&mut out);
        let _ = write!(out, ",\"n_bodies\":{}", nb);
        out.push('}');
        let tmp = format!("{}.tmp{}", out_path, std::process::id());
        std::fs::write(&tmp, out).expect("write facts");
        std::fs::rename(&tmp, &out_path).expect("rename facts");
        Compilation::Continue
    }
}

fn main() {
    let mut args: Vec<String> = std::env::args().collect();
    // RUSTC_WORKSPACE_WRAPPER: argv[1] is the path of the real rustc
    if args.len() > 1 && (args[1].ends_with("rustc") || args[1].contains("/rustc")) {
        args.remove(1);
    }
    rustc_driver::run_compiler(&args, &mut Cb);
}
